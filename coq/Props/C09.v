(* C09 — property theorems only.  Each is closed by [exact]; see C09/Proofs.v. *)
From Coq Require Import List ZArith Arith.
From VV Require Import Lib.Base Lib.Pyslice C09.Model C09.Proofs.
Import ListNotations.

(* values/errors of the result = what the same slice selects on the arrays *)
Theorem C09_slice_selects_cells :
  forall (A B : Type) (d : ds A B) idx r mi dflt,
  wf d -> getitem d idx = Ok r ->
  Forall2 (fun i n => i < n) mi (shape r) ->
  nth (offset (shape r) mi) (cells r) dflt
  = nth (offset (shape d) (starts (norm_idx (shape d) idx) mi)) (cells d) dflt.
Proof. exact @getitem_cells. Qed.
Print Assumptions C09_slice_selects_cells.

(* along every dimension the bins are those that locate (centres) or delimit
   (edges) the retained cells, in the same order *)
Theorem C09_slice_keeps_bins :
  forall (A B : Type) (d : ds A B) idx r k n b s e,
  wf d -> getitem d idx = Ok r ->
  nth_error (shape d) k = Some n -> nth_error (bins d) k = Some b ->
  nth_error (norm_idx (shape d) idx) k = Some (s, e) ->
  exists b', nth_error (bins r) k = Some b' /\
    ((length b = n /\ length b' = e - s /\
      forall j dflt, j < e - s -> nth j b' dflt = nth (s + j) b dflt)
     \/
     (length b = S n /\ length b' = (e - s) + 1 /\
      forall j dflt, j <= e - s -> nth j b' dflt = nth (s + j) b dflt)).
Proof. exact @getitem_bins. Qed.
Print Assumptions C09_slice_keeps_bins.

Theorem C09_slice_well_formed :
  forall (A B : Type) (d : ds A B) idx r, wf d -> getitem d idx = Ok r -> wf r.
Proof. exact @getitem_wf. Qed.
Print Assumptions C09_slice_well_formed.

Theorem C09_squeeze_well_formed :
  forall (A B : Type) (d : ds A B), wf d -> wf (squeeze d).
Proof. exact @squeeze_wf. Qed.
Print Assumptions C09_squeeze_well_formed.

Theorem C09_squeeze_removes_exactly_unit_dims :
  forall (A B : Type) (d : ds A B),
  length (bins d) = length (shape d) ->
  combine (shape (squeeze d)) (bins (squeeze d))
  = filter (fun p => negb (Nat.eqb (fst p) 1)) (combine (shape d) (bins d))
  /\ cells (squeeze d) = cells d.
Proof. exact @squeeze_spec. Qed.
Print Assumptions C09_squeeze_removes_exactly_unit_dims.

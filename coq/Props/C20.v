(* C20 — property theorems only.  Each is closed by [exact]; see C20/Proofs.v. *)
From Coq Require Import String List ZArith.
From VV Require Import Lib.Base C19.Model C19.Proofs C20.Model C20.Proofs.
Import ListNotations.

(* for every report tree: either write is refused before the first file write,
   or there is exactly one page per section at the path of its title chain
   (root = index), no path is written twice, every result's anchor is written
   exactly once and on its section's page, every toctree entry resolves to the
   written page of the sub-section, every referenced figure is written *)
Theorem C20_write_spec :
  forall r : report,
  (snd (write r) <> None -> fst (write r) = []) /\
  (snd (write r) = None ->
   let t := fst (write r) in
   trace_pages t = map page_of (secs [] r) /\
   (forall k n, In (k, n) (secs [] r) ->
      page_doc k = match k with [] => ["index"%string] | _ => k end /\ (k = [] -> n = r)) /\
   NoDup (map wr_path t) /\
   flat_map p_anchors (trace_pages t) = anchors_pre r /\
   (forall k n c, In (k, n) (secs [] r) -> In c (children_of n) ->
      In (toc_entry (k ++ [title_of c])) (p_toc (page_of (k, n))) /\
      In (page_of (k ++ [title_of c], c)) (trace_pages t) /\
      resolve (p_doc (page_of (k, n))) (toc_entry (k ++ [title_of c]))
      = p_doc (page_of (k ++ [title_of c], c))) /\
   (forall p i, In p (trace_pages t) -> In i (p_images p) -> In (WFig i) t)).
Proof. exact write_spec. Qed.
Print Assumptions C20_write_spec.

(* the subtree[-2:] rule: at every depth the entry written on the page of a
   section, read relative to the directory of that page, is the page of the
   sub-section *)
Theorem C20_toc_entries_resolve :
  forall (k : list string) (t : string),
  Forall good_name k -> good_name t ->
  resolve (page_doc k) (toc_entry (k ++ [t])) = page_doc (k ++ [t]).
Proof. exact toc_entries_resolve. Qed.
Print Assumptions C20_toc_entries_resolve.

(* sections of a report that passes check_tree have pairwise different keys *)
Theorem C20_sections_have_distinct_keys :
  forall (figs : list string) (r : report) (k : key),
  titles_ok figs k r = true -> NoDup (map fst (secs k r)).
Proof. exact secs_nodup. Qed.
Print Assumptions C20_sections_have_distinct_keys.

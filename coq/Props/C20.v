(* C20 — property theorems only.  Each is closed by [exact]; see C20/Final.v,
   C20/Dict.v, C20/Keys.v, C20/Proofs.v.
   [dwrite_report] is the transcription of the code's algorithm (two
   dictionaries keyed by title chains, check_tree / _write_rec walking them);
   [write] is the tree-based model; they are equal (third theorem). *)
From Coq Require Import String List ZArith.
From VV Require Import Lib.Base C19.Model C19.Proofs C20.Model C20.Proofs C20.Dict C20.Keys C20.Final.
Import ListNotations.

(* for every report tree: either write is refused before the first file write,
   or there is exactly one page per section at the path of its title chain
   (root = index), no path is written twice, every result's anchor is written
   exactly once and on its section's page, every toctree entry resolves to the
   written page of the sub-section, every referenced figure is written *)
Theorem C20_write_spec :
  forall r : report,
  (snd (dwrite_report r) <> None -> fst (dwrite_report r) = []) /\
  (snd (dwrite_report r) = None ->
   let t := fst (dwrite_report r) in
   trace_pages t = map page_of (secs [] r) /\
   (forall k n, In (k, n) (secs [] r) ->
      page_doc k = match k with [] => ["index"%string] | _ => k end /\ (k = [] -> n = r)) /\
   NoDup (map wr_path t) /\
   flat_map p_anchors (trace_pages t) = anchors_pre r /\
   (forall k n c, In (k, n) (secs [] r) -> In c (children_of n) ->
      In (toc_entry (k ++ [title_of c])) (p_toc (page_of (k, n))) /\
      In (page_of (k ++ [title_of c], c)) (trace_pages t) /\
      resolve (p_doc (page_of (k, n))) (toc_entry (k ++ [title_of c]))
      = p_doc (page_of (k ++ [title_of c], c))) /\
   (forall p i, In p (trace_pages t) -> In i (p_images p) -> In (WFig i) t)).
Proof. exact code_write_spec. Qed.
Print Assumptions C20_write_spec.

(* the subtree[-2:] rule: at every depth the entry written on the page of a
   section, read relative to the directory of that page, is the page of the
   sub-section *)
Theorem C20_toc_entries_resolve :
  forall (k : list string) (t : string),
  Forall good_name k -> good_name t ->
  resolve (page_doc k) (toc_entry (k ++ [t])) = page_doc (k ++ [t]).
Proof. exact toc_entries_resolve. Qed.
Print Assumptions C20_toc_entries_resolve.

(* the dictionary-based algorithm of the code and the tree-based model are the
   same function, for all reports (accepted or not) *)
Theorem C20_dict_write_is_tree_write :
  forall r : report, dwrite_report r = write r.
Proof. exact dict_write_is_tree_write. Qed.
Print Assumptions C20_dict_write_is_tree_write.

(* check_tree (with the depth limit of format_report) refuses exactly the
   trees that are deeper than five levels, have duplicate sibling titles, a
   title that is not a file name, a top-level "index", or a file that would
   have to be a directory; and it refuses before the first write *)
Theorem C20_check_tree_rejects_exactly :
  forall r : report,
  (snd (dwrite_report r) <> None <->
   ~ ((forall k n, at_key r k n -> length k <= 4) /\
      (forall k n, at_key r k n -> NoDup (map title_of (children_of n))) /\
      (forall k n, at_key r k n -> Forall good_name k) /\
      ~ In "index"%string (map title_of (children_of r)) /\
      prefix_free (files r))) /\
  (snd (dwrite_report r) <> None -> fst (dwrite_report r) = []).
Proof. exact code_rejects_exactly. Qed.
Print Assumptions C20_check_tree_rejects_exactly.

(* no written file lies below another written file *)
Theorem C20_no_file_is_a_directory :
  forall r : report,
  snd (dwrite_report r) = None ->
  forall f f2 rest, In f (map wr_path (fst (dwrite_report r))) ->
                    In f2 (map wr_path (fst (dwrite_report r))) -> f2 = f ++ rest -> rest = [].
Proof. exact code_no_file_is_a_directory. Qed.
Print Assumptions C20_no_file_is_a_directory.

(* sections of a report that passes check_tree have pairwise different keys *)
Theorem C20_sections_have_distinct_keys :
  forall (figs : list string) (r : report) (k : key),
  titles_ok figs k r = true -> NoDup (map fst (secs k r)).
Proof. exact secs_nodup. Qed.
Print Assumptions C20_sections_have_distinct_keys.

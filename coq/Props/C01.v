From Coq Require Import List.
From VV Require Import Sched.Model.
Theorem C01_placeholder : forall c s, terminal s = true -> master_step c s = None.
Proof. intros c s H. unfold terminal in H. unfold master_step. destruct (mp s); try discriminate; reflexivity. Qed.
Print Assumptions C01_placeholder.

From Coq Require Import List.
From VV Require Import Sched.Model Sched.Defs Sched.Inv Sched.ProofsC01 Sched.EnvApply Sched.EnvApplyProofs.

Theorem C01_start_after_deps :
  forall c e0 st0 clk s w t t0,
  wf_cfg c -> junk_free e0 -> reachable c e0 st0 clk s ->
  w < nworkers c -> wp s w = WStart t t0 ->
  forall d, In d (deps c t) ->
    final_at (env s) d = true
    /\ (stat (env s) d = DONE ->
          (started s d = st0 d /\ env s d = e0 d)
          \/ (started s d = S (st0 d)
              /\ (exists a b, esc (env s d) = Some a /\ eec (env s d) = Some b)
              /\ (has_upd (oc c d) = true -> ever (env s d) = Some (started s d)))).
Proof. exact start_after_deps. Qed.
Print Assumptions C01_start_after_deps.

(* ---- the content of the update: Env.apply as WorkerThread.publish uses it (model Sched/EnvApply.v) ---- *)

(* what EVERY path reads after a successful apply *)
Theorem C01_apply_spec :
  forall u old e', wf (Dict u) = true -> merge (Dict u) (Dict old) = Some e' ->
  forall p, get_path e' p = spec (Dict u) (Dict old) p.
Proof. exact apply_spec_dict. Qed.
Print Assumptions C01_apply_spec.

(* the complete update is readable: every leaf of the update is read at the same path *)
Theorem C01_update_readable :
  forall p u old e' n, wf u = true -> merge u old = Some e' ->
  get_path u p = Some (Leaf n) -> get_path e' p = Some (Leaf n).
Proof. exact update_readable. Qed.
Print Assumptions C01_update_readable.

(* nothing else changes: a path that leaves the update reads what it read before *)
Theorem C01_apply_frame :
  forall p u old e', wf u = true -> merge u old = Some e' ->
  untouched u p = true -> get_path e' p = get_path old p.
Proof. exact apply_frame. Qed.
Print Assumptions C01_apply_frame.

(* the call raises iff a non-empty dictionary of the update meets a leaf of the environment *)
Theorem C01_apply_fails_only_on_leaf_clash :
  forall u old, wf u = true ->
  (merge u old = None <->
   exists p x l m, get_path u p = Some (Dict (x :: l)) /\ get_path old p = Some (Leaf m)).
Proof. exact apply_fails_only_on_leaf_clash. Qed.
Print Assumptions C01_apply_fails_only_on_leaf_clash.

Theorem C01_apply_idempotent :
  forall u old e', wf u = true -> merge u old = Some e' -> merge u e' = Some e'.
Proof. exact apply_idempotent. Qed.
Print Assumptions C01_apply_idempotent.

(* the correspondence check compares dictionaries up to the order of their keys (norm sorts
   every dictionary by key): that loses no content *)
Theorem C01_norm_get_path :
  forall p v, get_path (norm v) p = option_map norm (get_path v p).
Proof. exact norm_get_path. Qed.
Print Assumptions C01_norm_get_path.

Theorem C01_norm_eq_same_leaves :
  forall a b, norm a = norm b ->
  forall p n, get_path a p = Some (Leaf n) <-> get_path b p = Some (Leaf n).
Proof. exact norm_eq_same_leaves. Qed.
Print Assumptions C01_norm_eq_same_leaves.

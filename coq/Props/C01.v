From Coq Require Import List.
From VV Require Import Sched.Model Sched.Defs Sched.Inv Sched.ProofsC01.

Theorem C01_start_after_deps :
  forall c e0 st0 clk s w t t0,
  wf_cfg c -> junk_free e0 -> reachable c e0 st0 clk s ->
  w < nworkers c -> wp s w = WStart t t0 ->
  forall d, In d (deps c t) ->
    final_at (env s) d = true
    /\ (stat (env s) d = DONE ->
          (started s d = st0 d /\ env s d = e0 d)
          \/ (started s d = S (st0 d)
              /\ (exists a b, esc (env s d) = Some a /\ eec (env s d) = Some b)
              /\ (has_upd (oc c d) = true -> ever (env s d) = Some (started s d)))).
Proof. exact start_after_deps. Qed.
Print Assumptions C01_start_after_deps.

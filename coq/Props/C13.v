(* C13 — property theorems only.  Each is closed by [exact]; see C13/Proofs.v. *)
From Coq Require Import List ZArith Bool Arith.
From VV Require Import Lib.Base C17.LibDict C18.Model C13.Model C13.Proofs.
Import ListNotations.

(* every read-only operation returns the state it was given *)
Theorem C13_observers_preserve_state :
  forall (nstat : nat) (P O : Type) (render : nat -> P -> O)
         (render_stats : nat -> nat -> classify -> O) (render_rows : nat -> list (row Z) -> nat -> O)
         (o : op) (s : result),
  snd (step nstat render render_stats render_rows o s) = s.
Proof. exact @observers_preserve_state. Qed.
Print Assumptions C13_observers_preserve_state.

(* any finite sequence of them leaves the state unchanged and each of its
   outputs is the output of that operation on the initial state *)
Theorem C13_any_sequence_preserves :
  forall (nstat : nat) (P O : Type) (render : nat -> P -> O)
         (render_stats : nat -> nat -> classify -> O) (render_rows : nat -> list (row Z) -> nat -> O)
         (ops : list op) (s : result),
  snd (run nstat render render_stats render_rows ops s) = s /\
  fst (run nstat render render_stats render_rows ops s)
  = map (fun o => fst (step nstat render render_stats render_rows o s)) ops.
Proof. exact @any_sequence_preserves. Qed.
Print Assumptions C13_any_sequence_preserves.

(* in particular the verdict (and every other observation) after any sequence
   of observations is the one before *)
Theorem C13_observation_after_any_sequence :
  forall (nstat : nat) (P O : Type) (render : nat -> P -> O)
         (render_stats : nat -> nat -> classify -> O) (render_rows : nat -> list (row Z) -> nat -> O)
         (ops : list op) (o : op) (s : result),
  fst (step nstat render render_stats render_rows o (snd (run nstat render render_stats render_rows ops s)))
  = fst (step nstat render render_stats render_rows o s).
Proof. exact @observation_after_any_sequence. Qed.
Print Assumptions C13_observation_after_any_sequence.

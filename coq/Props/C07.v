(* C07 — property theorems only; see C07/Proofs.v.  A bin is (v1, e1, v2, e2); the pull
   (v1-v2)/sqrt(e1^2+e2^2) is C05's expression tree; scipy's chi2.sf is a Section variable. *)
From Coq Require Import List ZArith Bool Reals Permutation.
From VV Require Import Lib.Base Lib.B64 C06.LibF C05.Model C07.Model C07.Proofs.
Import ListNotations.

(* with ignore_empty, for defined non-negative errors a bin is left out iff both errors are 0 *)
Theorem C07_mask_spec :
  forall b : bin4 b64,
  B64.is_nan (b_e1 b) = false -> B64.is_nan (b_e2 b) = false ->
  (0 <= xR (b_e1 b))%R -> (0 <= xR (b_e2 b))%R ->
  (used true b = false <-> xR (b_e1 b) = 0%R /\ xR (b_e2 b) = 0%R).
Proof. exact mask_spec. Qed.
Print Assumptions C07_mask_spec.

(* ndf = number of used bins; the statistic is the (left-to-right, correctly rounded) sum of
   the squared pulls of the used bins; without the option every bin is used *)
Theorem C07_ndf_is_count_used :
  forall ie bins,
  ndf ie bins = length (filter (used ie) bins) /\
  ndf ie bins = count_occ bool_dec (map (used ie) bins) true /\
  chi2_stat ie bins = fsum (map term (filter (used ie) bins)) /\
  (forall b, term b = evalB (env4 b) (Mul t_expr t_expr)) /\
  filter (used false) bins = bins.
Proof.
  exact (fun ie bins => conj (ndf_is_count_used ie bins) (conj (ndf_count ie bins)
           (conj eq_refl (conj term_is_expr (used_all bins))))).
Qed.
Print Assumptions C07_ndf_is_count_used.

(* left-out bins contribute neither to the sum nor to the count: wherever they stand they
   can be deleted, and statistic / ndf are those of the dataset restricted to its used bins *)
Theorem C07_left_out_contribute_nothing :
  forall ie,
  (forall l1 b l2, used ie b = false ->
     chi2_stat ie (l1 ++ b :: l2) = chi2_stat ie (l1 ++ l2) /\
     ndf ie (l1 ++ b :: l2) = ndf ie (l1 ++ l2)) /\
  (forall bins,
     chi2_stat ie bins = chi2_stat false (used_bins ie bins) /\
     ndf ie bins = length (used_bins ie bins)).
Proof.
  exact (fun ie => conj (left_out_anywhere ie)
    (fun bins => match left_out_contribute_nothing ie bins with
                 | conj _ (conj _ (conj H3 H4)) => conj H3 H4 end)).
Qed.
Print Assumptions C07_left_out_contribute_nothing.

(* verdict true iff every probability exceeds alpha (real comparison; NaN never exceeds) *)
Theorem C07_verdict_iff_all_p_gt_alpha :
  forall alpha ps,
  (verdict alpha ps = true <-> forall p, In p ps -> flt alpha p = true) /\
  (B64.is_nan alpha = false -> forall p,
     (B64.is_nan p = true -> pass alpha p = false) /\
     (B64.is_nan p = false -> (pass alpha p = true <-> (xR alpha < xR p)%R))).
Proof.
  exact (fun alpha ps => conj (verdict_iff_all_p_gt_alpha alpha ps)
                              (fun Na p => pass_on_reals alpha p Na)).
Qed.
Print Assumptions C07_verdict_iff_all_p_gt_alpha.

(* over R, same expression tree: each term is (v1-v2)^2/(e1^2+e2^2) and the statistic is
   their sum over the used bins *)
Theorem C07_chi2_is_sum_of_squared_pulls :
  forall ie (bins : list (bin4 R)),
  (forall b, In b bins -> usedR ie b = true -> (0 < b_e1 b * b_e1 b + b_e2 b * b_e2 b)%R) ->
  chi2R ie bins =
  sumR (map (fun b => ((b_v1 b - b_v2 b) * (b_v1 b - b_v2 b)
                       / (b_e1 b * b_e1 b + b_e2 b * b_e2 b))%R) (filter (usedR ie) bins)).
Proof. exact chi2_is_sum_of_squared_pulls. Qed.
Print Assumptions C07_chi2_is_sum_of_squared_pulls.

(* the statistic and ndf do not depend on the order of the bins (over R; on binary64 the
   set of used bins and ndf are invariant, only the rounding of the sum may differ) *)
Theorem C07_perm_invariant :
  (forall ie (bins bins' : list (bin4 R)), Permutation bins bins' ->
     chi2R ie bins = chi2R ie bins' /\ ndfR ie bins = ndfR ie bins') /\
  (forall ie (bins bins' : list (bin4 b64)), Permutation bins bins' ->
     Permutation (used_bins ie bins) (used_bins ie bins') /\ ndf ie bins = ndf ie bins').
Proof. exact (conj perm_invariant used_perm). Qed.
Print Assumptions C07_perm_invariant.

(* no bin left out and some term undefined (e.g. any NaN input): the statistic is NaN and,
   with sf NaN = NaN, the comparison does not pass *)
Theorem C07_nan_never_passes :
  forall (sf : b64 -> nat -> b64), (forall k, B64.is_nan (sf fnan k) = true) ->
  forall alpha bins b others,
  In b bins -> B64.is_nan (term b) = true ->
  chi2_stat false bins = fnan /\
  pass alpha (pvalue sf false bins) = false /\
  (In (pvalue sf false bins) others -> verdict alpha others = false).
Proof.
  exact (fun sf Hsf alpha bins b others Hin Hn =>
           conj (chi2_nan bins b Hin Hn) (nan_never_passes sf Hsf alpha bins b others Hin Hn)).
Qed.
Print Assumptions C07_nan_never_passes.

Theorem C07_nan_input_makes_term_nan :
  forall b : bin4 b64,
  B64.is_nan (b_v1 b) || B64.is_nan (b_e1 b) || B64.is_nan (b_v2 b) || B64.is_nan (b_e2 b) = true ->
  term b = fnan.
Proof. exact term_nan_input. Qed.
Print Assumptions C07_nan_input_makes_term_nan.

(* C19 — property theorems only.  Each is closed by [exact]; see C19/Proofs.v.
   [exec] (subprocess.call and the outside world) and [echo] are arbitrary. *)
From Coq Require Import String List ZArith.
From VV Require Import Sched.Model Sched.Defs Sched.ProofsC02.
From VV Require Import Lib.Base C19.Model C19.Proofs C19.Compose C19.Code.
Import ListNotations.

(* DONE exactly when every command was run and exited with status zero *)
Theorem C19_done_iff_all_zero :
  forall (cmd world : Type) (exec : cmd -> world -> outcome * world) (echo : cmd -> string)
         (clis : list cmd) (w : world) (k : cap) (codes : list Z) (st : status) (w' : world) (k' : cap),
  run exec echo clis w k = (Finished codes st, w', k') ->
  (st = DONE <-> length codes = length clis /\ Forall (fun c : Z => c = 0%Z) codes) /\
  (st = FAILED <-> ~ (length codes = length clis /\ Forall (fun c : Z => c = 0%Z) codes)).
Proof. exact done_iff_all_zero. Qed.
Print Assumptions C19_done_iff_all_zero.

Theorem C19_done_iff_every_command_exits_zero :
  forall (cmd world : Type) (exec : cmd -> world -> outcome * world) (echo : cmd -> string)
         (clis : list cmd) (w : world) (k : cap) (codes : list Z) (st : status) (w' : world) (k' : cap),
  run exec echo clis w k = (Finished codes st, w', k') ->
  st = DONE <-> forallb ok0 (fst (exec_seq exec clis w)) = true.
Proof. exact done_iff_every_command_exits_zero. Qed.
Print Assumptions C19_done_iff_every_command_exits_zero.

(* the commands run are the prefix of the list through the first non-zero
   status; the return codes are theirs, in order; the rest is not run *)
Theorem C19_executed_is_prefix_through_first_failure :
  forall (cmd world : Type) (exec : cmd -> world -> outcome * world) (echo : cmd -> string)
         (clis : list cmd) (w : world) (k : cap) (codes : list Z) (st : status) (w' : world) (k' : cap),
  run exec echo clis w k = (Finished codes st, w', k') ->
  (exists rest : list cmd, clis = ran exec clis w ++ rest) /\
  w' = snd (exec_seq exec (ran exec clis w) w) /\
  map Some codes
  = map (fun o : outcome => match o with Exited c _ _ => Some c | CannotStart => None end)
        (fst (exec_seq exec (ran exec clis w) w)) /\
  (exists zeros tl : list Z,
     codes = zeros ++ tl /\ Forall (fun c : Z => c = 0%Z) zeros /\
     (tl = [] /\ ran exec clis w = clis /\ st = DONE
      \/ (exists c : Z, tl = [c] /\ c <> 0%Z /\ st = FAILED))).
Proof. exact executed_is_prefix_through_first_failure. Qed.
Print Assumptions C19_executed_is_prefix_through_first_failure.

(* run() is left by an exception exactly when the last command executed could
   not be started (all commands before it exited with zero) *)
Theorem C19_aborted_iff_cannot_start :
  forall (cmd world : Type) (exec : cmd -> world -> outcome * world) (echo : cmd -> string)
         (clis : list cmd) (w : world) (k : cap),
  (exists (w' : world) (k' : cap), run exec echo clis w k = (Aborted, w', k')) <->
  (exists pre : list outcome,
     ran_outcomes exec clis w = pre ++ [CannotStart] /\ forallb ok0 pre = true).
Proof. exact aborted_iff_cannot_start. Qed.
Print Assumptions C19_aborted_iff_cannot_start.

(* in a run of the worker over tasks with distinct names every task gets its
   status: DONE iff its name is usable and all its commands exit with zero,
   FAILED otherwise; a command that cannot be started makes that task FAILED
   (without update), the run goes on *)
Theorem C19_cannot_start_fails_task :
  forall (cmd world : Type) (exec : cmd -> world -> outcome * world) (echo : cmd -> string)
         (root : path) (pre : list (task cmd)) (t : task cmd) (post : list (task cmd))
         (s : wstate world),
  NoDup (map t_name (pre ++ t :: post)) ->
  let s1 := worker exec echo sanitize root pre s in
  let final := worker exec echo sanitize root (pre ++ t :: post) s in
  exists x : entry,
    env_get (w_env final) (t_name t) = Some x /\
    (e_status x = DONE <->
     good_name (t_name t) /\ forallb ok0 (fst (exec_seq exec (t_clis t) (w_world s1))) = true) /\
    (e_status x = FAILED <->
     ~ (good_name (t_name t) /\ forallb ok0 (fst (exec_seq exec (t_clis t) (w_world s1))) = true)) /\
    ((exists p : list outcome, ran_outcomes exec (t_clis t) (w_world s1) = p ++ [CannotStart]) ->
     e_status x = FAILED /\ e_update x = None).
Proof. exact cannot_start_fails_task. Qed.
Print Assumptions C19_cannot_start_fails_task.

(* capture files = chunks written by the executed commands, in order, each
   command preceded on stderr by its echo line; no other file is touched *)
Theorem C19_outputs_in_order :
  forall (cmd world : Type) (exec : cmd -> world -> outcome * world) (echo : cmd -> string)
         (root : path) (name : string) (clis : list cmd) (w : world) (fs : fsys)
         (r : res (update * status)) (w' : world) (fs' : fsys),
  good_name name ->
  do_task exec echo sanitize root name clis w fs = (r, w', fs') ->
  fs_get fs' (stdout_of root name) = Some (out_chunks (ran_outcomes exec clis w)) /\
  fs_get fs' (stderr_of root name)
  = Some (err_chunks echo (ran exec clis w) (ran_outcomes exec clis w)) /\
  (forall p : path, p <> stdout_of root name -> p <> stderr_of root name ->
                    fs_get fs' p = fs_get fs p).
Proof. exact outputs_in_order. Qed.
Print Assumptions C19_outputs_in_order.

(* after the whole run the files of a task still hold that task's output *)
Theorem C19_worker_outputs_isolated :
  forall (cmd world : Type) (exec : cmd -> world -> outcome * world) (echo : cmd -> string)
         (root : path) (pre : list (task cmd)) (t : task cmd) (post : list (task cmd))
         (s : wstate world),
  NoDup (map t_name (pre ++ t :: post)) -> good_name (t_name t) ->
  let s1 := worker exec echo sanitize root pre s in
  let final := worker exec echo sanitize root (pre ++ t :: post) s in
  let os := ran_outcomes exec (t_clis t) (w_world s1) in
  fs_get (w_fs final) (stdout_of root (t_name t)) = Some (out_chunks os) /\
  fs_get (w_fs final) (stderr_of root (t_name t))
  = Some (err_chunks echo (ran exec (t_clis t) (w_world s1)) os).
Proof. exact worker_outputs_isolated. Qed.
Print Assumptions C19_worker_outputs_isolated.

(* accepted names are single path components other than "", "." and "..";
   the directory is a strict child of the root, different names give
   different directories, and no file of one task is a file or the directory
   of another *)
Theorem C19_dir_belongs_to_task :
  forall (root : path) (name n : string),
  sanitize name = Ok n ->
  n = name /\ good_name name /\
  path_join root n = dir_of root name /\
  strict_child root (path_join root n) = true /\
  (forall name' n' : string,
     sanitize name' = Ok n' -> path_join root n' = path_join root n -> name' = name) /\
  (forall name' : string, good_name name' -> name' <> name ->
     forall f g : string,
       root ++ [name'] ++ [f] <> root ++ [name] ++ [g] /\
       root ++ [name'] ++ [f] <> dir_of root name).
Proof. exact dir_belongs_to_task. Qed.
Print Assumptions C19_dir_belongs_to_task.

(* composition with the scheduler model of C01-C04 (any number of workers, any
   interleaving, any dependency graph): when every task of the configuration
   is a RunTask whose do() is [do_task] (in whatever world it starts), every
   complete run gives every task the status of C02's specification; DONE
   exactly when no hard dependency failed, the name is usable and all commands
   exit with zero; a command that cannot be started makes the task FAILED
   (SKIPPED if a hard dependency failed before), and the run completes *)
Theorem C19_cannot_start_fails_task_not_run :
  forall (cmd world : Type) (exec : cmd -> world -> C19.Model.outcome * world) (echo : cmd -> string)
         (root : path) (tasks : nat -> task cmd) (worlds : nat -> world) (fss : nat -> fsys) (c : cfg),
  wf_cfg c ->
  (forall t, t < ntasks c -> oc c t = oc_of (do_result cmd world exec echo root tasks worlds fss t)) ->
  forall st0 clk s, reachable c (fun _ => no_entry) st0 clk s -> mp s = MReturned ->
  forall t, t < ntasks c ->
    est (Sched.Model.env s t) = spec_status c t /\
    (est (Sched.Model.env s t) = Some Sched.Model.DONE <->
       spec_status c t <> Some SKIPPED /\ good_name (t_name (tasks t))
       /\ all_exit_zero cmd world exec tasks worlds t) /\
    (cannot_start cmd world exec tasks worlds t ->
       (est (Sched.Model.env s t) = Some Sched.Model.FAILED \/ est (Sched.Model.env s t) = Some SKIPPED) /\
       (spec_status c t <> Some SKIPPED -> est (Sched.Model.env s t) = Some Sched.Model.FAILED)).
Proof. exact cannot_start_fails_task_not_run. Qed.
Print Assumptions C19_cannot_start_fails_task_not_run.

(* CheckoutTask / BuildTask (code.py): calling run([cli]) step after step and
   returning after the first step whose code is not zero is [run] on the list
   of the steps, so every theorem above about [run] holds of these tasks *)
Theorem C19_code_steps_are_run :
  forall (cmd world : Type) (exec : cmd -> world -> C19.Model.outcome * world) (echo : cmd -> string)
         (steps : list cmd) (w : world) (k : cap),
  run_steps exec echo steps w k = C19.Model.run exec echo steps w k.
Proof. exact run_steps_is_run. Qed.
Print Assumptions C19_code_steps_are_run.

(* their single log file holds, in order, echo line, stdout text and stderr
   text of exactly the commands that were run *)
Theorem C19_code_log_in_order :
  forall (cmd world : Type) (exec : cmd -> world -> C19.Model.outcome * world) (echo : cmd -> string)
         (steps : list cmd) (w : world),
  log_of exec echo steps w
  = log_chunks cmd echo (ran exec steps w) (ran_outcomes exec steps w).
Proof. exact log_in_order. Qed.
Print Assumptions C19_code_log_in_order.

(* C03 — property theorems only.  Each is closed by [exact]; see Sched/ProofsC03.v. *)
From Coq Require Import List.
From VV Require Import Sched.Model Sched.Defs Sched.ProofsC03.
Import ListNotations.

(* every graph incl. cyclic (order c = None), every junk-free initial environment, nworkers >= 1;
   wf_cfg_or_cyclic c := wf_cfg c \/ (order c = None /\ 1 <= nworkers c) *)
Theorem C03_no_deadlock :
  forall c e0 st0 clk s, wf_cfg_or_cyclic c -> junk_free e0 -> reachable c e0 st0 clk s ->
  terminal s = true \/ exists tid, tid <= nworkers c /\ enabled c s tid = true.
Proof. exact no_deadlock. Qed.
Print Assumptions C03_no_deadlock.

Theorem C03_clean_exit :
  forall c e0 st0 clk s, wf_cfg_or_cyclic c -> junk_free e0 -> reachable c e0 st0 clk s -> terminal s = true ->
  queue s = [] /\ (forall w, w < nworkers c -> wp s w = WExited \/ (mp s = MRaised /\ wp s w = WNone))
  /\ (mp s = MRaised <-> order c = None).
Proof. exact clean_exit. Qed.
Print Assumptions C03_clean_exit.

(* every schedule is finite, with an explicit bound:
   sched_bound c := 2 * ntasks c * ntasks c + 17 * ntasks c + 5 * nworkers c + 7 *)
Theorem C03_terminates :
  forall c e0 st0 clk sched s, wf_cfg_or_cyclic c ->
  run c (init c e0 st0 clk) sched = Some s -> length sched <= sched_bound c.
Proof. exact terminates. Qed.
Print Assumptions C03_terminates.

(* progress + termination: from every reachable state some schedule reaches a terminal state
   (so complete runs exist for every configuration) *)
Theorem C03_can_complete :
  forall c e0 st0 clk s, wf_cfg_or_cyclic c -> junk_free e0 -> reachable c e0 st0 clk s ->
  exists sched s', run c s sched = Some s' /\ terminal s' = true.
Proof. exact can_complete. Qed.
Print Assumptions C03_can_complete.

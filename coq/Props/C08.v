(* C08 — property theorems only.  Each is closed by [exact]; see C08/Proofs*.v. *)
From Coq Require Import List ZArith Arith Reals.
From Flocq Require Import Core IEEE754.BinarySingleNaN.
From VV Require Import Lib.Base Lib.B64 C08.Model C08.ProofsFloat C08.ProofsReal C08.Proofs.
Import ListNotations.

(* ---- value: the plain array operation, cell by cell ---- *)
Theorem C08_value_is_array_op :
  forall o d r x k,
  wf d -> wf_rhs r -> same_shape_rhs d r -> binop o d r = Ok x -> (k < prod (shape d))%nat ->
  nth k (value x) fzero
  = cell_val o (nth k (value d) fzero)
               (match r with
                | RNum c => c
                | RArr _ a => nth k a fzero
                | RDs d2 => nth k (value d2) fzero
                end).
Proof. exact binop_value_cells. Qed.
Print Assumptions C08_value_is_array_op.

(* an ndarray of another shape: numpy broadcasting ([bshape], [bcast]); whatever
   is returned went through __init__ and is a well-formed dataset with the left
   operand's bins and name, otherwise the operation raises *)
Theorem C08_broadcast_array_result_is_well_formed :
  forall o d sh a x,
  sh <> shape d -> binop o d (RArr sh a) = Ok x ->
  exists bs, bshape (shape d) sh = Some bs /\ wf x /\ shape x = bs
    /\ value x = zipw (cell_val o) (bcast (shape d) bs (value d)) (bcast sh bs a)
    /\ (error x = error d \/
        error x = zipw (cell_err_dc o) (bcast (shape d) bs (error d)) (bcast sh bs a))
    /\ bins x = bins d /\ name x = name d.
Proof. exact binop_arr_broadcast. Qed.
Print Assumptions C08_broadcast_array_result_is_well_formed.

Theorem C08_cell_value_is_ieee_op :
  forall o v1 v2,
  cell_val o v1 v2 = match o with Add => fadd v1 v2 | Sub => fsub v1 v2
                                | Mul => fmul v1 v2 | Div => fdiv v1 v2 end.
Proof. exact cell_val_ieee. Qed.
Print Assumptions C08_cell_value_is_ieee_op.

(* ---- error between datasets: the expression tree [err_dd] on the four cells ---- *)
Theorem C08_error_cells_between_datasets :
  forall o d d2 x k,
  wf d -> wf d2 -> binop o d (RDs d2) = Ok x -> (k < prod (shape d))%nat ->
  nth k (error x) fzero
  = eval B64A (err_dd o) (mkenv (nth k (value d) fzero) (nth k (error d) fzero)
                                (nth k (value d2) fzero) (nth k (error d2) fzero)).
Proof. exact binop_error_cells_ds. Qed.
Print Assumptions C08_error_cells_between_datasets.

(* ---- over R, the same expression trees are the first-order propagation of
        uncorrelated errors: sqrt((df/dv1 e1)^2 + (df/dv2 e2)^2) ---- *)
Theorem C08_error_is_first_order_propagation :
  forall o v1 e1 v2 e2,
  (o = Div -> v2 <> 0%R) ->
  derivable_pt_lim (fun x => valR o x v2) v1 (d1 o v1 v2) /\
  derivable_pt_lim (fun y => valR o v1 y) v2 (d2 o v1 v2) /\
  errR_dd o v1 e1 v2 e2 = sqrt (Rsqr (d1 o v1 v2 * e1) + Rsqr (d2 o v1 v2 * e2)).
Proof. exact errR_dd_propagation. Qed.
Print Assumptions C08_error_is_first_order_propagation.

Theorem C08_sum_difference_quadratic_sum_of_absolute_errors :
  forall o v1 e1 v2 e2,
  o = Add \/ o = Sub -> errR_dd o v1 e1 v2 e2 = sqrt (Rsqr e1 + Rsqr e2).
Proof. exact errR_add_sub. Qed.
Print Assumptions C08_sum_difference_quadratic_sum_of_absolute_errors.

Theorem C08_product_quotient_quadratic_sum_of_relative_errors :
  forall o v1 e1 v2 e2,
  o = Mul \/ o = Div -> v1 <> 0%R -> v2 <> 0%R ->
  (errR_dd o v1 e1 v2 e2 / Rabs (valR o v1 v2))%R = sqrt (Rsqr (e1 / v1) + Rsqr (e2 / v2)).
Proof. exact errR_mul_div_relative. Qed.
Print Assumptions C08_product_quotient_quadratic_sum_of_relative_errors.

(* a constant: factor -> error scaled by its magnitude, shift -> error unchanged;
   and this is the dataset formula for an operand without error *)
Theorem C08_constant_error_formula_R :
  forall o e1 c,
  errR_dc o e1 c = match o with Add | Sub => e1 | Mul => (e1 * Rabs c)%R | Div => (e1 / Rabs c)%R end
  /\ forall v1, (0 <= e1)%R -> (o = Div -> c <> 0%R) -> errR_dd o v1 e1 c 0 = errR_dc o e1 c.
Proof. exact errR_const_both. Qed.
Print Assumptions C08_constant_error_formula_R.

(* ---- binary64: a constant factor scales the error by its magnitude ---- *)
Theorem C08_const_factor_scales_by_abs :
  forall d c x,
  (binop Mul d (RNum c) = Ok x -> error x = map (fun e => fmul e (fabs c)) (error d)) /\
  (binop Div d (RNum c) = Ok x -> error x = map (fun e => fdiv e (fabs c)) (error d)).
Proof. exact binop_error_const_factor. Qed.
Print Assumptions C08_const_factor_scales_by_abs.

Theorem C08_const_factor_sign_is_irrelevant_for_the_error :
  forall o d c,
  match binop o d (RNum c), binop o d (RNum (fneg c)) with
  | Ok x, Ok y => error x = error y
  | _, _ => False
  end.
Proof. exact binop_const_sign_irrelevant. Qed.
Print Assumptions C08_const_factor_sign_is_irrelevant_for_the_error.

Theorem C08_const_factor_error_is_rounded_product :
  forall e c : b64,
  Rlt_bool (Rabs (round radix2 (SpecFloat.fexp 53 1024) (round_mode mode_NE)
                        (B2R e * Rabs (B2R c)))) (bpow radix2 1024) = true ->
  B2R (cell_err_dc Mul e c)
  = round radix2 (SpecFloat.fexp 53 1024) (round_mode mode_NE) (B2R e * Rabs (B2R c)).
Proof. exact cell_err_mul_const_R. Qed.
Print Assumptions C08_const_factor_error_is_rounded_product.

Theorem C08_const_divisor_error_is_rounded_quotient :
  forall e c : b64,
  B2R c <> 0%R ->
  Rlt_bool (Rabs (round radix2 (SpecFloat.fexp 53 1024) (round_mode mode_NE)
                        (B2R e / Rabs (B2R c)))) (bpow radix2 1024) = true ->
  B2R (cell_err_dc Div e c)
  = round radix2 (SpecFloat.fexp 53 1024) (round_mode mode_NE) (B2R e / Rabs (B2R c)).
Proof. exact cell_err_div_const_R. Qed.
Print Assumptions C08_const_divisor_error_is_rounded_quotient.

Theorem C08_shift_leaves_error :
  forall o d c x, o = Add \/ o = Sub -> binop o d (RNum c) = Ok x -> error x = error d.
Proof. exact binop_error_const_shift. Qed.
Print Assumptions C08_shift_leaves_error.

(* ---- errors are never negative ---- *)
(* between datasets: sign bit clear (or NaN) whatever the operands are *)
Theorem C08_error_nonneg_between_datasets :
  forall o d d2 x, binop o d (RDs d2) = Ok x -> Forall (fun e => Bsign e = false) (error x).
Proof. exact binop_error_sign_ds. Qed.
Print Assumptions C08_error_nonneg_between_datasets.

(* along every finite chain of operations, copies, masks and squeezes, with any
   right operands: no error below zero if the first dataset has none *)
Theorem C08_error_not_negative_along_chains :
  forall ops d x,
  Forall not_neg (error d) -> run_chain d ops = Ok x -> Forall not_neg (error x).
Proof. exact chain_error_not_neg. Qed.
Print Assumptions C08_error_not_negative_along_chains.

(* ---- well-formedness along every finite chain ---- *)
Theorem C08_chain_well_formed :
  forall ops d x, wf d -> Forall wf_op ops -> run_chain d ops = Ok x -> wf x.
Proof. exact chain_wf. Qed.
Print Assumptions C08_chain_well_formed.

(* ---- the left operand's shape, bins and name are kept ---- *)
Theorem C08_left_bins_kept :
  forall o d r x,
  binop o d r = Ok x ->
  bins x = bins d /\ name x = name d /\ (same_shape_rhs d r -> shape x = shape d).
Proof. exact binop_keeps. Qed.
Print Assumptions C08_left_bins_kept.

Theorem C08_chain_keeps_left_bins :
  forall ops d x,
  run_chain d ops = Ok x ->
  name x = name d /\ sublist (bins x) (bins d) /\
  (forallb (fun o => negb (is_squeeze o)) ops = true -> bins x = bins d) /\
  (forallb (fun o => negb (may_reshape o)) ops = true -> shape x = shape d).
Proof. exact chain_keeps. Qed.
Print Assumptions C08_chain_keeps_left_bins.

Theorem C08_mask_keeps_everything_else :
  forall d m x,
  run_op d (OMask m) = Ok x ->
  shape x = shape d /\ value x = value d /\ error x = error d /\ bins x = bins d
  /\ name x = name d /\ what x = what d.
Proof. exact mask_keeps. Qed.
Print Assumptions C08_mask_keeps_everything_else.

(* ---- copy: same content, every component fresh (model provenance, validated
        against numpy.shares_memory on every run) ---- *)
Theorem C08_copy_fresh :
  forall d, run_op d OCopy = Ok d /\ prov_of OCopy = mk_prov Fresh Fresh Fresh.
Proof. exact copy_spec. Qed.
Print Assumptions C08_copy_fresh.

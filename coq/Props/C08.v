(* C08 — property theorems only.  Each is closed by [exact]; see C08/Proofs.v. *)
From Coq Require Import List ZArith Arith.
From VV Require Import Lib.Base Lib.B64 C08.Model C08.Proofs.
Import ListNotations.

Theorem C08_copy_same : forall d, run_op d OCopy = Ok d.
Proof. exact copy_same. Qed.
Print Assumptions C08_copy_same.

(* C12 — property theorems only.  Each is closed by [exact]; see C12/Proofs*.v. *)
From Coq Require Import List ZArith Arith Bool.
From VV Require Import Lib.Base C12.Model C12.Rst C12.Check C12.Proofs.
Import ListNotations.

Theorem C12_mark_failed : forall v, has_mark (render_table RFailed v) = negb (verdict RFailed).
Proof. exact mark_failed. Qed.
Print Assumptions C12_mark_failed.

(* C12 — property theorems only.  Each is closed by [exact]; see C12/Proofs*.v. *)
From Coq Require Import List ZArith NArith Arith Bool Sorted.
From VV Require Import Lib.Base Lib.Pyslice C09.Model C12.Model C12.Rst C12.Check
  C12.Proofs C12.ProofsRows C12.ProofsTab C12.ProofsRst.
Import ListNotations.

(* every kind of result, every non-silent verbosity: the rendering (TextTemplates and
   TableTemplates of table_repr) carries a KO text or a true highlight iff the result is false *)
Theorem C12_mark_iff_false :
  forall r v, result_wf r -> v <> Silent -> has_mark (render_table r v) = negb (verdict r).
Proof. exact mark_iff_false. Qed.
Print Assumptions C12_mark_iff_false.

(* FullTable / Full representers render every kind but the two corrections as the Table one *)
Theorem C12_render_full_other :
  forall rep r v, (forall b, r <> RBonf b) -> (forall b, r <> RHolm b) ->
  render rep r v = render_table r v.
Proof. exact render_full_other. Qed.
Print Assumptions C12_render_full_other.

(* ... and a correction as itself followed by its first test: marked iff the correction is false
   or the first test, rendered at the level the code chooses, is marked *)
Theorem C12_mark_full_correction :
  forall rep r b v, rep <> RepTable -> correction r = Some b -> result_wf r -> v <> Silent ->
  has_mark (render rep r v)
  = negb (b_verdict b)
    || has_mark (render_table (RStudent (b_first b)) (first_verb (b_verdict b) v)).
Proof. exact mark_full_correction. Qed.
Print Assumptions C12_mark_full_correction.

(* detailed tables (equal, approx-equal, Student): row i is bin i with its labels, reference,
   values, errors, t and oracle; its highlighted cells are the failed oracles *)
Theorem C12_full_table_rows :
  forall r i, dres_shape r -> i < d_nb r ->
  row_at (full_table r) i = bin_row r i /\ existsb snd (bin_row r i) = bin_fails r i.
Proof. intros r i S H. split; [now apply full_table_rows | apply bin_row_highlighted]. Qed.
Print Assumptions C12_full_table_rows.

(* intermediate Student table: its rows are exactly the failing bins, in order, each with its own cells *)
Theorem C12_highlighted_rows_are_failing_bins :
  forall r, dres_wf r ->
  table_wf (length (failing_bins r)) (interm_table r)
  /\ StronglySorted lt (failing_bins r)
  /\ (forall i, In i (failing_bins r) <-> i < d_nb r /\ bin_fails r i = true)
  /\ (forall k, k < length (failing_bins r) ->
        row_at (interm_table r) k = bin_row r (nth k (failing_bins r) 0)).
Proof.
  intros r W. split; [now apply interm_table_wf|].
  destruct (failing_bins_spec r W) as [S I]. split; [exact S|]. split; [exact I|].
  intros k Hk. now apply interm_table_rows.
Qed.
Print Assumptions C12_highlighted_rows_are_failing_bins.

(* slicing: each column of (element, flag) pairs of the result is the slice of that column *)
Theorem C12_getitem_alignment :
  forall t idx t', aligned t -> tt_getitem t idx = Ok t' ->
  aligned t'
  /\ paired t' = map (slice_nd (t_shape t) (norm_idx (t_shape t) idx)) (paired t)
  /\ t_headers t' = t_headers t.
Proof. exact getitem_alignment. Qed.
Print Assumptions C12_getitem_alignment.

(* joining any number of tables appends the (element, flag) pairs column by column *)
Theorem C12_join_alignment :
  forall others t t', aligned t -> Forall aligned others -> tt_join t others = Ok t' ->
  aligned t'
  /\ paired t' = fold_left (fun p o => map2 (@app (cell * bool)) p (paired o)) others (paired t)
  /\ t_headers t' = t_headers t.
Proof. exact join_alignment. Qed.
Print Assumptions C12_join_alignment.

(* any sequence of slicings and joinings keeps columns and highlights aligned *)
Theorem C12_slice_join_alignment :
  forall ops t t', aligned t -> Forall top_aligned ops -> run_tops t ops = Ok t' ->
  aligned t' /\ t_headers t' = t_headers t.
Proof. exact slice_join_alignment. Qed.
Print Assumptions C12_slice_join_alignment.

(* the table written by tabularize reads back as the stripped headers and cells with their flags *)
Theorem C12_table_roundtrip :
  forall indent headers rows,
  headers <> [] -> Forall header_ok headers -> Forall (row_ok (length headers)) rows ->
  parse_simple_table indent (tabularize headers (map (map printed) rows) indent)
  = Some (map strip headers, map (map readback) rows).
Proof. exact table_roundtrip. Qed.
Print Assumptions C12_table_roundtrip.

(* C02 — property theorems only.  Each is closed by [exact]; see Sched/ProofsC02.v. *)
From Coq Require Import List.
From VV Require Import Sched.Model Sched.Defs Sched.ProofsC02.
Import ListNotations.

(* the specification of the final statuses is the expected rule: SKIPPED iff some hard
   dependency is (by the same rule) FAILED or SKIPPED, otherwise DONE/FAILED by the outcome *)
Theorem C02_spec_rule :
  forall c t, wf_cfg c -> t < ntasks c ->
  (spec_status c t = Some SKIPPED <->
     exists d, In d (hdeps c t)
               /\ (spec_status c d = Some FAILED \/ spec_status c d = Some SKIPPED))
  /\ (spec_status c t <> Some SKIPPED ->
      spec_status c t = Some (if ok (oc c t) then DONE else FAILED)).
Proof. exact spec_rule. Qed.
Print Assumptions C02_spec_rule.

Theorem C02_at_most_once :
  forall c e0 st0 clk s t, wf_cfg c -> junk_free e0 -> reachable c e0 st0 clk s -> execs st0 s t <= 1.
Proof. exact at_most_once. Qed.
Print Assumptions C02_at_most_once.

(* from the empty environment *)
Theorem C02_final_statuses :
  forall c st0 clk s, wf_cfg c -> reachable c (fun _ => no_entry) st0 clk s -> mp s = MReturned ->
  forall t, t < ntasks c ->
    est (env s t) = spec_status c t
    /\ execs st0 s t = (match spec_status c t with Some SKIPPED => 0 | _ => 1 end).
Proof. exact final_statuses. Qed.
Print Assumptions C02_final_statuses.

(* corollary: any two complete runs, any worker counts *)
Theorem C02_schedule_independent :
  forall c c' st0 clk s st0' clk' s', wf_cfg c -> wf_cfg c' ->
  ntasks c' = ntasks c -> deps c' = deps c -> hdeps c' = hdeps c -> order c' = order c -> oc c' = oc c ->
  reachable c (fun _ => no_entry) st0 clk s -> reachable c' (fun _ => no_entry) st0' clk' s' ->
  mp s = MReturned -> mp s' = MReturned -> forall t, t < ntasks c -> est (env s t) = est (env s' t).
Proof. exact schedule_independent. Qed.
Print Assumptions C02_schedule_independent.

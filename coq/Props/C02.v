(* C02 — property theorems only.  Each is closed by [exact]; see Sched/ProofsC02.v. *)
From Coq Require Import List.
From VV Require Import Sched.Model Sched.Defs Sched.ProofsC02 Sched.Result Sched.ResultProofs.
Import ListNotations.

(* the specification of the final statuses is the expected rule: SKIPPED iff some hard
   dependency is (by the same rule) FAILED or SKIPPED, otherwise DONE/FAILED by the outcome *)
Theorem C02_spec_rule :
  forall c t, wf_cfg c -> t < ntasks c ->
  (spec_status c t = Some SKIPPED <->
     exists d, In d (hdeps c t)
               /\ (spec_status c d = Some FAILED \/ spec_status c d = Some SKIPPED))
  /\ (spec_status c t <> Some SKIPPED ->
      spec_status c t = Some (if ok (oc c t) then DONE else FAILED)).
Proof. exact spec_rule. Qed.
Print Assumptions C02_spec_rule.

Theorem C02_at_most_once :
  forall c e0 st0 clk s t, wf_cfg c -> junk_free e0 -> reachable c e0 st0 clk s -> execs st0 s t <= 1.
Proof. exact at_most_once. Qed.
Print Assumptions C02_at_most_once.

(* from the empty environment *)
Theorem C02_final_statuses :
  forall c st0 clk s, wf_cfg c -> reachable c (fun _ => no_entry) st0 clk s -> mp s = MReturned ->
  forall t, t < ntasks c ->
    est (env s t) = spec_status c t
    /\ execs st0 s t = (match spec_status c t with Some SKIPPED => 0 | _ => 1 end).
Proof. exact final_statuses. Qed.
Print Assumptions C02_final_statuses.

(* corollary: any two complete runs, any worker counts *)
Theorem C02_schedule_independent :
  forall c c' st0 clk s st0' clk' s', wf_cfg c -> wf_cfg c' ->
  ntasks c' = ntasks c -> deps c' = deps c -> hdeps c' = hdeps c -> order c' = order c -> oc c' = oc c ->
  reachable c (fun _ => no_entry) st0 clk s -> reachable c' (fun _ => no_entry) st0' clk' s' ->
  mp s = MReturned -> mp s' = MReturned -> forall t, t < ntasks c -> est (env s t) = est (env s' t).
Proof. exact schedule_independent. Qed.
Print Assumptions C02_schedule_independent.

(* ---- what the worker makes of the value a task returns (Sched/Result.v: transcription of
   check_result, of the handler around it and of publish) ---- *)

(* a task is recorded DONE exactly when it returned a well-formed pair whose status is DONE and
   whose update (None, or a mapping whose entry for the task itself is absent or mutable) could be
   merged; a raise, a value that is not a pair, a non-mapping update, a non-status are FAILED *)
Theorem C02_result_rule :
  forall r m,
  ok (worker_outcome r m) = true <->
  exists u s, r = Pair u s /\ upd_accepted u = true /\ to_status s = Some DONE
              /\ (u = UNone \/ m = true).
Proof. exact outcome_ok_iff. Qed.
Print Assumptions C02_result_rule.

Theorem C02_malformed_fails :
  forall r m, well_formed r = false -> worker_outcome r m = mkO false false.
Proof. exact malformed_fails. Qed.
Print Assumptions C02_malformed_fails.

Theorem C02_explicit_failed :
  forall u s m, to_status s = Some FAILED -> ok (worker_outcome (Pair u s) m) = false.
Proof. exact explicit_failed. Qed.
Print Assumptions C02_explicit_failed.

(* whatever is returned, the published status is final *)
Theorem C02_published_final :
  forall r m, published r m = DONE \/ published r m = FAILED.
Proof. exact published_final. Qed.
Print Assumptions C02_published_final.

(* an update is claimed only when it was a mapping of a well-formed result and was merged *)
Theorem C02_update_only_if_merged :
  forall r m, has_upd (worker_outcome r m) = true ->
  m = true /\ well_formed r = true /\ exists o s, r = Pair (UMap o) s.
Proof. exact has_upd_only_if_merged. Qed.
Print Assumptions C02_update_only_if_merged.

Theorem C02_accepted_statuses :
  forall s,
  (exists st, to_status s = Some st /\ (st = DONE \/ st = FAILED)) <->
  s = StMember DONE \/ s = StMember FAILED \/ s = StCode 3 \/ s = StCode 4.
Proof. exact accepted_statuses. Qed.
Print Assumptions C02_accepted_statuses.

(* the hypotheses of the C09 theorems are satisfiable by non-trivial data *)
From Coq Require Import List ZArith Arith Lia.
From VV Require Import Lib.Base Lib.Pyslice C09.Model C09.Proofs.
Import ListNotations.

Definition d23 : ds Z Z :=
  mk_ds [2; 3] [0; 1; 2; 10; 11; 12]%Z [[0; 1; 2]%Z; [0; 1; 2]%Z].   (* edges x centres *)

Example d23_wf : wf d23.
Proof.
  split; [reflexivity|]. right. split; [reflexivity|].
  constructor; [right; reflexivity|]. constructor; [left; reflexivity|]. constructor.
Qed.

Example d23_slice :
  getitem d23 [(Some (-1)%Z, None); (Some 1%Z, Some 5%Z)]
  = Ok (mk_ds [1; 2] [11; 12]%Z [[1; 2]%Z; [1; 2]%Z]).
Proof. vm_compute. reflexivity. Qed.

Example d23_squeeze :
  squeeze (mk_ds [1; 2] [11; 12]%Z [[1; 2]%Z; [1; 2]%Z]) = mk_ds [2] [11; 12]%Z [[1; 2]%Z].
Proof. reflexivity. Qed.

From Coq Require Import List ZArith Bool Arith Lia.
From VV Require Import Lib.Base Lib.Pyslice C09.Model.
Import ListNotations.

Section Proofs.
Context {A B : Type}.
Implicit Types (l data : list A).

(* ---------- chunks ---------- *)
Lemma chunks_length k n l : length (chunks k n l) = n.
Proof. revert l; induction n as [|n IH]; intros l; cbn; [reflexivity|]. now rewrite IH. Qed.

Lemma chunks_all_len k n l :
  length l = n * k -> Forall (fun c => length c = k) (chunks k n l).
Proof.
  revert l; induction n as [|n IH]; intros l Hl; cbn; constructor.
  - rewrite firstn_length. lia.
  - apply IH. rewrite skipn_length. lia.
Qed.

Lemma chunks_nth k n l i :
  i < n -> nth i (chunks k n l) [] = firstn k (skipn (i * k) l).
Proof.
  revert l i; induction n as [|n IH]; intros l i Hi; [lia|].
  destruct i as [|i]; cbn [chunks nth]; [reflexivity|].
  rewrite IH by lia. rewrite skipn_skipn. reflexivity.
Qed.

(* ---------- flat_map over blocks of uniform length ---------- *)
Lemma flat_map_length_uniform {X} (f : X -> list A) (xs : list X) m :
  Forall (fun x => length (f x) = m) xs -> length (flat_map f xs) = length xs * m.
Proof.
  induction 1 as [|x xs Hx _ IH]; cbn; [reflexivity|]. rewrite app_length, IH, Hx. lia.
Qed.

Lemma flat_map_nth_uniform {X} (f : X -> list A) (xs : list X) m i j dx d :
  Forall (fun x => length (f x) = m) xs -> i < length xs -> j < m ->
  nth (i * m + j) (flat_map f xs) d = nth j (f (nth i xs dx)) d.
Proof.
  intros HF; revert i; induction HF as [|x xs Hx _ IH]; intros i Hi Hj; cbn in Hi; [lia|].
  cbn [flat_map]. destruct i as [|i].
  - cbn [nth Nat.mul Nat.add]. rewrite app_nth1 by lia. reflexivity.
  - rewrite app_nth2 by (rewrite Hx; cbn; lia). rewrite Hx.
    replace (S i * m + j - m) with (i * m + j) by (cbn; lia).
    cbn [nth]. apply IH; lia.
Qed.

(* ---------- slice_nd ---------- *)
Definition ext (se : nat * nat) : nat := snd se - fst se.

Definition idx_ok (sh : list nat) (idx : list (nat * nat)) : Prop :=
  Forall2 (fun n se => fst se <= n /\ snd se <= n) sh idx.

Lemma sel_chunks_all_len k n l s e :
  length l = n * k -> Forall (fun c => length c = k) (sel (chunks k n l) s e).
Proof.
  intros Hl. pose proof (chunks_all_len k n l Hl) as HF.
  rewrite Forall_forall in *. intros c Hc. apply HF.
  eapply In_sel, Hc.
Qed.

Lemma slice_nd_length sh idx data :
  length data = prod sh -> idx_ok sh idx ->
  length (slice_nd sh idx data) = prod (map ext idx).
Proof.
  intros Hl Hok; revert data Hl; induction Hok as [|n [s e] sh idx [Hs He] Hok IH]; intros data Hl.
  - cbn. cbn in Hl. exact Hl.
  - cbn [slice_nd map prod fold_right]. fold (prod (map ext idx)).
    cbn [prod fold_right] in Hl. fold (prod sh) in Hl.
    rewrite (flat_map_length_uniform _ _ (prod (map ext idx))).
    + rewrite sel_length, chunks_length. unfold ext; cbn [fst snd] in *. f_equal. lia.
    + pose proof (sel_chunks_all_len (prod sh) n data s e Hl) as HF.
      rewrite Forall_forall in *. intros c Hc. apply IH. now apply HF.
Qed.

Fixpoint offset (sh : list nat) (mi : list nat) : nat :=
  match sh, mi with
  | _ :: sh', i :: mi' => i * prod sh' + offset sh' mi'
  | _, _ => 0
  end.

Lemma offset_lt sh mi : Forall2 (fun i n => i < n) mi sh -> offset sh mi < prod sh.
Proof.
  induction 1 as [|i n mi sh Hi _ IH]; cbn; [lia|]. fold (prod sh). nia.
Qed.

Lemma firstn_skipn_nth l k a j d :
  j < k -> nth j (firstn k (skipn a l)) d = nth (a + j) l d.
Proof. intros Hj. change (firstn k (skipn a l)) with (firstn k (skipn a l)).
  replace k with ((a + k) - a) by lia. apply (sel_nth l a (a + k) j d). lia. Qed.

(* The cell at multi-index mi of the result is the cell at multi-index
   (start + mi) of the original array: "the values that the same slice selects
   on the underlying arrays". *)
Theorem slice_nd_nth sh idx data mi d :
  length data = prod sh -> idx_ok sh idx ->
  Forall2 (fun i se => i < ext se) mi idx ->
  nth (offset (map ext idx) mi) (slice_nd sh idx data) d
  = nth (offset sh (map (fun p => fst (snd p) + fst p) (combine mi idx))) data d.
Proof.
  intros Hl Hok; revert data mi Hl.
  induction Hok as [|n [s e] sh idx [Hs He] Hok IH]; intros data mi Hl Hmi.
  - inversion Hmi; subst. reflexivity.
  - inversion Hmi as [|i se mi' idx' Hi Hmi' E1 E2]; subst. clear Hmi.
    cbn [slice_nd map offset combine fst snd]. fold (prod (map ext idx)).
    cbn [prod fold_right] in Hl. fold (prod sh) in Hl.
    unfold ext in Hi; cbn [fst snd] in *.
    pose proof (sel_chunks_all_len (prod sh) n data s e Hl) as HF.
    assert (HF' : Forall (fun c => length (slice_nd sh idx c) = prod (map ext idx))
                         (sel (chunks (prod sh) n data) s e)).
    { rewrite Forall_forall in *. intros c Hc. apply slice_nd_length; auto. }
    assert (Hoff : offset (map ext idx) mi' < prod (map ext idx)).
    { apply offset_lt. clear -Hmi'. induction Hmi'; cbn; constructor; auto. }
    rewrite (flat_map_nth_uniform _ _ _ i _ [] d HF'); [| |exact Hoff].
    2:{ rewrite sel_length, chunks_length. lia. }
    rewrite sel_nth by lia. rewrite chunks_nth by lia.
    rewrite IH; [| |exact Hmi'].
    2:{ rewrite firstn_length, skipn_length. nia. }
    rewrite firstn_skipn_nth.
    + f_equal.
    + apply offset_lt.
      clear -Hmi' Hok. revert mi' Hmi'. induction Hok as [|n0 [s0 e0] sh0 idx0 [H1 H2] _ IHk];
        intros mi' Hmi'; inversion Hmi'; subst; cbn; constructor.
      * unfold ext in *; cbn [fst snd] in *. lia.
      * apply IHk. assumption.
Qed.

(* ---------- bins ---------- *)
Implicit Types (b : list B).

(* centres: the k retained centres are those of cells s .. e-1 *)
Lemma bins_slice_centres b n s e :
  length b = n -> s <= n -> e <= n ->
  length (bins_slice b n (s, e)) = e - s /\
  forall j d, j < e - s -> nth j (bins_slice b n (s, e)) d = nth (s + j) b d.
Proof.
  intros Hb Hs He. unfold bins_slice. rewrite Hb, Nat.eqb_refl. split.
  - rewrite sel_length. lia.
  - intros j d Hj. now apply sel_nth.
Qed.

(* edges: for a non-empty selection the (e-s)+1 retained edges are the edges
   s .. e of the original, i.e. cell s+j is still delimited by entries j, j+1 *)
Lemma bins_slice_edges b n s e :
  length b = S n -> s <= n -> e <= n ->
  length (bins_slice b n (s, e)) = (e - s) + 1 /\
  forall j d, j <= e - s -> nth j (bins_slice b n (s, e)) d = nth (s + j) b d.
Proof.
  intros Hb Hs He. unfold bins_slice. rewrite Hb.
  destruct (Nat.eqb_spec (S n) n) as [E|_]; [lia|]. split.
  - rewrite sel_length. lia.
  - intros j d Hj. apply sel_nth. lia.
Qed.

Lemma idx_ok_norm sh (idx : list (option Z * option Z)) :
  length idx = length sh -> idx_ok sh (norm_idx sh idx).
Proof.
  revert idx; induction sh as [|n sh IH]; intros [|[a z] idx] Hl; cbn in Hl; try lia; cbn.
  - constructor.
  - constructor; [|apply IH; lia].
    cbn [fst snd]. destruct (slice_indices a z n) as [s e] eqn:E.
    apply slice_indices_bounds in E. cbn. lia.
Qed.

Lemma norm_idx_length sh (idx : list (option Z * option Z)) :
  length idx = length sh -> length (norm_idx sh idx) = length sh.
Proof. intros H. unfold norm_idx. rewrite map_length, combine_length. lia. Qed.

Lemma map3_bins_ok (bs : list (list B)) sh ni :
  idx_ok sh ni ->
  Forall2 (fun n b => length b = n \/ length b = S n) sh bs ->
  Forall2 (fun n b => length b = n \/ length b = S n) (map ext ni) (map3 bins_slice bs sh ni).
Proof.
  intros Hok; revert bs; induction Hok as [|n [s e] sh ni [Hs He] _ IH]; intros bs HB;
    inversion HB; subst; cbn [map map3]; constructor.
  - cbn [fst snd] in *. unfold ext; cbn [fst snd].
    match goal with H : _ \/ _ |- _ => destruct H as [Hc|Hc] end.
    + left. apply (bins_slice_centres _ n s e Hc Hs He).
    + right. destruct (bins_slice_edges _ n s e Hc Hs He) as [E _]. rewrite E. lia.
  - apply IH. assumption.
Qed.

(* Slicing a well-formed dataset gives a well-formed dataset. *)
Theorem getitem_wf (d : ds A B) idx r :
  wf d -> getitem d idx = Ok r -> wf r.
Proof.
  intros [Hc Hb]. unfold getitem.
  destruct (Nat.eqb_spec (length idx) (length (shape d))) as [El|]; cbn [negb]; [|discriminate].
  intros E; inversion E; subst r; clear E. split; cbn [shape cells bins].
  - rewrite slice_nd_length; auto using idx_ok_norm.
  - destruct Hb as [->|[Hlen HF]].
    + left. destruct (shape d), (norm_idx _ _); reflexivity.
    + right. pose proof (map3_bins_ok _ _ _ (idx_ok_norm _ _ El) HF) as H2. split; [|exact H2].
      apply Forall2_length in H2. rewrite <- H2. reflexivity.
Qed.


(* ---------- getitem-level statements ---------- *)
Definition starts (ni : list (nat * nat)) (mi : list nat) : list nat :=
  map (fun p => fst (snd p) + fst p) (combine mi ni).

Theorem getitem_cells (d : ds A B) idx r mi dflt :
  wf d -> getitem d idx = Ok r ->
  Forall2 (fun i n => i < n) mi (shape r) ->
  nth (offset (shape r) mi) (cells r) dflt
  = nth (offset (shape d) (starts (norm_idx (shape d) idx) mi)) (cells d) dflt.
Proof.
  intros [Hc _]. unfold getitem.
  destruct (Nat.eqb_spec (length idx) (length (shape d))) as [El|]; cbn [negb]; [|discriminate].
  intros E; inversion E; subst r; clear E. cbn [shape cells]. intros Hmi.
  apply slice_nd_nth; auto using idx_ok_norm.
  clear -Hmi. revert Hmi. generalize (norm_idx (shape d) idx) as ni.
  intros ni; revert mi; induction ni as [|se ni IH]; intros mi H; inversion H; subst; constructor; auto.
Qed.

(* bins of dimension k of the result, for a dataset with bins *)
Theorem getitem_bins (d : ds A B) idx r k n b s e :
  wf d -> getitem d idx = Ok r ->
  nth_error (shape d) k = Some n -> nth_error (bins d) k = Some b ->
  nth_error (norm_idx (shape d) idx) k = Some (s, e) ->
  exists b', nth_error (bins r) k = Some b' /\
    ((length b = n /\ length b' = e - s /\
      forall j dflt, j < e - s -> nth j b' dflt = nth (s + j) b dflt)
     \/
     (length b = S n /\ length b' = (e - s) + 1 /\
      forall j dflt, j <= e - s -> nth j b' dflt = nth (s + j) b dflt)).
Proof.
  intros [_ Hb]. unfold getitem.
  destruct (Nat.eqb_spec (length idx) (length (shape d))) as [El|]; cbn [negb]; [|discriminate].
  intros E; inversion E; subst r; clear E. cbn [bins].
  pose proof (idx_ok_norm _ _ El) as Hok. revert Hok.
  destruct Hb as [Hnil|[_ HF]]; [rewrite Hnil; destruct k; discriminate|].
  generalize (norm_idx (shape d) idx) as ni. revert HF. generalize (bins d) as bs.
  generalize (shape d) as sh. intros sh bs HF. revert k.
  induction HF as [|n0 b0 sh bs Hb0 HF IH]; intros k ni Hok Hn Hbk Hse.
  - destruct k; discriminate.
  - inversion Hok as [|? [s0 e0] ? ni' [Hs He] Hok']; subst.
    destruct k as [|k]; cbn in Hn, Hbk, Hse.
    + inversion Hn; inversion Hbk; inversion Hse; subst. cbn [fst snd] in *.
      exists (bins_slice b n (s, e)). split; [reflexivity|].
      destruct Hb0 as [Hc|Hc]; [left|right]; (split; [exact Hc|]).
      * apply bins_slice_centres; auto.
      * apply bins_slice_edges; auto.
    + cbn [map3 nth_error]. eapply IH; eauto.
Qed.

(* ---------- squeeze ---------- *)
Lemma prod_filter_unit sh :
  prod (filter (fun n => negb (Nat.eqb n 1)) sh) = prod sh.
Proof.
  induction sh as [|n sh IH]; [reflexivity|]. cbn [filter].
  destruct (Nat.eqb_spec n 1) as [->|]; cbn [negb]; unfold prod in *; cbn [fold_right]; rewrite ?IH; lia.
Qed.

Lemma drop_unit_ok sh (bs : list (list B)) :
  Forall2 (fun n b => length b = n \/ length b = S n) sh bs ->
  Forall2 (fun n b => length b = n \/ length b = S n)
          (filter (fun n => negb (Nat.eqb n 1)) sh) (drop_unit sh bs).
Proof.
  induction 1 as [|n b sh bs Hb _ IH]; cbn; [constructor|].
  destruct (Nat.eqb n 1); cbn; [exact IH|constructor; assumption].
Qed.

Theorem squeeze_wf (d : ds A B) : wf d -> wf (squeeze d).
Proof.
  intros [Hc Hb]. split; cbn [squeeze shape cells bins].
  - now rewrite prod_filter_unit.
  - destruct Hb as [->|[Hlen HF]].
    + left. destruct (shape d) as [|n ?]; [reflexivity|]. cbn. destruct (Nat.eqb n 1); reflexivity.
    + right. pose proof (drop_unit_ok _ _ HF) as H2. split; [|exact H2].
      apply Forall2_length in H2. now rewrite H2.
Qed.

(* squeeze removes exactly the unit dimensions with their bins:
   the retained (dimension, bins) pairs are the pairs whose dimension is <> 1,
   in order; the cells are untouched. *)
Theorem squeeze_spec (d : ds A B) :
  length (bins d) = length (shape d) ->
  combine (shape (squeeze d)) (bins (squeeze d))
  = filter (fun p => negb (Nat.eqb (fst p) 1)) (combine (shape d) (bins d))
  /\ cells (squeeze d) = cells d.
Proof.
  intros Hl. split; [|reflexivity]. cbn [squeeze shape bins].
  revert Hl. generalize (bins d) as bs. induction (shape d) as [|n sh IH]; intros [|b bs] Hl;
    cbn in Hl; try lia; [reflexivity|].
  cbn. destruct (Nat.eqb n 1); cbn; [|f_equal]; apply IH; lia.
Qed.

End Proofs.

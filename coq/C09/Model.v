(* C09: Dataset.__getitem__ (unit-step slices) and Dataset.squeeze
   model of valjean/eponine/dataset.py: _get_bins_slice, _get_bins_items,
   __getitem__, squeeze.  Arrays are (shape, flat data in C order). *)
From Coq Require Import List ZArith Bool Arith Lia.
From VV Require Import Lib.Base Lib.Pyslice.
Import ListNotations.

Section Model.
Context {A B : Type}.        (* A: cell content (value, error); B: bin bounds *)

Record ds := mk_ds {
  shape : list nat;
  cells : list A;            (* C order, length = product of shape *)
  bins  : list (list B)      (* [] (no bins) or one list per dimension *)
}.

Definition prod (l : list nat) : nat := fold_right Nat.mul 1%nat l.

(* n chunks of size k *)
Fixpoint chunks (k n : nat) (l : list A) : list (list A) :=
  match n with
  | O => []
  | S n' => firstn k l :: chunks k n' (skipn k l)
  end.

(* numpy basic slicing with one (start, stop) per dimension, C order *)
Fixpoint slice_nd (sh : list nat) (idx : list (nat * nat)) (data : list A) : list A :=
  match sh, idx with
  | d :: sh', (s, e) :: idx' =>
      flat_map (slice_nd sh' idx') (sel (chunks (prod sh') d data) s e)
  | _, _ => data
  end.

(* _get_bins_slice / _get_bins_items for one dimension of length n *)
Definition bins_slice (b : list B) (n : nat) (se : nat * nat) : list B :=
  let '(s, e) := se in
  if Nat.eqb (length b) n then sel b s e                 (* centres: same slice *)
  else sel b s (Nat.max s e + 1).                         (* edges *)

Fixpoint map3 {X Y Z W} (f : X -> Y -> Z -> W) (l1 : list X) (l2 : list Y) (l3 : list Z) : list W :=
  match l1, l2, l3 with
  | a :: r1, b :: r2, c :: r3 => f a b c :: map3 f r1 r2 r3
  | _, _, _ => []
  end.

Definition norm_idx (sh : list nat) (idx : list (option Z * option Z)) : list (nat * nat) :=
  map (fun p => slice_indices (fst (snd p)) (snd (snd p)) (fst p)) (combine sh idx).

(* exception classes: 0 = TypeError (scalar), 1 = ValueError (rank mismatch) *)
Definition getitem (d : ds) (idx : list (option Z * option Z)) : res ds :=
  if negb (Nat.eqb (length idx) (length (shape d))) then Raise 1%nat
  else
    let ni := norm_idx (shape d) idx in
    Ok {| shape := map (fun se => (snd se - fst se)%nat) ni;
          cells := slice_nd (shape d) ni (cells d);
          bins := map3 bins_slice (bins d) (shape d) ni |}.

(* squeeze: drop dimensions of length one together with their bins *)
Fixpoint drop_unit {X} (sh : list nat) (l : list X) : list X :=
  match sh, l with
  | d :: sh', x :: l' => if Nat.eqb d 1 then drop_unit sh' l' else x :: drop_unit sh' l'
  | _, _ => []
  end.

Definition squeeze (d : ds) : ds :=
  {| shape := filter (fun n => negb (Nat.eqb n 1)) (shape d);
     cells := cells d;
     bins := drop_unit (shape d) (bins d) |}.

(* well-formedness of a dataset *)
Definition bins_ok (sh : list nat) (bs : list (list B)) : Prop :=
  bs = [] \/ (length bs = length sh /\
              Forall2 (fun n b => length b = n \/ length b = S n) sh bs).

Definition wf (d : ds) : Prop :=
  length (cells d) = prod (shape d) /\ bins_ok (shape d) (bins d).

End Model.

Arguments ds : clear implicits.
Arguments mk_ds {A B}.

(* ---- what a cases file evaluates ---- *)
Definition zds := ds Z Z.

Definition zds_eqb (d1 d2 : zds) : bool :=
  list_eqb Nat.eqb (shape d1) (shape d2)
  && list_eqb Z.eqb (cells d1) (cells d2)
  && list_eqb (list_eqb Z.eqb) (bins d1) (bins d2).

Inductive op := OGet (idx : list (option Z * option Z)) | OSqueeze.

(* observed implementation result: Ok dataset | Raise class *)
Definition empty_sel (d : zds) : bool := Nat.eqb (prod (shape d)) 0.

Definition run_op (d : zds) (o : op) : res zds :=
  match o with
  | OGet idx => getitem d idx
  | OSqueeze => Ok (squeeze d)
  end.

(* For selections that retain no cell only the emptiness of the result is
   compared (that is all the property claims). *)
Definition check_case (c : zds * op * res zds) : bool :=
  let '(d, o, impl) := c in
  match run_op d o, impl with
  | Ok m, Ok i =>
      match o with
      | OGet _ => if empty_sel m then empty_sel i else zds_eqb m i
      | OSqueeze => zds_eqb m i
      end
  | Raise a, Raise b => Nat.eqb a b
  | _, _ => false
  end.

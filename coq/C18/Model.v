(* C18: valjean/gavroche/diagnostics/stats.py -- TestStatsTasks / TestStatsTests /
   TestStatsTestsByLabels (.evaluate) and the verdicts of their results, as the
   code is after the three "fix:" commits on stats.py (NOT_A_TEST items are
   counted and skipped; a summary is successful when no non-empty class other
   than the success one exists).  Index operations come from the C17 model.

   Outcomes (TestOutcome): 0 SUCCESS 1 FAILURE 2 MISSING 3 NOT_A_TEST.
   Exceptions: 0 TestStatsTestsByLabelsException, 1 IndexError (by_labels = ()). *)
From Coq Require Import List ZArith Bool Arith Lia.
From VV Require Import Lib.Base C17.LibDict C17.Model.
Import ListNotations.

(* ---------- status_dict = defaultdict(list); status_dict[s].append(e) ---------- *)
Section Group.
Context {S E : Type}.
Variable seqb : S -> S -> bool.

Definition look (s : S) (d : list (S * list E)) : list E :=
  match get seqb s d with Some l => l | None => [] end.

Definition dd_append (s : S) (e : E) (d : list (S * list E)) : list (S * list E) :=
  set seqb s (look s d ++ [e]) d.

Definition group (obs : list (S * E)) : list (S * list E) :=
  fold_left (fun d o => dd_append (fst o) (snd o) d) obs [].

Definition total (d : list (S * list E)) : nat :=
  fold_right (fun kv a => length (snd kv) + a) 0 d.

Definition isnil {A} (l : list A) : bool := match l with [] => true | _ => false end.

(* __bool__ of TestResultStatsTasks / TestResultStatsTests *)
Definition verdict (ok : S) (d : list (S * list E)) : bool :=
  forallb (fun kv => seqb (fst kv) ok || isnil (snd kv)) d.
End Group.

(* ---------- TestStatsTasks ---------- *)
Section Tasks.
Context {S Nm : Type}.
Variable seqb : S -> S -> bool.
(* task_results: (task name, status) *)
Definition task_obs (ts : list (Nm * S)) : list (S * Nm) := map (fun t => (snd t, fst t)) ts.
Definition classify_tasks (ts : list (Nm * S)) : list (S * list Nm) :=
  fold_left (fun d t => dd_append seqb (snd t) (fst t) d) ts [].
End Tasks.

(* ---------- TestStatsTests / TestStatsTestsByLabels ---------- *)
Section Tests.
Context {K V Nm F : Type}.
Variable keqb : K -> K -> bool.
Variable veqb : V -> V -> bool.
Variable k_name k_result : K.          (* '_test_name', '_result' *)
Variable v_succ v_fail : V.            (* TestOutcome.SUCCESS / FAILURE as label values *)
Variable vname : Nm -> V.              (* the test name as a label value *)

Inductive item :=
| NotATest
| TR (v : bool) (name : Nm) (fp : F) (labels : list (K * V)).

(* (task name, the 'result' list when the key is present) *)
Definition task := (Nm * option (list item))%type.
Definition entry := (Nm * option F)%type.     (* NameFingerprint *)

Definition classify_item (tn : Nm) (d : list (nat * list entry)) (it : item) :=
  match it with
  | NotATest => dd_append Nat.eqb 3 (tn, None) d
  | TR v n f _ => dd_append Nat.eqb (if v then 0 else 1) (n, Some f) d
  end.

Definition classify_tests (tasks : list task) : list (nat * list entry) :=
  fold_left (fun d t =>
    match snd t with
    | None => dd_append Nat.eqb 2 (fst t, None) d
    | Some items => fold_left (classify_item (fst t)) items d
    end) tasks [].

(* what was observed, in order: one event per task without results, one per item *)
Definition item_obs (tn : Nm) (it : item) : nat * entry :=
  match it with
  | NotATest => (3, (tn, None))
  | TR v n f _ => ((if v then 0 else 1), (n, Some f))
  end.
Definition observations (tasks : list task) : list (nat * entry) :=
  flat_map (fun t => match snd t with
                     | None => [(2, (fst t, None))]
                     | Some items => map (item_obs (fst t)) items
                     end) tasks.

(* _build_labels_lod *)
Definition lod_item (it : item) : list (list (K * V)) :=
  match it with
  | NotATest => []
  | TR v n _ labs => [set keqb k_result (if v then v_succ else v_fail) (set keqb k_name (vname n) labs)]
  end.
Definition labels_lod (tasks : list task) : list (list (K * V)) :=
  flat_map (fun t => match snd t with None => [] | Some items => flat_map lod_item items end) tasks.

(* _build_index: every key is indexed *)
Definition add_all (i : nat) (it : list (K * V)) (idx : list (K * list (V * list nat))) :=
  fold_left (fun idx kv => idx_add keqb veqb (fst kv) (snd kv) i idx) it idx.
Fixpoint build_all (n : nat) (lod : list (list (K * V))) (idx : list (K * list (V * list nat))) :=
  match lod with
  | [] => idx
  | it :: r => build_all (S n) r (add_all n it idx)
  end.

(* Index.keep_only *)
Definition keep_vals (ids : list nat) (vals : list (V * list nat)) : list (V * list nat) :=
  filter (fun vp => negb (isnil (snd vp))) (map (fun vp => (fst vp, inter (snd vp) ids)) vals).
Definition keep_only (idx : list (K * list (V * list nat))) (ids : list nat) :=
  filter (fun kv => negb (isnil (snd kv))) (map (fun kv => (fst kv, keep_vals ids (snd kv))) idx).

Record row := mk_row { r_labels : list V; r_ok : nat; r_ko : nat; r_total : nat }.

(* _rloop_over_labels *)
Fixpoint rloop (idx : list (K * list (V * list nat))) (labels : list K) (rok rko : list nat)
         (plab : list V) : list row :=
  match labels with
  | [] => []
  | label :: rest =>
      match get keqb label idx with
      | None => []
      | Some vals =>
          match rest with
          | [] => map (fun vp => mk_row (plab ++ [fst vp])
                                        (length (inter (snd vp) rok))
                                        (length (inter (snd vp) rko))
                                        (length (snd vp))) vals
          | _ => flat_map (fun vp => rloop (keep_only idx (snd vp)) rest rok rko (plab ++ [fst vp])) vals
          end
      end
  end.

(* evaluate: (classify before sorting, n_labels) *)
Definition evaluate_by_labels (tasks : list task) (by_labels : list K) : res (list row * nat) :=
  let lod := labels_lod tasks in
  let idx := build_all 0 lod [] in
  if negb (forallb (fun l => has keqb l idx) by_labels) then Raise 0
  else match by_labels with
       | [] => Raise 1
       | _ => Ok (rloop idx by_labels (lookup keqb veqb idx k_result v_succ)
                        (lookup keqb veqb idx k_result v_fail) [], length lod)
       end.

Definition oracles (rows : list row) : list bool := map (fun r => Nat.eqb (r_ok r) (r_total r)) rows.
Definition verdict_bl (rows : list row) : bool := forallb (fun b => b) (oracles rows).
Definition sum_total (rows : list row) : nat := fold_right (fun r a => r_total r + a) 0 rows.
Definition nb_missing_labels (n : nat) (rows : list row) : nat := n - sum_total rows.

End Tests.

Arguments item : clear implicits.
Arguments NotATest {K V Nm F}.
Arguments row : clear implicits.

(* ---------- sorted(res, key=lambda x: x['labels']) ---------- *)
Section Sorting.
Context {V : Type}.
Variable vleb : V -> V -> bool.      (* <= on label values *)
Variable veqb : V -> V -> bool.

(* comparison of tuples: the first differing component decides, a proper
   prefix is smaller *)
Fixpoint lex_le (a b : list V) : bool :=
  match a, b with
  | [], _ => true
  | _ :: _, [] => false
  | x :: a', y :: b' => if veqb x y then lex_le a' b' else vleb x y
  end.

Fixpoint insert_row (r : row V) (l : list (row V)) : list (row V) :=
  match l with
  | [] => [r]
  | x :: t => if lex_le (r_labels r) (r_labels x) then r :: l else x :: insert_row r t
  end.

(* a stable sort, as Python's *)
Definition sort_rows (l : list (row V)) : list (row V) := fold_right insert_row [] l.
End Sorting.

(* ------------------------------------------------------------------ *)
(* what a cases file evaluates *)
Definition zentry := (Z * option Z)%type.
Definition zentry_eqb (a b : zentry) : bool := Z.eqb (fst a) (fst b) && option_eqb Z.eqb (snd a) (snd b).
Definition zitem18 := item Z pv Z Z.

Definition classify_eqb {A} (eqb : A -> A -> bool) (a b : list (nat * list A)) : bool :=
  (* same classes (unordered), same members in the same order; no empty class on either side *)
  Nat.eqb (length a) (length b)
  && forallb (fun kv => negb (isnil (snd kv)) && list_eqb eqb (snd kv) (look Nat.eqb (fst kv) b)) a.

Definition zrow_eqb (a b : row pv) : bool :=
  list_eqb pv_eqb (r_labels a) (r_labels b) && Nat.eqb (r_ok a) (r_ok b)
  && Nat.eqb (r_ko a) (r_ko b) && Nat.eqb (r_total a) (r_total b).

Inductive zcase :=
| ZTasks (ts : list (Z * nat)) (cls : list (nat * list Z)) (v : bool)
| ZTests (ts : list (Z * option (list zitem18))) (cls : list (nat * list zentry)) (v : bool)
| ZByLabels (ts : list (Z * option (list zitem18))) (by_labels : list Z)
            (out : res (list (row pv) * nat * list bool * bool * nat)).
            (* rows, n_labels, oracles, verdict, nb_missing_labels *)

Definition pv_leb (a b : pv) : bool :=
  match a, b with
  | H x, H y => Z.leb x y
  | U x, U y => Z.leb x y
  | H _, U _ => true
  | U _, H _ => false
  end.

Definition zeval := evaluate_by_labels (Nm := Z) (F := Z) Z.eqb pv_eqb 0%Z 1%Z (H 0) (H 1) (fun n => H n).

Definition check_case (c : zcase) : bool :=
  match c with
  | ZTasks ts cls v =>
      let m := classify_tasks Nat.eqb ts in
      classify_eqb Z.eqb m cls && Bool.eqb (verdict Nat.eqb 2 m) v
  | ZTests ts cls v =>
      let m := classify_tests ts in
      classify_eqb zentry_eqb m cls && Bool.eqb (verdict Nat.eqb 0 m) v
  | ZByLabels ts bl out =>
      match zeval ts bl, out with
      | Ok (rows, n), Ok (irows, inlab, iora, iv, imiss) =>
          let srows := sort_rows pv_leb pv_eqb rows in      (* same rows, in the same order *)
          list_eqb zrow_eqb srows irows
          && Nat.eqb n inlab
          && list_eqb Bool.eqb (oracles srows) iora
          && Bool.eqb (verdict_bl rows) iv
          && Nat.eqb (nb_missing_labels n rows) imiss
      | Raise a, Raise b => Nat.eqb a b
      | _, _ => false
      end
  end.

(* small-scope exhaustive stream: one collection, its test summary and the
   by-labels summaries for a list of label selections *)
Definition check_exh (c : list (Z * option (list zitem18)) * list (nat * list zentry) * bool
                         * list (list Z * res (list (row pv) * nat * list bool * bool * nat))) : bool :=
  let '(ts, cls, v, sels) := c in
  check_case (ZTests ts cls v)
  && forallb (fun p => check_case (ZByLabels ts (fst p) (snd p))) sels.

(* classification_counts (stats.py): the counted summary as rendered in tables
   and pie charts -- status_first, then the other members of the enum (values
   0 .. nstat-1) in order; the statuses with a null count are omitted *)
Definition class_counts (ok nstat : nat) (c : list (nat * list Z)) : list (nat * nat) :=
  filter (fun p => negb (Nat.eqb (snd p) 0))
         (map (fun s => (s, length (look Nat.eqb s c)))
              (ok :: filter (fun s => negb (Nat.eqb s ok)) (seq 0 nstat))).

Definition check_counts (c : nat * nat * list (nat * list Z) * list (nat * nat)) : bool :=
  let '(nstat, ok, cls, impl) := c in
  list_eqb (fun x y => Nat.eqb (fst x) (fst y) && Nat.eqb (snd x) (snd y)) (class_counts ok nstat cls) impl.

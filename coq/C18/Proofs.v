(* C18 proofs, part 1: classification of tasks / test results (group-by with a
   defaultdict(list)), counts, verdicts. *)
From Coq Require Import List ZArith Bool Arith Lia.
From VV Require Import Lib.Base C17.LibDict C17.Model C18.Model.
Import ListNotations.

Lemma filter_false_aux {A} (P : A -> bool) l : (forall x, In x l -> P x = false) -> filter P l = [].
Proof.
  induction l as [|a l IH]; cbn; intros H; [reflexivity|].
  rewrite (H a) by now left. apply IH. intros x Hx. apply H. now right.
Qed.

Section GroupProofs.
Context {S E : Type}.
Variable seqb : S -> S -> bool.
Hypothesis seqb_spec : forall a b, seqb a b = true <-> a = b.

Notation look := (look seqb).
Notation dd_append := (dd_append seqb).
Notation group := (group seqb).

Lemma look_dd_append s e (d : list (S * list E)) s' :
  look s' (dd_append s e d) = if seqb s' s then look s' d ++ [e] else look s' d.
Proof.
  unfold C18.Model.look, C18.Model.dd_append. rewrite (get_set seqb seqb_spec).
  destruct (seqb s' s) eqn:Es; [|reflexivity].
  apply seqb_spec in Es. subst s'. reflexivity.
Qed.

Definition fold_obs (obs : list (S * E)) (d : list (S * list E)) :=
  fold_left (fun (d : list (S * list E)) (o : S * E) => dd_append (fst o) (snd o) d) obs d.

Lemma look_fold_obs (obs : list (S * E)) : forall (d : list (S * list E)) s,
  look s (fold_obs obs d) = look s d ++ map snd (filter (fun o => seqb s (fst o)) obs).
Proof.
  induction obs as [|o r IH]; intros d s; cbn [fold_obs fold_left filter map].
  - now rewrite app_nil_r.
  - fold (fold_obs r (dd_append (fst o) (snd o) d)). rewrite IH, look_dd_append.
    destruct (seqb s (fst o)); cbn [map]; [now rewrite <- app_assoc|reflexivity].
Qed.

(* each observation is listed exactly once, under its status, in order *)
Theorem group_lists_each_once (obs : list (S * E)) s :
  look s (group obs) = map snd (filter (fun o => seqb s (fst o)) obs).
Proof. unfold C18.Model.group. fold (fold_obs obs []). now rewrite look_fold_obs. Qed.

Lemma total_cons k v (r : list (S * list E)) : total ((k, v) :: r) = length v + total r.
Proof. reflexivity. Qed.

Lemma total_set_absent s l (d : list (S * list E)) :
  get seqb s d = None -> total (set seqb s l d) = total d + length l.
Proof.
  induction d as [|[k v] r IH]; cbn [get set]; [intros _; cbn; lia|].
  destruct (seqb s k); [discriminate|]. intros H. rewrite !total_cons, IH by exact H. lia.
Qed.

Lemma total_set_present s l l0 (d : list (S * list E)) :
  get seqb s d = Some l0 -> total (set seqb s l d) + length l0 = total d + length l.
Proof.
  induction d as [|[k v] r IH]; cbn [get set]; [discriminate|].
  destruct (seqb s k); rewrite !total_cons.
  - intros [= ->]. lia.
  - intros H. specialize (IH H). lia.
Qed.

Lemma total_dd_append s e (d : list (S * list E)) : total (dd_append s e d) = Datatypes.S (total d).
Proof.
  unfold C18.Model.dd_append, C18.Model.look. destruct (get seqb s d) as [l0|] eqn:E0.
  - pose proof (total_set_present s (l0 ++ [e]) l0 d E0) as H. rewrite app_length in H. cbn in H. lia.
  - rewrite total_set_absent by exact E0. cbn. lia.
Qed.

Lemma total_fold_obs (obs : list (S * E)) : forall d : list (S * list E), total (fold_obs obs d) = total d + length obs.
Proof.
  induction obs as [|o r IH]; intros d; cbn [fold_obs fold_left length]; [lia|].
  fold (fold_obs r (dd_append (fst o) (snd o) d)). rewrite IH, total_dd_append. lia.
Qed.

(* the counts sum to the number observed *)
Theorem group_counts_sum (obs : list (S * E)) : total (group obs) = length obs.
Proof. unfold C18.Model.group. fold (fold_obs obs []). now rewrite total_fold_obs. Qed.

Definition wf_classes (d : list (S * list E)) : Prop :=
  NoDup (map fst d) /\ Forall (fun kv => snd kv <> []) d.

Lemma Forall_set (P : S * list E -> Prop) s l (d : list (S * list E)) :
  Forall P d -> (forall k, P (k, l)) -> Forall P (set seqb s l d).
Proof.
  intros Hd Hl. induction d as [|[k v] r IH]; cbn; [constructor; [apply Hl|constructor]|].
  inversion Hd; subst. destruct (seqb s k); constructor; auto.
Qed.

Lemma wf_dd_append s e (d : list (S * list E)) : wf_classes d -> wf_classes (dd_append s e d).
Proof.
  intros [H1 H2]. split.
  - apply (set_NoDup seqb seqb_spec). exact H1.
  - apply Forall_set; [exact H2|]. intros k. cbn. destruct (look s d); discriminate.
Qed.

Lemma wf_fold_obs (obs : list (S * E)) : forall d : list (S * list E), wf_classes d -> wf_classes (fold_obs obs d).
Proof.
  induction obs as [|o r IH]; intros d W; cbn [fold_obs fold_left]; [exact W|].
  apply IH. now apply wf_dd_append.
Qed.

(* no class is listed twice and no empty class is created *)
Theorem group_wf (obs : list (S * E)) : wf_classes (group obs).
Proof. apply wf_fold_obs. split; constructor. Qed.

Lemma verdict_look ok (d : list (S * list E)) :
  NoDup (map fst d) ->
  (verdict seqb ok d = true <-> forall s, seqb s ok = false -> look s d = []).
Proof.
  intros ND. unfold verdict. rewrite forallb_forall. split.
  - intros H s Hs. unfold C18.Model.look. destruct (get seqb s d) as [l|] eqn:Eg; [|reflexivity].
    destruct (get_In seqb s l d Eg) as (k' & Ek & Hin). apply seqb_spec in Ek. subst k'.
    specialize (H _ Hin). cbn in H. rewrite Hs in H. destruct l; [reflexivity|discriminate].
  - intros H [k l] Hin. cbn. destruct (seqb k ok) eqn:Ek; [reflexivity|]. cbn.
    specialize (H k Ek). unfold C18.Model.look in H.
    rewrite (In_get seqb seqb_spec k l d ND Hin) in H. now subst l.
Qed.

(* a summary is successful exactly when everything it observed succeeded *)
Theorem verdict_iff_all_succeeded ok (obs : list (S * E)) :
  verdict seqb ok (group obs) = forallb (fun o => seqb (fst o) ok) obs.
Proof.
  apply eq_true_iff_eq. rewrite (verdict_look ok _ (proj1 (group_wf obs))).
  rewrite forallb_forall. split.
  - intros H [s e] Hin. cbn. destruct (seqb s ok) eqn:Es; [reflexivity|exfalso].
    specialize (H s Es). rewrite group_lists_each_once in H.
    assert (Hi : In e (map snd (filter (fun o => seqb s (fst o)) obs))).
    { change e with (snd (s, e)). apply in_map. apply filter_In. split; [exact Hin|]. cbn.
      apply seqb_spec. reflexivity. }
    rewrite H in Hi. exact Hi.
  - intros H s Hs. rewrite group_lists_each_once.
    replace (filter (fun o => seqb s (fst o)) obs) with (@nil (S * E)); [reflexivity|].
    symmetry. apply filter_false_aux. intros o Ho. specialize (H o Ho).
    destruct (seqb s (fst o)) eqn:E1; [|reflexivity]. apply seqb_spec in E1. apply seqb_spec in H.
    subst. rewrite (proj2 (seqb_spec (fst o) (fst o)) eq_refl) in Hs. discriminate.
Qed.
End GroupProofs.

(* ---------- tasks ---------- *)
Section TasksProofs.
Context {S Nm : Type}.
Variable seqb : S -> S -> bool.
Hypothesis seqb_spec : forall a b, seqb a b = true <-> a = b.

Lemma classify_tasks_group (ts : list (Nm * S)) :
  classify_tasks seqb ts = group seqb (task_obs ts).
Proof.
  unfold classify_tasks, group, task_obs. generalize (@nil (S * list Nm)).
  induction ts as [|t r IH]; intros d; cbn; [reflexivity|apply IH].
Qed.

(* THEOREM each_task_once *)
Theorem each_task_once (ts : list (Nm * S)) :
  (forall s, look seqb s (classify_tasks seqb ts)
             = map fst (filter (fun t => seqb s (snd t)) ts)) /\
  total (classify_tasks seqb ts) = length ts /\
  wf_classes (classify_tasks seqb ts).
Proof.
  rewrite classify_tasks_group. split; [|split].
  - intros s. rewrite (group_lists_each_once seqb seqb_spec). unfold task_obs.
    induction ts as [|t r IH]; cbn; [reflexivity|]. destruct (seqb s (snd t)); cbn; now rewrite IH.
  - rewrite (group_counts_sum seqb). unfold task_obs. apply map_length.
  - apply (group_wf seqb seqb_spec).
Qed.

Theorem tasks_summary_successful_iff (ts : list (Nm * S)) done :
  verdict seqb done (classify_tasks seqb ts) = forallb (fun t => seqb (snd t) done) ts.
Proof.
  rewrite classify_tasks_group, (verdict_iff_all_succeeded seqb seqb_spec). unfold task_obs.
  induction ts as [|t r IH]; cbn; [reflexivity|now rewrite IH].
Qed.
End TasksProofs.

(* ---------- test results ---------- *)
Section TestsProofs.
Context {K V Nm F : Type}.
Notation task := (Nm * option (list (item K V Nm F)))%type.

Lemma nat_eqb_spec a b : Nat.eqb a b = true <-> a = b.
Proof. apply Nat.eqb_eq. Qed.

Lemma classify_items_obs tn (items : list (item K V Nm F)) : forall d,
  fold_left (classify_item tn) items d
  = fold_left (fun (d : list (nat * list (Nm * option F))) o => dd_append Nat.eqb (fst o) (snd o) d)
              (map (item_obs tn) items) d.
Proof.
  induction items as [|it r IH]; intros d; cbn [fold_left map]; [reflexivity|].
  rewrite IH. f_equal. destruct it; reflexivity.
Qed.

Lemma classify_tests_group_acc (tasks : list task) : forall d,
  fold_left (fun (d : list (nat * list (Nm * option F))) (t : task) =>
    match snd t with
    | None => dd_append Nat.eqb 2 (fst t, None) d
    | Some items => fold_left (classify_item (fst t)) items d
    end) tasks d
  = fold_left (fun (d : list (nat * list (Nm * option F))) o => dd_append Nat.eqb (fst o) (snd o) d)
              (observations tasks) d.
Proof.
  induction tasks as [|[tn r] rest IH]; intros d; cbn [fold_left observations flat_map snd fst];
    [reflexivity|].
  rewrite fold_left_app, IH. f_equal. destruct r as [items|]; [apply classify_items_obs|reflexivity].
Qed.

Lemma classify_tests_group (tasks : list task) :
  classify_tests tasks = group Nat.eqb (observations tasks).
Proof. apply classify_tests_group_acc. Qed.

(* THEOREM each_result_once *)
Theorem each_result_once (tasks : list task) :
  (forall o, look Nat.eqb o (classify_tests tasks)
             = map snd (filter (fun ob => Nat.eqb o (fst ob)) (observations tasks))) /\
  total (classify_tests tasks) = length (observations tasks) /\
  wf_classes (classify_tests tasks).
Proof.
  rewrite classify_tests_group. split; [|split].
  - intros o. apply (group_lists_each_once Nat.eqb nat_eqb_spec).
  - apply (group_counts_sum Nat.eqb).
  - apply (group_wf Nat.eqb nat_eqb_spec).
Qed.

(* the observations are what the statement says: one MISSING per task without
   results, one SUCCESS / FAILURE per test result according to its verdict,
   one NOT_A_TEST per other item *)
Definition n_items (tasks : list task) : nat :=
  fold_right (fun t a => match snd t with None => 1 | Some items => length items end + a) 0 tasks.

Lemma observations_length (tasks : list task) : length (observations tasks) = n_items tasks.
Proof.
  induction tasks as [|[tn r] rest IH]; [reflexivity|].
  cbn [observations flat_map n_items fold_right snd fst]. fold (observations rest). fold (n_items rest).
  rewrite app_length, IH. destruct r; cbn; [now rewrite map_length|reflexivity].
Qed.

Definition all_succeeded (tasks : list task) : bool :=
  forallb (fun t => match snd t with
                    | None => false
                    | Some items => forallb (fun it => match it with TR true _ _ _ => true | _ => false end) items
                    end) tasks.

Theorem tests_summary_successful_iff (tasks : list task) :
  verdict Nat.eqb 0 (classify_tests tasks) = all_succeeded tasks.
Proof.
  rewrite classify_tests_group, (verdict_iff_all_succeeded Nat.eqb nat_eqb_spec).
  induction tasks as [|[tn r] rest IH]; cbn [observations flat_map all_succeeded forallb snd fst];
    [reflexivity|].
  rewrite forallb_app. fold (observations rest). rewrite IH. f_equal.
  destruct r as [items|]; cbn; [|reflexivity].
  induction items as [|it r IHr]; cbn; [reflexivity|]. rewrite IHr.
  destruct it as [|[|] n f l]; reflexivity.
Qed.
End TestsProofs.

(* C18 round 4: the rows of the by-labels summary carry pairwise distinct label
   tuples; the final sort is a permutation that puts them in increasing
   (lexicographic) order -- with distinct tuples this fixes the order. *)
From Coq Require Import List ZArith Bool Arith Lia Permutation Sorted.
From VV Require Import Lib.Base C17.LibDict C17.Model C17.Proofs C18.Model C18.Proofs C18.ProofsLabels.
Import ListNotations.

Lemma NoDup_app_aux {A} (l1 l2 : list A) :
  NoDup l1 -> NoDup l2 -> (forall a, In a l1 -> ~ In a l2) -> NoDup (l1 ++ l2).
Proof.
  induction l1 as [|a l IH]; cbn; intros N1 N2 H; [exact N2|].
  inversion N1; subst. constructor.
  - rewrite in_app_iff. intros [H0|H0]; [contradiction|]. exact (H a (or_introl eq_refl) H0).
  - apply IH; [assumption|assumption|]. intros x Hx. apply H. now right.
Qed.

Lemma NoDup_flat_map_aux {A B C} (key : A -> C) (g : A -> list B) (l : list A) :
  NoDup (map key l) ->
  (forall x, In x l -> NoDup (g x)) ->
  (forall x y b, In x l -> In y l -> In b (g x) -> In b (g y) -> key x = key y) ->
  NoDup (flat_map g l).
Proof.
  induction l as [|a l IH]; cbn; intros N H1 H2; [constructor|].
  inversion N; subst. apply NoDup_app_aux.
  - apply H1. now left.
  - apply IH; [assumption| |]; intros; [apply H1; now right|eapply H2; eauto].
  - intros b Hb Hin. apply in_flat_map in Hin. destruct Hin as (y & Hy & Hby).
    apply H3. rewrite (H2 a y b (or_introl eq_refl) (or_intror Hy) Hb Hby). now apply in_map.
Qed.

Lemma NoDup_map_inj_aux {A B} (f : A -> B) l :
  (forall x y, f x = f y -> x = y) -> NoDup l -> NoDup (map f l).
Proof.
  intros Inj N. induction N as [|a l Ha N IH]; cbn; constructor; [|exact IH].
  intros Hin. apply in_map_iff in Hin. destruct Hin as (y & E & Hy). apply Inj in E. now subst.
Qed.

Section Distinct.
Context {K V : Type}.
Variable keqb : K -> K -> bool.
Variable veqb : V -> V -> bool.
Hypothesis keqb_spec : forall a b, keqb a b = true <-> a = b.
Hypothesis veqb_spec : forall a b, veqb a b = true <-> a = b.
Variable lod : list (list (K * V)).
Notation rep := (rep keqb veqb lod).
Notation rloop := (rloop keqb).

Theorem rows_distinct rok rko : forall labels idx S plab,
  rep idx S -> NoDup (map (@r_labels V) (rloop idx labels rok rko plab)).
Proof.
  induction labels as [|l rest IH]; intros idx S plab R; cbn [C18.Model.rloop]; [constructor|].
  destruct (get keqb l idx) as [vals|] eqn:Eg; [|constructor].
  assert (NV : NoDup (map fst vals)) by (destruct R as [_ [_ W2]]; exact (proj1 (W2 l vals Eg))).
  destruct rest as [|l2 rest'].
  - rewrite map_map. cbn [r_labels].
    rewrite <- (map_map fst (fun v => plab ++ [v])). apply NoDup_map_inj_aux; [|exact NV].
    intros x y E. apply app_inv_head in E. now injection E.
  - rewrite flat_map_concat_map, concat_map, map_map, <- flat_map_concat_map.
    apply (NoDup_flat_map_aux fst); [exact NV| |].
    + intros [v ps] Hin. cbn [fst snd].
      pose proof (vals_entries keqb veqb veqb_spec lod idx S l vals v ps R Eg Hin) as ->.
      apply (IH _ (posl keqb veqb lod S l v)). now apply rep_keep_only.
    + intros [v1 p1] [v2 p2] b H1 H2 Hb1 Hb2. cbn [fst snd] in *.
      pose proof (vals_entries keqb veqb veqb_spec lod idx S l vals v1 p1 R Eg H1) as ->.
      pose proof (vals_entries keqb veqb veqb_spec lod idx S l vals v2 p2 R Eg H2) as ->.
      apply in_map_iff in Hb1. destruct Hb1 as (r1 & E1 & Hr1).
      apply in_map_iff in Hb2. destruct Hb2 as (r2 & E2 & Hr2).
      destruct (row_spec keqb veqb keqb_spec veqb_spec lod rok rko _ _ _ _ r1
                  (rep_keep_only keqb veqb keqb_spec veqb_spec lod idx S l v1 R) Hr1) as (vs1 & L1 & _).
      destruct (row_spec keqb veqb keqb_spec veqb_spec lod rok rko _ _ _ _ r2
                  (rep_keep_only keqb veqb keqb_spec veqb_spec lod idx S l v2 R) Hr2) as (vs2 & L2 & _).
      rewrite L1 in E1. rewrite L2 in E2. rewrite <- E2, <- !app_assoc in E1.
      apply app_inv_head in E1. cbn in E1. now injection E1.
Qed.
End Distinct.

(* ---------- the sort ---------- *)
Section Sort.
Context {V : Type}.
Variable vleb : V -> V -> bool.
Variable veqb : V -> V -> bool.
Hypothesis veqb_spec : forall a b, veqb a b = true <-> a = b.
Hypothesis vleb_total : forall a b, vleb a b = true \/ vleb b a = true.
Notation lex_le := (lex_le vleb veqb).
Notation insert_row := (insert_row vleb veqb).
Notation sort_rows := (sort_rows vleb veqb).

Definition row_le (a b : row V) : Prop := lex_le (r_labels a) (r_labels b) = true.

Lemma lex_total a : forall b, lex_le a b = true \/ lex_le b a = true.
Proof.
  induction a as [|x a IH]; intros [|y b]; cbn; auto.
  destruct (veqb x y) eqn:E.
  - apply veqb_spec in E. subst y. rewrite (proj2 (veqb_spec x x) eq_refl). apply IH.
  - destruct (veqb y x) eqn:E2; [apply veqb_spec in E2; subst; rewrite (proj2 (veqb_spec x x) eq_refl) in E; discriminate|].
    apply vleb_total.
Qed.

Lemma insert_perm r l : Permutation (insert_row r l) (r :: l).
Proof.
  induction l as [|x t IH]; cbn; [reflexivity|].
  destruct (lex_le (r_labels r) (r_labels x)); [reflexivity|].
  rewrite IH. apply perm_swap.
Qed.

Theorem sort_perm l : Permutation (sort_rows l) l.
Proof.
  induction l as [|r l IH]; cbn; [constructor|]. rewrite insert_perm. now constructor.
Qed.

Lemma insert_sorted r l : Sorted row_le l -> Sorted row_le (insert_row r l).
Proof.
  induction l as [|x t IH]; cbn; intros HS; [repeat constructor|].
  destruct (lex_le (r_labels r) (r_labels x)) eqn:E.
  - constructor; [exact HS|]. constructor. exact E.
  - inversion HS as [|? ? HS' HR]; subst. constructor; [apply IH; exact HS'|].
    assert (Hx : row_le x r).
    { destruct (lex_total (r_labels r) (r_labels x)) as [H|H]; [congruence|exact H]. }
    destruct t as [|y t']; cbn; [constructor; exact Hx|].
    destruct (lex_le (r_labels r) (r_labels y)); constructor; [exact Hx|].
    inversion HR; subst. assumption.
Qed.

Theorem sort_sorted l : Sorted row_le (sort_rows l).
Proof. induction l as [|r l IH]; cbn; [constructor|]. now apply insert_sorted. Qed.

Theorem sort_keeps_distinct l : NoDup (map (@r_labels V) l) -> NoDup (map (@r_labels V) (sort_rows l)).
Proof.
  intros N. eapply Permutation_NoDup; [|exact N]. apply Permutation_map. symmetry. apply sort_perm.
Qed.
End Sort.

(* ---------- the rows of TestStatsTestsByLabels.evaluate ---------- *)
Section FinalOrder.
Context {K V Nm F : Type}.
Variable keqb : K -> K -> bool.
Variable veqb : V -> V -> bool.
Variable vleb : V -> V -> bool.
Hypothesis keqb_spec : forall a b, keqb a b = true <-> a = b.
Hypothesis veqb_spec : forall a b, veqb a b = true <-> a = b.
Hypothesis vleb_total : forall a b, vleb a b = true \/ vleb b a = true.
Variable k_name k_result : K.
Variable v_succ v_fail : V.
Variable vname : Nm -> V.

(* THEOREM by_labels_rows_distinct_and_sorted *)
Theorem by_labels_rows_distinct_and_sorted
        (tasks : list (Nm * option (list (item K V Nm F)))) (by_labels : list K) rows n :
  tasks_dicts tasks ->
  evaluate_by_labels keqb veqb k_name k_result v_succ v_fail vname tasks by_labels = Ok (rows, n) ->
  NoDup (map (@r_labels V) rows) /\
  Permutation (sort_rows vleb veqb rows) rows /\
  Sorted (row_le vleb veqb) (sort_rows vleb veqb rows) /\
  NoDup (map (@r_labels V) (sort_rows vleb veqb rows)).
Proof.
  intros HD. unfold C18.Model.evaluate_by_labels.
  destruct (negb _); [discriminate|]. destruct by_labels as [|l0 rest] eqn:EL; [discriminate|].
  rewrite <- EL. intros [= <- _].
  set (lod := labels_lod keqb k_name k_result v_succ v_fail vname tasks).
  pose proof (lod_all_ok keqb keqb_spec k_name k_result v_succ v_fail vname tasks HD) as HOK. fold lod in HOK.
  assert (HDl : Forall (fun it => NoDup (map fst it)) lod).
  { eapply Forall_impl; [|exact HOK]. intros it [H _]. exact H. }
  pose proof (rep_build keqb veqb keqb_spec veqb_spec lod HDl) as R.
  assert (N : NoDup (map (@r_labels V)
                (rloop keqb (build_all keqb veqb 0 lod []) by_labels
                   (lookup keqb veqb (build_all keqb veqb 0 lod []) k_result v_succ)
                   (lookup keqb veqb (build_all keqb veqb 0 lod []) k_result v_fail) []))).
  { eapply (rows_distinct keqb veqb keqb_spec veqb_spec lod). exact R. }
  split; [exact N|]. split; [apply sort_perm|]. split; [now apply sort_sorted|now apply sort_keeps_distinct].
Qed.
End FinalOrder.

(* C18 proofs, part 2: the recursive partition by labels through the Index is a
   group-by of the list of label dictionaries. *)
From Coq Require Import List ZArith Bool Arith Lia.
From VV Require Import Lib.Base C17.LibDict C17.Model C17.Proofs C18.Model C18.Proofs.
Import ListNotations.

(* ---------- generic list facts ---------- *)
Lemma count_disjoint {A} (P Q : A -> bool) l :
  (forall x, In x l -> P x && Q x = false) ->
  length (filter P l) + length (filter Q l) = length (filter (fun x => P x || Q x) l).
Proof.
  induction l as [|a l IH]; intros H; cbn; [reflexivity|].
  assert (Ha := H a (or_introl eq_refl)).
  assert (IH' := IH (fun x Hx => H x (or_intror Hx))).
  destruct (P a), (Q a); cbn in *; try discriminate; lia.
Qed.

Lemma filter_ext_in_aux {A} (P Q : A -> bool) l :
  (forall x, In x l -> P x = Q x) -> filter P l = filter Q l.
Proof. apply filter_ext_in. Qed.

Lemma get_filter_map_none {K A B} (keqb : K -> K -> bool) (f : A -> B) (P : B -> bool) k (d : list (K * A)) :
  get keqb k d = None ->
  get keqb k (filter (fun kv => P (snd kv)) (map (fun kv => (fst kv, f (snd kv))) d)) = None.
Proof.
  induction d as [|[k' v] r IH]; cbn; [reflexivity|].
  destruct (keqb k k') eqn:E; [discriminate|]. intros H.
  destruct (P (f v)); cbn; [rewrite E|]; apply IH, H.
Qed.

Lemma get_filter_map {K A B} (keqb : K -> K -> bool)
      (keqb_spec : forall a b, keqb a b = true <-> a = b)
      (f : A -> B) (P : B -> bool) k (d : list (K * A)) :
  NoDup (map fst d) ->
  get keqb k (filter (fun kv => P (snd kv)) (map (fun kv => (fst kv, f (snd kv))) d))
  = match get keqb k d with
    | Some v => if P (f v) then Some (f v) else None
    | None => None
    end.
Proof.
  induction d as [|[k' v] r IH]; cbn; [reflexivity|]. intros ND. inversion ND; subst.
  destruct (keqb k k') eqn:E.
  - apply keqb_spec in E. subst k'. destruct (P (f v)) eqn:EP; cbn.
    + now rewrite (keqb_refl keqb keqb_spec).
    + apply get_filter_map_none. now apply (get_none_notin keqb keqb_spec).
  - destruct (P (f v)); cbn; [rewrite E|]; apply IH; assumption.
Qed.

Lemma NoDup_filter_map_keys {K A B} (f : A -> B) (P : B -> bool) (d : list (K * A)) :
  NoDup (map fst d) ->
  NoDup (map fst (filter (fun kv => P (snd kv)) (map (fun kv => (fst kv, f (snd kv))) d))).
Proof.
  induction d as [|[k v] r IH]; cbn; [constructor|]. intros ND. inversion ND; subst.
  destruct (P (f v)); cbn; [|now apply IH]. constructor; [|now apply IH].
  intros Hin. apply H1. clear -Hin. induction r as [|[k' v'] r IH]; cbn in *; [contradiction|].
  destruct (P (f v')); cbn in *; [destruct Hin; [now left|right; now apply IH]|right; now apply IH].
Qed.

Lemma filter_length_le_aux {A} (P : A -> bool) l : length (filter P l) <= length l.
Proof. induction l as [|a l IH]; cbn; [lia|]. destruct (P a); cbn; lia. Qed.

Lemma forallb_map_aux {A B} (f : A -> B) (P : B -> bool) l : forallb P (map f l) = forallb (fun x => P (f x)) l.
Proof. induction l as [|a l IH]; cbn; [reflexivity|now rewrite IH]. Qed.

Section Labels.
Context {K V : Type}.
Variable keqb : K -> K -> bool.
Variable veqb : V -> V -> bool.
Hypothesis keqb_spec : forall a b, keqb a b = true <-> a = b.
Hypothesis veqb_spec : forall a b, veqb a b = true <-> a = b.

Notation dict := (list (K * V)).
Notation index := (list (K * list (V * list nat))).
Notation lookup := (lookup keqb veqb).
Notation idx_add := (idx_add keqb veqb).
Notation add_all := (add_all keqb veqb).
Notation build_all := (build_all keqb veqb).
Notation keep_only := (@keep_only K V).
Notation rloop := (rloop keqb).

Variable lod : list dict.
Hypothesis lod_dicts : Forall (fun it => NoDup (map fst it)) lod.

Definition item_at (i : nat) : dict := nth i lod [].
Definition kv (k : K) (v : V) (it : dict) : bool :=
  match get keqb k it with Some v' => veqb v v' | None => false end.
Definition posl (S : list nat) (k : K) (v : V) : list nat := filter (fun i => kv k v (item_at i)) S.
Definition matchl (q : list (K * V)) (it : dict) : bool := forallb (fun p => kv (fst p) (snd p) it) q.
Definition carries (labels : list K) (it : dict) : bool := forallb (fun l => has keqb l it) labels.

(* ---------- the index of all keys ---------- *)
Lemma lookup_add_all i (it : dict) : forall idx k v,
  NoDup (map fst it) ->
  lookup (add_all i it idx) k v = lookup idx k v ++ (if kv k v it then [i] else []).
Proof.
  unfold C18.Model.add_all. induction it as [|[k0 v0] r IH]; intros idx k v ND; cbn [fold_left].
  - unfold kv. cbn. now rewrite app_nil_r.
  - cbn in ND. inversion ND as [|? ? Hnotin ND']; subst. rewrite IH by exact ND'. cbn [fst snd].
    rewrite (lookup_idx_add keqb veqb keqb_spec veqb_spec). unfold kv at 2. cbn [get].
    destruct (keqb k k0) eqn:Ek.
    + apply keqb_spec in Ek. subst k0. cbn [andb].
      assert (Hr : kv k v r = false).
      { unfold kv. replace (get keqb k r) with (@None V); [reflexivity|].
        symmetry. apply (get_none_notin keqb keqb_spec). exact Hnotin. }
      rewrite Hr, app_nil_r. destruct (veqb v v0); [reflexivity|now rewrite app_nil_r].
    + cbn [andb]. reflexivity.
Qed.

Lemma lookup_build_all (l : list dict) : forall n idx k v,
  Forall (fun it => NoDup (map fst it)) l ->
  lookup (build_all n l idx) k v
  = lookup idx k v ++ filter (fun i => kv k v (nth (i - n) l [])) (seq n (length l)).
Proof.
  induction l as [|it r IH]; intros n idx k v HD; cbn [C18.Model.build_all length seq filter].
  - now rewrite app_nil_r.
  - inversion HD; subst. rewrite IH by assumption. rewrite lookup_add_all by assumption.
    rewrite <- app_assoc. f_equal.
    assert (E : filter (fun i => kv k v (nth (i - n) (it :: r) [])) (seq (S n) (length r))
                = filter (fun i => kv k v (nth (i - S n) r [])) (seq (S n) (length r))).
    { apply filter_ext_in. intros i Hi. apply in_seq in Hi.
      replace (i - n) with (S (i - S n)) by lia. reflexivity. }
    rewrite E, Nat.sub_diag. change (nth 0 (it :: r) []) with it.
    destruct (kv k v it); reflexivity.
Qed.

(* ---------- an index that represents the positions S of lod ---------- *)
Definition idx_wf (idx : index) : Prop :=
  NoDup (map fst idx) /\
  forall k vals, get keqb k idx = Some vals ->
    NoDup (map fst vals) /\ Forall (fun vp => snd vp <> []) vals.

Definition rep (idx : index) (S : list nat) : Prop :=
  (forall k v, lookup idx k v = posl S k v) /\ idx_wf idx.

Lemma idx_wf_add k v i idx : idx_wf idx -> idx_wf (idx_add k v i idx).
Proof.
  intros [W1 W2]. unfold C17.Model.idx_add. split.
  - apply (set_NoDup keqb keqb_spec). exact W1.
  - intros k' vals'. rewrite (get_set keqb keqb_spec). destruct (keqb k' k) eqn:Ek.
    + apply keqb_spec in Ek. subst k'. intros [= <-].
      destruct (get keqb k idx) as [vals|] eqn:Eg.
      * destruct (W2 k vals Eg) as [N1 N2]. split; [apply (set_NoDup veqb veqb_spec); exact N1|].
        apply (Forall_set veqb); [exact N2|]. intros ?. cbn. destruct (get veqb v vals); [destruct l|]; discriminate.
      * split; cbn; [constructor; [intros []|constructor]|]. constructor; [cbn; discriminate|constructor].
    + apply W2.
Qed.

Lemma idx_wf_add_all i (it : dict) : forall idx, idx_wf idx -> idx_wf (add_all i it idx).
Proof.
  unfold C18.Model.add_all. induction it as [|[k v] r IH]; intros idx W; cbn [fold_left]; [exact W|].
  apply IH. now apply idx_wf_add.
Qed.

Lemma idx_wf_build (l : list dict) : forall n idx, idx_wf idx -> idx_wf (build_all n l idx).
Proof.
  induction l as [|it r IH]; intros n idx W; cbn [C18.Model.build_all]; [exact W|].
  apply IH. now apply idx_wf_add_all.
Qed.

Lemma rep_build : rep (build_all 0 lod []) (seq 0 (length lod)).
Proof.
  split.
  - intros k v. rewrite lookup_build_all by exact lod_dicts. cbn [app]. unfold posl.
    change (lookup [] k v) with (@nil nat). cbn [app]. apply filter_ext. intros i.
    unfold item_at. now rewrite Nat.sub_0_r.
  - apply idx_wf_build. split; [constructor|]. intros k vals. cbn. discriminate.
Qed.

Lemma isnil_false {A} (l : list A) : negb (isnil l) = true <-> l <> [].
Proof. destruct l; cbn; split; congruence. Qed.

Lemma lookup_keep_only idx T k v :
  idx_wf idx -> lookup (keep_only idx T) k v = inter (lookup idx k v) T.
Proof.
  intros [W1 W2]. unfold C17.Model.lookup, C18.Model.keep_only.
  rewrite (get_filter_map keqb keqb_spec (keep_vals T) (fun x => negb (isnil x))) by exact W1.
  destruct (get keqb k idx) as [vals|] eqn:Eg; [|reflexivity].
  destruct (W2 k vals Eg) as [N1 _].
  assert (Ev : get veqb v (keep_vals T vals)
               = match get veqb v vals with
                 | Some ps => if negb (isnil (inter ps T)) then Some (inter ps T) else None
                 | None => None
                 end).
  { unfold keep_vals. apply (get_filter_map veqb veqb_spec (fun ps => inter ps T) (fun x => negb (isnil x))).
    exact N1. }
  destruct (negb (isnil (keep_vals T vals))) eqn:En.
  - rewrite Ev. destruct (get veqb v vals) as [ps|]; [|reflexivity].
    destruct (inter ps T); reflexivity.
  - assert (Hnil : keep_vals T vals = []) by (destruct (keep_vals T vals); [reflexivity|discriminate]).
    rewrite Hnil in Ev. cbn in Ev. destruct (get veqb v vals) as [ps|]; [|reflexivity].
    destruct (inter ps T); [reflexivity|discriminate].
Qed.

Lemma idx_wf_keep_only idx T : idx_wf idx -> idx_wf (keep_only idx T).
Proof.
  intros [W1 W2]. split.
  - unfold C18.Model.keep_only. apply (NoDup_filter_map_keys (keep_vals T) (fun x => negb (isnil x))). exact W1.
  - intros k vals'. unfold C18.Model.keep_only.
    rewrite (get_filter_map keqb keqb_spec (keep_vals T) (fun x => negb (isnil x))) by exact W1.
    destruct (get keqb k idx) as [vals|] eqn:Eg; [|discriminate].
    destruct (negb (isnil (keep_vals T vals))); [|discriminate]. intros [= <-].
    destruct (W2 k vals Eg) as [N1 _]. split.
    + unfold keep_vals. apply (NoDup_filter_map_keys (fun ps => inter ps T) (fun x => negb (isnil x))). exact N1.
    + unfold keep_vals. apply Forall_forall. intros vp Hin. apply filter_In in Hin.
      apply isnil_false. tauto.
Qed.

Lemma mem_filter_in (Q : nat -> bool) S i : In i S -> mem i (filter Q S) = Q i.
Proof.
  intros Hi. apply eq_true_iff_eq. rewrite mem_spec, filter_In. tauto.
Qed.

Lemma rep_keep_only idx S l lab :
  rep idx S -> rep (keep_only idx (posl S l lab)) (posl S l lab).
Proof.
  intros [R W]. split; [|now apply idx_wf_keep_only].
  intros k v. rewrite lookup_keep_only by exact W. rewrite R. unfold inter, posl.
  rewrite !filter_filter. apply filter_ext_in. intros i Hi.
  rewrite (mem_filter_in _ S i Hi). apply andb_comm.
Qed.

(* entries of a value table are the lookups *)
Lemma vals_entries idx S l vals v ps :
  rep idx S -> get keqb l idx = Some vals -> In (v, ps) vals -> ps = posl S l v.
Proof.
  intros [R [_ W2]] Eg Hin. destruct (W2 l vals Eg) as [N1 _].
  rewrite <- R. unfold C17.Model.lookup. rewrite Eg.
  now rewrite (In_get veqb veqb_spec v ps vals N1 Hin).
Qed.

(* ---------- what each row says ---------- *)
Lemma kv_posl_filter (S : list nat) l v (P : nat -> bool) :
  filter P (posl S l v) = filter (fun i => kv l v (item_at i) && P i) S.
Proof. unfold posl. apply filter_filter. Qed.

Theorem row_spec rok rko : forall labels idx S plab row,
  rep idx S -> In row (rloop idx labels rok rko plab) ->
  exists vs, r_labels row = plab ++ vs /\ length vs = length labels /\
    let T := filter (fun i => matchl (combine labels vs) (item_at i)) S in
    r_total row = length T /\ r_ok row = length (inter T rok) /\ r_ko row = length (inter T rko).
Proof.
  induction labels as [|l rest IH]; intros idx S plab row R Hin; cbn [C18.Model.rloop] in Hin; [contradiction|].
  destruct (get keqb l idx) as [vals|] eqn:Eg; [|contradiction].
  destruct rest as [|l2 rest'].
  - apply in_map_iff in Hin. destruct Hin as ([v ps] & <- & Hvp). cbn [fst snd].
    pose proof (vals_entries idx S l vals v ps R Eg Hvp) as ->.
    exists [v]. split; [reflexivity|]. split; [reflexivity|]. cbn [combine r_total r_ok r_ko].
    assert (E : filter (fun i => matchl [(l, v)] (item_at i)) S = posl S l v).
    { unfold posl. apply filter_ext. intros i. unfold matchl. cbn. apply andb_true_r. }
    cbv zeta. rewrite E. auto.
  - apply in_flat_map in Hin. destruct Hin as ([v ps] & Hvp & Hrow). cbn [fst snd] in Hrow.
    pose proof (vals_entries idx S l vals v ps R Eg Hvp) as ->.
    destruct (IH _ _ _ _ (rep_keep_only idx S l v R) Hrow) as (vs & E1 & E2 & E3).
    exists (v :: vs). split; [rewrite E1, <- app_assoc; reflexivity|]. split; [cbn; now rewrite E2|].
    cbv zeta in *. rewrite kv_posl_filter in E3.
    assert (E : filter (fun i => matchl (combine (l :: l2 :: rest') (v :: vs)) (item_at i)) S
                = filter (fun i => kv l v (item_at i) && matchl (combine (l2 :: rest') vs) (item_at i)) S).
    { apply filter_ext. intros i. reflexivity. }
    rewrite E. exact E3.
Qed.

(* ---------- the totals partition the results that carry all labels ---------- *)
Definition sumf {A} (f : A -> nat) (l : list A) : nat := fold_right (fun x a => f x + a) 0 l.

Lemma sum_total_app (a b : list (row V)) : sum_total (a ++ b) = sum_total a + sum_total b.
Proof. unfold sum_total. induction a as [|r rs IH]; cbn; [reflexivity|]. rewrite IH. lia. Qed.

Lemma sum_total_flat_map {A} (f : A -> list (row V)) l :
  sum_total (flat_map f l) = sumf (fun x => sum_total (f x)) l.
Proof.
  induction l as [|a l IH]; [reflexivity|]. cbn [flat_map]. rewrite sum_total_app, IH. reflexivity.
Qed.

Lemma sum_total_map {A} (f : A -> row V) l : sum_total (map f l) = sumf (fun x => r_total (f x)) l.
Proof.
  induction l as [|a l IH]; [reflexivity|]. cbn [map]. change (f a :: map f l) with ([f a] ++ map f l).
  rewrite sum_total_app, IH. unfold sum_total at 1. cbn. unfold sumf. cbn. lia.
Qed.

Lemma sumf_ext_in {A} (f g : A -> nat) l : (forall x, In x l -> f x = g x) -> sumf f l = sumf g l.
Proof.
  induction l as [|a l IH]; intros H; [reflexivity|]. unfold sumf in *. cbn [fold_right].
  rewrite (H a) by now left. rewrite IH; [reflexivity|]. intros x Hx. apply H. now right.
Qed.

Lemma partition_by_values (S : list nat) l (R : nat -> bool) (vs : list V) :
  NoDup vs ->
  sumf (fun v => length (filter R (posl S l v))) vs
  = length (filter (fun i => R i && existsb (fun v => kv l v (item_at i)) vs) S).
Proof.
  induction vs as [|v vs IH]; intros ND; cbn [sumf fold_right existsb].
  - rewrite (filter_false_aux _ S); [reflexivity|]. intros. apply andb_false_r.
  - inversion ND; subst. fold (sumf (fun v => length (filter R (posl S l v))) vs). rewrite IH by assumption.
    rewrite kv_posl_filter. rewrite count_disjoint.
    + f_equal. apply filter_ext. intros i. destruct (R i), (kv l v (item_at i)); reflexivity.
    + intros i _. destruct (kv l v (item_at i)) eqn:E1; [|reflexivity]. cbn.
      destruct (R i); [|reflexivity]. cbn. apply not_true_is_false. intros Hex.
      apply existsb_exists in Hex. destruct Hex as (v' & Hv' & E2).
      unfold kv in E1, E2. destruct (get keqb l (item_at i)); [|discriminate].
      apply veqb_spec in E1, E2. subst. contradiction.
Qed.

Lemma partition_by_label idx S l vals (R : nat -> bool) :
  rep idx S -> get keqb l idx = Some vals ->
  sumf (fun vp => length (filter R (snd vp))) vals
  = length (filter (fun i => has keqb l (item_at i) && R i) S).
Proof.
  intros Rp Eg. destruct Rp as [RL [W1 W2]]. destruct (W2 l vals Eg) as [N1 N2].
  transitivity (sumf (fun v => length (filter R (posl S l v))) (map fst vals)).
  - assert (E : forall vp, In vp vals -> snd vp = posl S l (fst vp)).
    { intros [v ps] Hin. cbn. apply (vals_entries idx S l vals v ps); [split; [exact RL|split; assumption]|exact Eg|exact Hin]. }
    clear -E. induction vals as [|vp r IH]; cbn; [reflexivity|].
    rewrite <- (E vp) by now left. f_equal. apply IH. intros x Hx. apply E. now right.
  - rewrite partition_by_values by exact N1. f_equal. apply filter_ext_in. intros i Hi.
    rewrite andb_comm. f_equal.
    unfold has. destruct (get keqb l (item_at i)) as [v'|] eqn:Egi.
    + (* the value of item i is one of the listed values *)
      assert (Hin : In i (posl S l v')).
      { unfold posl. apply filter_In. split; [exact Hi|]. unfold kv. rewrite Egi. now apply veqb_spec. }
      rewrite <- RL in Hin. unfold C17.Model.lookup in Hin. rewrite Eg in Hin.
      destruct (get veqb v' vals) as [ps|] eqn:Ev; [|contradiction].
      destruct (get_In veqb v' ps vals Ev) as (v'' & E1 & E2). apply veqb_spec in E1. subst v''.
      apply existsb_exists. exists v'. split.
      * change v' with (fst (v', ps)). now apply in_map.
      * unfold kv. rewrite Egi. now apply veqb_spec.
    + apply not_true_is_false. intros Hex. apply existsb_exists in Hex.
      destruct Hex as (v & _ & E). unfold kv in E. rewrite Egi in E. discriminate.
Qed.

Lemma no_key_no_carrier idx S l :
  rep idx S -> get keqb l idx = None -> forall i, In i S -> has keqb l (item_at i) = false.
Proof.
  intros [RL _] Eg i Hi. unfold has. destruct (get keqb l (item_at i)) as [v|] eqn:E; [|reflexivity].
  exfalso. assert (Hin : In i (posl S l v)).
  { unfold posl. apply filter_In. split; [exact Hi|]. unfold kv. rewrite E. now apply veqb_spec. }
  rewrite <- RL in Hin. unfold C17.Model.lookup in Hin. now rewrite Eg in Hin.
Qed.

Theorem totals_partition rok rko : forall labels idx S plab,
  labels <> [] -> rep idx S ->
  sum_total (rloop idx labels rok rko plab)
  = length (filter (fun i => carries labels (item_at i)) S).
Proof.
  induction labels as [|l rest IH]; intros idx S plab NE R; [congruence|]. cbn [C18.Model.rloop].
  destruct (get keqb l idx) as [vals|] eqn:Eg.
  - destruct rest as [|l2 rest'].
    + rewrite sum_total_map. cbn [r_total].
      rewrite (sumf_ext_in _ (fun vp => length (filter (fun _ => true) (snd vp)))).
      * rewrite (partition_by_label idx S l vals (fun _ => true) R Eg). f_equal.
      * intros vp _. f_equal. clear. induction (snd vp) as [|a r IHr]; cbn; [reflexivity|now rewrite <- IHr].
    + rewrite sum_total_flat_map.
      rewrite (sumf_ext_in _ (fun vp => length (filter (fun i => carries (l2 :: rest') (item_at i)) (snd vp)))).
      * rewrite (partition_by_label idx S l vals _ R Eg). f_equal.
      * intros [v ps] Hin. cbn [fst snd].
        pose proof (vals_entries idx S l vals v ps R Eg Hin) as ->.
        apply IH; [discriminate|]. now apply rep_keep_only.
  - cbn. symmetry. rewrite (filter_false_aux _ S); [reflexivity|]. intros i Hi.
    unfold carries. cbn. now rewrite (no_key_no_carrier idx S l R Eg i Hi).
Qed.

End Labels.

(* ---------- the evaluation of TestStatsTestsByLabels ---------- *)
Section Final.
Context {K V Nm F : Type}.
Variable keqb : K -> K -> bool.
Variable veqb : V -> V -> bool.
Hypothesis keqb_spec : forall a b, keqb a b = true <-> a = b.
Hypothesis veqb_spec : forall a b, veqb a b = true <-> a = b.
Variable k_name k_result : K.
Variable v_succ v_fail : V.
Variable vname : Nm -> V.
Hypothesis succ_fail : v_succ <> v_fail.

Notation task := (Nm * option (list (item K V Nm F)))%type.
Notation labels_lod := (labels_lod (F := F) keqb k_name k_result v_succ v_fail vname).
Notation evaluate_by_labels := (evaluate_by_labels (F := F) keqb veqb k_name k_result v_succ v_fail vname).

Definition item_dicts (it : item K V Nm F) : Prop :=
  match it with TR _ _ _ labs => NoDup (map fst labs) | NotATest => True end.
Definition tasks_dicts (tasks : list task) : Prop :=
  Forall (fun t => match snd t with Some items => Forall item_dicts items | None => True end) tasks.

Definition lod_ok (it : list (K * V)) : Prop :=
  NoDup (map fst it) /\ (get keqb k_result it = Some v_succ \/ get keqb k_result it = Some v_fail).

Lemma lod_all_ok tasks : tasks_dicts tasks -> Forall lod_ok (labels_lod tasks).
Proof.
  intros HD. unfold tasks_dicts in HD. unfold C18.Model.labels_lod. apply Forall_forall. intros it Hin.
  apply in_flat_map in Hin. destruct Hin as ([tn r] & Ht & Hin). cbn [snd] in Hin.
  rewrite Forall_forall in HD. specialize (HD _ Ht). cbn [snd] in HD.
  destruct r as [items|]; [|contradiction].
  apply in_flat_map in Hin. destruct Hin as (x & Hx & Hin). rewrite Forall_forall in HD. specialize (HD _ Hx).
  destruct x as [|v n f labs]; [contradiction|]. cbn in Hin. destruct Hin as [<-|[]]. cbn in HD. split.
  - apply (set_NoDup keqb keqb_spec), (set_NoDup keqb keqb_spec), HD.
  - rewrite (get_set_same keqb keqb_spec). destruct v; auto.
Qed.

Lemma filter_true_aux {A} (P : A -> bool) l : (forall x, In x l -> P x = true) -> filter P l = l.
Proof.
  induction l as [|a l IH]; cbn; intros H; [reflexivity|].
  rewrite (H a) by now left. f_equal. apply IH. intros x Hx. apply H. now right.
Qed.

(* THEOREM by_labels_is_groupby *)
Theorem by_labels_is_groupby (tasks : list task) (by_labels : list K) rows n :
  tasks_dicts tasks ->
  evaluate_by_labels tasks by_labels = Ok (rows, n) ->
  let lod := labels_lod tasks in
  let all := seq 0 (length lod) in
  let at_ i := nth i lod [] in
  n = length lod /\
  (forall row, In row rows ->
     length (r_labels row) = length by_labels /\
     let T := filter (fun i => matchl keqb veqb (combine by_labels (r_labels row)) (at_ i)) all in
     r_total row = length T /\
     r_ok row = length (filter (fun i => kv keqb veqb k_result v_succ (at_ i)) T) /\
     r_ko row = length (filter (fun i => kv keqb veqb k_result v_fail (at_ i)) T) /\
     r_ok row + r_ko row = r_total row) /\
  sum_total rows = length (filter (fun i => carries keqb by_labels (at_ i)) all) /\
  sum_total rows + nb_missing_labels n rows = n.
Proof.
  intros HD. unfold C18.Model.evaluate_by_labels.
  destruct (negb _); [discriminate|]. destruct by_labels as [|l0 rest] eqn:EL; [discriminate|].
  rewrite <- EL. intros [= <- <-]. cbv zeta.
  set (lod := labels_lod tasks). set (all := seq 0 (length lod)).
  pose proof (lod_all_ok tasks HD) as HOK. fold lod in HOK.
  assert (HDl : Forall (fun it => NoDup (map fst it)) lod).
  { eapply Forall_impl; [|exact HOK]. intros it [H _]. exact H. }
  pose proof (rep_build keqb veqb keqb_spec veqb_spec lod HDl) as R. fold all in R.
  set (idx := build_all keqb veqb 0 lod []) in *.
  assert (NE : by_labels <> []) by (rewrite EL; discriminate).
  pose proof (totals_partition keqb veqb keqb_spec veqb_spec lod
                (lookup keqb veqb idx k_result v_succ) (lookup keqb veqb idx k_result v_fail)
                by_labels idx all [] NE R) as HT.
  unfold item_at in HT.
  assert (Hle : length (filter (fun i => carries keqb by_labels (nth i lod [])) all) <= length lod).
  { etransitivity; [apply filter_length_le_aux|]. unfold all. now rewrite seq_length. }
  split; [reflexivity|]. split; [|split; [exact HT|unfold nb_missing_labels; lia]].
  intros row Hrow.
  destruct (row_spec keqb veqb keqb_spec veqb_spec lod _ _ by_labels idx all [] row R Hrow)
    as (vs & E1 & E2 & E3 & E4 & E5).
  cbn [app] in E1. rewrite E1. split; [exact E2|]. unfold item_at in *.
  set (T := filter (fun i => matchl keqb veqb (combine by_labels vs) (nth i lod [])) all) in *.
  assert (HTall : forall i, In i T -> In i all) by (intros i Hi; apply filter_In in Hi; tauto).
  destruct R as [RL _].
  assert (Eok : inter T (lookup keqb veqb idx k_result v_succ)
                = filter (fun i => kv keqb veqb k_result v_succ (nth i lod [])) T).
  { unfold inter. apply filter_ext_in. intros i Hi. rewrite RL. unfold posl, item_at.
    apply mem_filter_in. now apply HTall. }
  assert (Eko : inter T (lookup keqb veqb idx k_result v_fail)
                = filter (fun i => kv keqb veqb k_result v_fail (nth i lod [])) T).
  { unfold inter. apply filter_ext_in. intros i Hi. rewrite RL. unfold posl, item_at.
    apply mem_filter_in. now apply HTall. }
  rewrite Eok in E4. rewrite Eko in E5. split; [exact E3|]. split; [exact E4|]. split; [exact E5|].
  rewrite E3, E4, E5, count_disjoint.
  - f_equal. apply filter_true_aux. intros i Hi. apply HTall in Hi. unfold all in Hi. apply in_seq in Hi.
    rewrite Forall_forall in HOK. destruct (HOK (nth i lod []) (nth_In _ _ (proj2 Hi))) as [_ [H|H]];
      unfold kv; rewrite H.
    + rewrite (proj2 (veqb_spec v_succ v_succ) eq_refl). reflexivity.
    + rewrite (proj2 (veqb_spec v_fail v_fail) eq_refl). apply orb_true_r.
  - intros i _. unfold kv. destruct (get keqb k_result (nth i lod [])) as [v|]; [|reflexivity].
    destruct (veqb v_succ v) eqn:E6; [|reflexivity]. apply veqb_spec in E6. subst v. cbn.
    apply not_true_is_false. intros E7. apply veqb_spec in E7. congruence.
Qed.

(* the by-labels summary is successful exactly when no row has a failure *)
Theorem by_labels_successful_iff (rows : list (row V)) :
  (forall r, In r rows -> r_ok r + r_ko r = r_total r) ->
  verdict_bl rows = forallb (fun r => Nat.eqb (r_ko r) 0) rows.
Proof.
  intros H. unfold verdict_bl, oracles. rewrite forallb_map_aux. apply forallb_ext_in_aux.
  intros r Hr. specialize (H r Hr). destruct (Nat.eqb_spec (r_ok r) (r_total r)), (Nat.eqb_spec (r_ko r) 0);
    try reflexivity; lia.
Qed.
End Final.

(* the statements of Props/C18.v that combine several lemmas *)
Lemma each_result_once_full :
  forall (K V Nm F : Type) (tasks : list (Nm * option (list (item K V Nm F)))),
  ((forall o : nat,
      look Nat.eqb o (classify_tests tasks) =
      map snd (filter (fun ob : nat * entry => Nat.eqb o (fst ob)) (observations tasks))) /\
   total (classify_tests tasks) = length (observations tasks) /\ wf_classes (classify_tests tasks)) /\
  length (observations tasks) = n_items tasks.
Proof. intros. split; [apply each_result_once | apply observations_length]. Qed.

Lemma summary_successful_iff_all_succeeded :
  (forall (S Nm : Type) (seqb : S -> S -> bool),
   (forall a b : S, seqb a b = true <-> a = b) ->
   forall (ts : list (Nm * S)) (done : S),
   verdict seqb done (classify_tasks seqb ts) = forallb (fun t : Nm * S => seqb (snd t) done) ts) /\
  (forall (K V Nm F : Type) (tasks : list (Nm * option (list (item K V Nm F)))),
   verdict Nat.eqb 0 (classify_tests tasks) = all_succeeded tasks) /\
  (forall (V : Type) (rows : list (row V)),
   (forall r : row V, In r rows -> r_ok r + r_ko r = r_total r) ->
   verdict_bl rows = forallb (fun r : row V => Nat.eqb (r_ko r) 0) rows).
Proof.
  split; [exact @tasks_summary_successful_iff|].
  split; [exact @tests_summary_successful_iff | exact @by_labels_successful_iff].
Qed.

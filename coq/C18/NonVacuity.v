(* concrete, non-trivial data for the C18 theorems; the unfixed verdict of an
   empty summary *)
From Coq Require Import List ZArith Bool Arith Lia.
From VV Require Import Lib.Base C17.LibDict C17.Model C18.Model C18.Proofs C18.ProofsLabels.
Import ListNotations.
Open Scope Z_scope.

(* labels: 0 '_test_name', 1 '_result', 2 'day', 3 'meal' *)
Definition t (v : bool) (n : Z) (labs : list (Z * pv)) : zitem18 := TR v n (100 + n) labs.
Definition menu : list (Z * option (list zitem18)) :=
  [ (1000, Some [t true 10 [(2, H 50); (3, H 60)]; t false 11 [(2, H 50); (3, H 61)]]);
    (1001, None);
    (1002, Some [t true 12 [(2, H 50)]; NotATest; t true 13 [(2, H 51)]]) ].

Example menu_dicts : tasks_dicts menu.
Proof. repeat constructor; cbn; intuition discriminate. Qed.

Example menu_by_day_meal :
  zeval menu [2; 3]
  = Ok ([mk_row [H 50; H 60] 1 0 1; mk_row [H 50; H 61] 0 1 1], 4%nat).
Proof. vm_compute. reflexivity. Qed.

Example menu_by_day :
  zeval menu [2] = Ok ([mk_row [H 50] 2 1 3; mk_row [H 51] 1 0 1], 4%nat).
Proof. vm_compute. reflexivity. Qed.

Example menu_missing :
  nb_missing_labels 4 [mk_row [H 50; H 60] 1 0 1; mk_row [H 50; H 61] 0 1 1] = 2%nat.
Proof. reflexivity. Qed.

Example menu_absent_label : zeval menu [9] = Raise 0%nat.
Proof. vm_compute. reflexivity. Qed.

Example menu_tests :
  classify_tests menu
  = [(0%nat, [(10, Some 110); (12, Some 112); (13, Some 113)]); (1%nat, [(11, Some 111)]);
     (2%nat, [(1001, None)]); (3%nat, [(1002, None)])].
Proof. vm_compute. reflexivity. Qed.

(* the verdict as it was before the fix: "the success key is the only key" *)
Definition verdict_unfixed (d : list (nat * list Z)) : bool :=
  has Nat.eqb 2%nat d && Nat.eqb (length d) 1.
Example empty_summary_refuted :
  verdict_unfixed (classify_tasks Nat.eqb []) = false
  /\ forallb (fun t : Z * nat => Nat.eqb (snd t) 2) [] = true
  /\ verdict Nat.eqb 2%nat (classify_tasks (Nm := Z) Nat.eqb []) = true.
Proof. repeat split. Qed.

(* C14 — proofs, part 3: the round trip  dec (enc v) = v. *)
From Coq Require Import List ZArith NArith Bool Arith Lia.
From VV Require Import C14.Model C14.Proofs.
Import ListNotations.
Open Scope N_scope.

Notation vrun := (run st value shape_of vexec).

Definition pushv (v : value) (s : st) : st := mkst (IV v :: stk s) (memo s) (mcnt s).

(* ---------------- induction principle for the nested value type ---------------- *)
Section ValueInd.
  Variable P : value -> Prop.
  Hypothesis HNone : P VNone.
  Hypothesis HBool : forall b, P (VBool b).
  Hypothesis HInt : forall z, P (VInt z).
  Hypothesis HFloat : forall x, P (VFloat x).
  Hypothesis HStr : forall s, P (VStr s).
  Hypothesis HBytes : forall s, P (VBytes s).
  Hypothesis HList : forall l, Forall P l -> P (VList l).
  Hypothesis HTuple : forall l, Forall P l -> P (VTuple l).
  Hypothesis HDict : forall l, Forall (fun kv => P (fst kv) /\ P (snd kv)) l -> P (VDict l).
  Hypothesis HGlobal : forall m n, P (VGlobal m n).
  Hypothesis HObj : forall c a s, P c -> P a -> (forall x, s = Some x -> P x) -> P (VObj c a s).
  Hypothesis HReduce : forall f a, P f -> P a -> P (VReduce f a).

  Fixpoint value_ind' (v : value) : P v :=
    match v with
    | VNone => HNone
    | VBool b => HBool b
    | VInt z => HInt z
    | VFloat x => HFloat x
    | VStr s => HStr s
    | VBytes s => HBytes s
    | VList l => HList l ((fix go (l : list value) : Forall P l :=
                             match l with
                             | [] => Forall_nil _
                             | x :: r => Forall_cons _ (value_ind' x) (go r)
                             end) l)
    | VTuple l => HTuple l ((fix go (l : list value) : Forall P l :=
                               match l with
                               | [] => Forall_nil _
                               | x :: r => Forall_cons _ (value_ind' x) (go r)
                               end) l)
    | VDict l => HDict l ((fix go (l : list (value * value)) :
                             Forall (fun kv => P (fst kv) /\ P (snd kv)) l :=
                             match l with
                             | [] => Forall_nil _
                             | kv :: r => Forall_cons _ (conj (value_ind' (fst kv)) (value_ind' (snd kv))) (go r)
                             end) l)
    | VGlobal m n => HGlobal m n
    | VObj c a s => HObj c a s (value_ind' c) (value_ind' a)
                      (fun x E => match s as s0 return s0 = Some x -> P x with
                                  | Some y => fun E' => match E' in _ = o return
                                                          match o with Some z => P z | None => True end
                                                        with eq_refl => value_ind' y end
                                  | None => fun E' => match E' in _ = o return
                                                        match o with Some z => P z | None => True end
                                                      with eq_refl => I end
                                  end E)
    | VReduce f a => HReduce f a (value_ind' f) (value_ind' a)
    end.
End ValueInd.

(* ---------------- bytes and numbers ---------------- *)

Lemma takeN_exact p r : takeN (p ++ r) (N.of_nat (length p)) = Some (p, r).
Proof.
  induction p as [|x p IH]; cbn [app length]; rewrite takeN_eq.
  - reflexivity.
  - replace (N.eqb (N.of_nat (S (length p))) 0) with false by (symmetry; apply N.eqb_neq; lia).
    replace (N.pred (N.of_nat (S (length p)))) with (N.of_nat (length p)) by lia.
    rewrite IH. reflexivity.
Qed.

Lemma le_bytes_length k : forall n, length (le_bytes k n) = k.
Proof. induction k as [|k IH]; intros n; cbn; [reflexivity | rewrite IH; reflexivity]. Qed.

Lemma le_le_bytes k : forall n, n < 256 ^ N.of_nat k -> le (le_bytes k n) = n.
Proof.
  induction k as [|k IH]; intros n H.
  - cbn in *. lia.
  - cbn [le_bytes le]. rewrite IH.
    + rewrite N.add_comm, N.mul_comm. symmetry. rewrite N.mul_comm. apply N.div_mod. lia.
    + rewrite Nat2N.inj_succ, N.pow_succ_r' in H.
      apply N.div_lt_upper_bound; [lia | exact H].
Qed.

Lemma read_cnt (k : nat) data rest :
  N.of_nat (length data) < 256 ^ N.of_nat k ->
  read_arg (SCnt (N.of_nat k)) (le_bytes k (N.of_nat (length data)) ++ data ++ rest) = Got (data, rest).
Proof.
  intros H. cbn [read_arg].
  pose proof (takeN_exact (le_bytes k (N.of_nat (length data))) (data ++ rest)) as E.
  rewrite le_bytes_length in E. rewrite E.
  rewrite (le_le_bytes _ _ H), takeN_exact. reflexivity.
Qed.

Lemma read_cnt4 data rest :
  N.of_nat (length data) < 2 ^ 32 ->
  read_arg (SCnt 4) (len4 data ++ data ++ rest) = Got (data, rest).
Proof. intros H. apply (read_cnt 4). exact H. Qed.

Lemma read_fix (data rest : list N) :
  read_arg (SFix (N.of_nat (length data))) (data ++ rest) = Got (data, rest).
Proof. cbn [read_arg]. rewrite takeN_exact. reflexivity. Qed.

Lemma be_be_bytes k n : n < 256 ^ N.of_nat k -> be (be_bytes k n) = n.
Proof. intros H. unfold be, be_bytes. rewrite rev_involutive. apply le_le_bytes. exact H. Qed.

(* two's complement *)
Lemma int_len_bound z : (- 2 ^ (Z.of_nat (8 * int_len z) - 1) <= z < 2 ^ (Z.of_nat (8 * int_len z) - 1))%Z.
Proof.
  unfold int_len.
  set (a := Z.abs z).
  assert (Ha : (0 <= a)%Z) by (unfold a; lia).
  set (q := (Z.log2 a / 8)%Z).
  assert (Hq : (0 <= q)%Z) by (unfold q; apply Z.div_pos; [apply Z.log2_nonneg | lia]).
  assert (Hk : Z.of_nat (8 * S (Z.to_nat (q + 1))) = (8 * q + 16)%Z) by lia.
  rewrite Hk.
  assert (Hlog : (Z.log2 a < 8 * q + 8)%Z).
  { unfold q. pose proof (Z.mod_pos_bound (Z.log2 a) 8 ltac:(lia)).
    pose proof (Z.div_mod (Z.log2 a) 8 ltac:(lia)). lia. }
  assert (Hpow : (a < 2 ^ (8 * q + 8))%Z).
  { destruct (Z.eq_dec a 0) as [->|Hne].
    - apply Z.pow_pos_nonneg; lia.
    - assert (0 < a)%Z by lia.
      pose proof (Z.log2_spec a H) as [_ Hs].
      eapply Z.lt_le_trans; [exact Hs|]. apply Z.pow_le_mono_r; lia. }
  assert (Hmono : (2 ^ (8 * q + 8) <= 2 ^ (8 * q + 16 - 1))%Z) by (apply Z.pow_le_mono_r; lia).
  unfold a in *. lia.
Qed.

Lemma signed_int_bytes z : signed (int_bytes z) = z.
Proof.
  unfold signed, int_bytes.
  set (k := int_len z).
  assert (Hk1 : (1 <= k)%nat) by (unfold k, int_len; lia).
  set (B := Z.of_nat (8 * k)).
  assert (HB : (0 < B)%Z) by (unfold B; lia).
  assert (Hpos : (0 < 2 ^ B)%Z) by (apply Z.pow_pos_nonneg; lia).
  pose proof (Z.mod_pos_bound z (2 ^ B) Hpos) as Hm.
  rewrite le_bytes_length.
  rewrite le_le_bytes.
  2:{ replace 256 with (2 ^ 8) by reflexivity. rewrite <- N.pow_mul_r.
      apply N2Z.inj_lt. rewrite Z2N.id by lia. rewrite N2Z.inj_pow.
      replace (Z.of_N (8 * N.of_nat k)) with B
        by (unfold B; rewrite N2Z.inj_mul, nat_N_Z, Nat2Z.inj_mul; reflexivity).
      change (Z.of_N 2) with 2%Z. lia. }
  rewrite Z2N.id by lia.
  fold B.
  replace (B =? 0)%Z with false by (symmetry; apply Z.eqb_neq; lia).
  pose proof (int_len_bound z) as Hb. fold k in Hb. fold B in Hb.
  assert (Hhalf : (2 ^ B = 2 * 2 ^ (B - 1))%Z).
  { replace B with (Z.succ (B - 1)) at 1 by lia. apply Z.pow_succ_r. lia. }
  destruct (Z_lt_le_dec z 0) as [Hneg|Hnn].
  - assert (E : (z mod 2 ^ B = z + 2 ^ B)%Z).
    { symmetry. apply Z.mod_unique with (q := (-1)%Z); lia. }
    rewrite E. replace (z + 2 ^ B <? 2 ^ (B - 1))%Z with false by (symmetry; apply Z.ltb_ge; lia). lia.
  - rewrite Z.mod_small by lia.
    replace (z <? 2 ^ (B - 1))%Z with true by (symmetry; apply Z.ltb_lt; lia). reflexivity.
Qed.

(* ---------------- sizes the encoder can express ---------------- *)

Inductive wf : value -> Prop :=
| wf_none : wf VNone
| wf_bool b : wf (VBool b)
| wf_int z : N.of_nat (int_len z) < 2 ^ 32 -> wf (VInt z)
| wf_float x : x < 2 ^ 64 -> wf (VFloat x)
| wf_str s : N.of_nat (length s) < 2 ^ 32 -> wf (VStr s)
| wf_bytes s : N.of_nat (length s) < 2 ^ 32 -> wf (VBytes s)
| wf_list l : Forall wf l -> wf (VList l)
| wf_tuple l : Forall wf l -> wf (VTuple l)
| wf_dict l : Forall (fun kv => wf (fst kv) /\ wf (snd kv)) l -> wf (VDict l)
| wf_global m n : N.of_nat (length m) < 2 ^ 32 -> N.of_nat (length n) < 2 ^ 32 -> wf (VGlobal m n)
| wf_obj c a s : wf c -> wf a -> (forall x, s = Some x -> wf x) -> wf (VObj c a s)
| wf_reduce f a : wf f -> wf a -> wf (VReduce f a).

(* ---------------- single steps of the value machine ---------------- *)

Lemma vstep f s op b1 sh arg b2 s' :
  shape_of op = Some sh -> read_arg sh b1 = Got (arg, b2) -> vexec op arg s = Go s' ->
  vrun (S f) s (op :: b1) = vrun f s' b2.
Proof. intros H1 H2 H3. cbn [run]. rewrite H1, H2, H3. reflexivity. Qed.

Lemma vstep0 f s op b1 s' :
  shape_of op = Some S0 -> vexec op [] s = Go s' -> vrun (S f) s (op :: b1) = vrun f s' b1.
Proof. intros H1 H3. apply (vstep f s op b1 S0 [] b1 s' H1 eq_refl H3). Qed.

(* the property proved by induction: encoding v pushes v *)
Definition pushes (v : value) : Prop :=
  exists n, forall f s rest, vrun (n + f) s (enc_v v ++ rest) = vrun f (pushv v s) rest.

Definition push_all (l : list value) (s : st) : st :=
  mkst (rev (map IV l) ++ stk s) (memo s) (mcnt s).

Lemma pushes_seq l : Forall pushes l ->
  exists n, forall f s rest, vrun (n + f) s (flat_map enc_v l ++ rest) = vrun f (push_all l s) rest.
Proof.
  induction 1 as [|v l [n Hn] _ [m Hm]].
  - exists O. intros f s rest. cbn. destruct s; reflexivity.
  - exists (n + m)%nat. intros f s rest. cbn [flat_map]. rewrite <- app_assoc.
    rewrite <- Nat.add_assoc, Hn, Hm. f_equal.
    unfold push_all, pushv. cbn. rewrite <- app_assoc. reflexivity.
Qed.

Definition flat_kv (l : list (value * value)) : list value :=
  flat_map (fun kv => [fst kv; snd kv]) l.

Lemma pushes_seq_kv l : Forall (fun kv => pushes (fst kv) /\ pushes (snd kv)) l ->
  exists n, forall f s rest,
    vrun (n + f) s (flat_map (fun kv => enc_v (fst kv) ++ enc_v (snd kv)) l ++ rest)
    = vrun f (push_all (flat_kv l) s) rest.
Proof.
  induction 1 as [|[k v] l [[n Hn] [n' Hn']] _ [m Hm]].
  - exists O. intros f s rest. cbn. destruct s; reflexivity.
  - exists (n + (n' + m))%nat. intros f s rest. cbn [flat_map fst snd]. rewrite <- !app_assoc.
    rewrite <- !Nat.add_assoc, Hn, Hn', Hm. f_equal.
    unfold push_all, pushv, flat_kv. cbn. rewrite <- !app_assoc. reflexivity.
Qed.

Lemma pop_mark_rev l : forall r acc, pop_mark (rev (map IV l) ++ IMark :: r) acc = Some (l ++ acc, r).
Proof.
  induction l as [|x l IH] using rev_ind; intros r acc; [reflexivity|].
  rewrite map_app, rev_app_distr. cbn. rewrite IH, <- app_assoc. reflexivity.
Qed.

Lemma pairs_flat_kv l : pairs (flat_kv l) = Some l.
Proof. induction l as [|[k v] l IH]; cbn; [reflexivity|]. unfold flat_kv in IH. rewrite IH. reflexivity. Qed.

Lemma pushes_str op s0 (mk : list N -> value) :
  shape_of op = Some (SCnt 4) ->
  (forall s, vexec op s0 s = Go (pushv (mk s0) s)) ->
  N.of_nat (length s0) < 2 ^ 32 ->
  exists n, forall f s rest, vrun (n + f) s ((op :: len4 s0 ++ s0) ++ rest) = vrun f (pushv (mk s0) s) rest.
Proof.
  intros H1 H2 H3. exists 1%nat. intros f s rest. cbn [Nat.add app]. rewrite <- app_assoc.
  apply (vstep f s op _ (SCnt 4) s0 rest); [exact H1 | apply read_cnt4; exact H3 | apply H2].
Qed.

Lemma enc_v_pushes : forall v, wf v -> pushes v.
Proof.
  induction v using value_ind'; intros Hwf; inversion Hwf; subst.
  - exists 1%nat. intros f s rest. reflexivity.
  - exists 1%nat. intros f s rest. destruct b; reflexivity.
  - (* int: LONG4 *)
    assert (L : length (int_bytes z) = int_len z) by (unfold int_bytes; apply le_bytes_length).
    destruct (pushes_str 139 (int_bytes z) (fun b => VInt (signed b)) eq_refl (fun s => eq_refl))
      as [n Hn]; [rewrite L; exact H0|].
    exists n. intros f s rest. specialize (Hn f s rest). cbn beta in Hn.
    rewrite signed_int_bytes in Hn. exact Hn.
  - (* float: BINFLOAT *)
    exists 1%nat. intros f s rest. cbn [Nat.add enc_v app].
    assert (L : length (be_bytes 8 x) = 8%nat) by (unfold be_bytes; rewrite rev_length; apply le_bytes_length).
    apply (vstep f s 71 _ (SFix 8) (be_bytes 8 x) rest).
    + reflexivity.
    + pose proof (read_fix (be_bytes 8 x) rest) as E. rewrite L in E. exact E.
    + cbn [vexec]. unfold push, pushv. rewrite be_be_bytes; [reflexivity | exact H0].
  - apply (pushes_str 88 s VStr eq_refl); [intros; reflexivity | exact H0].
  - apply (pushes_str 66 s VBytes eq_refl); [intros; reflexivity | exact H0].
  - (* list *)
    assert (Hp : Forall pushes l).
    { clear Hwf. induction H as [|x l Hx _ IH]; [constructor|]. inversion H1; subst. constructor; auto. }
    destruct (pushes_seq l Hp) as [n Hn].
    exists (2 + (n + 1))%nat. intros f s rest. cbn [enc_v]. cbn [app Nat.add].
    rewrite (vstep0 _ s 93 _ (pushv (VList []) s) eq_refl eq_refl).
    rewrite (vstep0 _ (pushv (VList []) s) 40 _ (mkst (IMark :: IV (VList []) :: stk s) (memo s) (mcnt s)) eq_refl eq_refl).
    rewrite <- app_assoc, <- Nat.add_assoc, Hn. cbn [app Nat.add].
    apply vstep0; [reflexivity|].
    cbn [vexec push_all stk memo mcnt]. rewrite pop_mark_rev, app_nil_r. reflexivity.
  - (* tuple *)
    assert (Hp : Forall pushes l).
    { clear Hwf. induction H as [|x l Hx _ IH]; [constructor|]. inversion H1; subst. constructor; auto. }
    destruct (pushes_seq l Hp) as [n Hn].
    exists (1 + (n + 1))%nat. intros f s rest. cbn [enc_v]. cbn [app Nat.add].
    rewrite (vstep0 _ s 40 _ (mkst (IMark :: stk s) (memo s) (mcnt s)) eq_refl eq_refl).
    rewrite <- app_assoc, <- Nat.add_assoc, Hn. cbn [app Nat.add].
    apply vstep0; [reflexivity|].
    cbn [vexec push_all stk memo mcnt]. rewrite pop_mark_rev, app_nil_r. reflexivity.
  - (* dict *)
    assert (Hp : Forall (fun kv => pushes (fst kv) /\ pushes (snd kv)) l).
    { clear Hwf. induction H as [|x l [Hx Hx'] _ IH]; [constructor|]. inversion H1; subst.
      destruct H2. constructor; auto. }
    destruct (pushes_seq_kv l Hp) as [n Hn].
    exists (2 + (n + 1))%nat. intros f s rest. cbn [enc_v]. cbn [app Nat.add].
    rewrite (vstep0 _ s 125 _ (pushv (VDict []) s) eq_refl eq_refl).
    rewrite (vstep0 _ (pushv (VDict []) s) 40 _ (mkst (IMark :: IV (VDict []) :: stk s) (memo s) (mcnt s)) eq_refl eq_refl).
    rewrite <- app_assoc, <- Nat.add_assoc, Hn. cbn [app Nat.add].
    apply vstep0; [reflexivity|].
    cbn [vexec push_all stk memo mcnt]. rewrite pop_mark_rev, app_nil_r, pairs_flat_kv. reflexivity.
  - (* global: two strings, STACK_GLOBAL *)
    destruct (pushes_str 88 m VStr eq_refl (fun s => eq_refl) H1) as [n1 Hn1].
    destruct (pushes_str 88 n VStr eq_refl (fun s => eq_refl) H2) as [n2 Hn2].
    exists (n1 + (n2 + 1))%nat. intros f s rest. cbn [enc_v]. rewrite <- !app_assoc.
    rewrite <- !Nat.add_assoc, Hn1, Hn2. cbn [app Nat.add].
    apply vstep0; reflexivity.
  - (* object *)
    destruct (IHv1 H3) as [n1 Hn1]. destruct (IHv2 H4) as [n2 Hn2].
    destruct s as [x|].
    + destruct (H x eq_refl (H5 x eq_refl)) as [n3 Hn3].
      exists (n1 + (n2 + (1 + (n3 + 1))))%nat. intros f s rest. cbn [enc_v]. rewrite <- !app_assoc.
      rewrite <- !Nat.add_assoc, Hn1, Hn2. cbn [app Nat.add].
      rewrite (vstep0 _ (pushv v2 (pushv v1 s)) 129 _ (pushv (VObj v1 v2 None) s) eq_refl eq_refl).
      rewrite Hn3. cbn [app Nat.add]. apply vstep0; reflexivity.
    + exists (n1 + (n2 + 1))%nat. intros f s rest. cbn [enc_v]. rewrite <- !app_assoc.
      rewrite <- !Nat.add_assoc, Hn1, Hn2. cbn [app Nat.add]. apply vstep0; reflexivity.
  - (* reduce *)
    destruct (IHv1 H1) as [n1 Hn1]. destruct (IHv2 H2) as [n2 Hn2].
    exists (n1 + (n2 + 1))%nat. intros f s rest. cbn [enc_v]. rewrite <- !app_assoc.
    rewrite <- !Nat.add_assoc, Hn1, Hn2. cbn [app Nat.add]. apply vstep0; reflexivity.
Qed.

(* ---------------- fuel does not matter ---------------- *)
Section Fuel.
  Variables St V : Type.
  Variable shape_tbl : N -> option shape.
  Variable exec : N -> list N -> St -> step St V.
  Notation run := (run St V shape_tbl exec).

  Lemma run_fuel_indep : forall F s b x, run F s b = Got x ->
    forall F', run F' s b = Got x \/ run F' s b = Fail EFuel.
  Proof.
    induction F as [|F IH]; intros s b x H F'; [discriminate|].
    destruct F' as [|F']; [right; reflexivity|].
    cbn in H |- *. destruct b as [|op b1]; [discriminate|].
    destruct (shape_tbl op) as [sh|]; [|discriminate].
    destruct (read_arg sh b1) as [[arg b2]|e]; [|discriminate].
    destruct (exec op arg s) as [s'|v'|e]; [|left; exact H|discriminate].
    apply (IH _ _ _ H).
  Qed.

  Lemma load_of_run F s b x : run F s b = Got x -> load St V shape_tbl exec s b = Got x.
  Proof.
    intros H. unfold load. destruct (run_fuel_indep _ _ _ _ H (S (length b))) as [E|E]; [exact E|].
    exfalso. apply (run_fuel St V shape_tbl exec (S (length b)) s b); [lia | exact E].
  Qed.
End Fuel.

(* THE ROUND TRIP: the encoder's output decodes to the value, consuming everything *)
Theorem dec_enc : forall v,
  wf v -> N.of_nat (length (enc_v v) + 1) < 2 ^ 64 -> dec (enc v) = Got (v, []).
Proof.
  intros v Hwf Hlen. destruct (enc_v_pushes v Hwf) as [n Hn].
  unfold dec. apply (load_of_run _ _ _ _ (S (S (n + 1)))).
  unfold enc. set (body := enc_v v ++ [46]).
  assert (Lb : length body = (length (enc_v v) + 1)%nat) by (unfold body; rewrite app_length; reflexivity).
  set (tail := 149 :: le_bytes 8 (N.of_nat (length body)) ++ body).
  rewrite (vstep _ st0 128 (4 :: tail) (SFix 1) [4] tail st0 eq_refl eq_refl eq_refl).
  unfold tail.
  assert (Hfr : read_arg SFrame (le_bytes 8 (N.of_nat (length body)) ++ body)
                = Got (le_bytes 8 (N.of_nat (length body)), body)).
  { cbn [read_arg].
    pose proof (takeN_exact (le_bytes 8 (N.of_nat (length body))) body) as E.
    rewrite le_bytes_length in E. change (N.of_nat 8) with 8 in E. rewrite E.
    rewrite le_le_bytes by (rewrite Lb; exact Hlen).
    pose proof (takeN_exact body []) as E2. rewrite app_nil_r in E2. rewrite E2. reflexivity. }
  rewrite (vstep _ st0 149 _ SFrame _ _ st0 eq_refl Hfr eq_refl).
  unfold body. rewrite Hn. reflexivity.
Qed.

(* C14 — proofs, part 4: write_env, then crashes, then read_env.
   The pickler is any function whose output the decoder reads back (the model's
   [enc] is one, by dec_enc; the real pickler's outputs are checked on every run). *)
From Coq Require Import List ZArith NArith Bool Arith Lia.
From VV Require Import C14.Model C14.Proofs C14.Proofs2.
Import ListNotations.
Open Scope N_scope.

Definition target (o : hop) : list N :=
  match o with HWrite n _ | HCut n _ | HDelete n => n end.

Definition is_fault (o : hop) : Prop :=
  match o with HWrite _ _ => False | _ => True end.

(* the file holds a pickle of Env({k: e}), possibly followed by other bytes *)
Definition holds (f : file) (k e : value) : Prop :=
  exists b rest, f = FData b /\ dec b = Got (mk_env [(k, e)], rest).

Lemma intact_holds f k e : intact_for f k e -> holds f k e.
Proof. intros (b & -> & H). exists b, []. auto. Qed.

Lemma holds_cut f j k e : holds (cut_file f j) k e -> holds f k e.
Proof.
  destruct f as [| |b]; cbn; auto.
  intros (b' & rest & Hb & Hd). inversion Hb; subst b'.
  exists b, (rest ++ skipn j b). split; [reflexivity|].
  rewrite <- (firstn_skipn j b) at 1. apply dec_ext. exact Hd.
Qed.

Lemma upd_same fs n f : upd fs n f n = f.
Proof. unfold upd. rewrite list_eqbN_refl. reflexivity. Qed.

Lemma upd_other fs n f p : p <> n -> upd fs n f p = fs p.
Proof.
  intros H. unfold upd. destruct (list_eqbN p n) eqn:E; [|reflexivity].
  apply list_eqbN_eq in E. contradiction.
Qed.

Lemma apply_other fs o p : target o <> p -> apply_hop fs o p = fs p.
Proof. intros H. destruct o; cbn in *; apply upd_other; congruence. Qed.

Lemma list_N_eq_dec (a b : list N) : {a = b} + {a <> b}.
Proof. apply list_eq_dec. apply N.eq_dec. Qed.

(* whatever a file holds at the end was put there by a complete write *)
Lemma holds_origin ops : forall fs p k e,
  holds (fold_left apply_hop ops fs p) k e ->
  holds (fs p) k e \/ exists b, In (HWrite p b) ops /\ holds (FData b) k e.
Proof.
  induction ops as [|o ops IH]; intros fs p k e H; [left; exact H|].
  cbn [fold_left] in H. destruct (IH _ _ _ _ H) as [H1 | (b & Hin & Hb)].
  - destruct (list_N_eq_dec (target o) p) as [E|E].
    + destruct o as [n b|n j|n]; cbn in E; subst n; cbn in H1; rewrite upd_same in H1.
      * right. exists b. split; [left; reflexivity | exact H1].
      * left. eapply holds_cut; eauto.
      * destruct H1 as (b & rest & Hb & _). discriminate.
    + left. rewrite apply_other in H1; assumption.
  - right. exists b. split; [right; exact Hin | exact Hb].
Qed.

Lemma untouched_fold ops : forall fs p,
  (forall o, In o ops -> target o <> p) -> fold_left apply_hop ops fs p = fs p.
Proof.
  induction ops as [|o ops IH]; intros fs p H; [reflexivity|].
  cbn [fold_left]. rewrite IH by (intros o' Ho'; apply H; right; exact Ho').
  apply apply_other. apply H. left. reflexivity.
Qed.

Lemma same_writes_fold ops : forall fs p b0,
  (forall o, In o ops -> target o = p -> o = HWrite p b0) ->
  fs p = FData b0 \/ (exists o, In o ops /\ target o = p) ->
  fold_left apply_hop ops fs p = FData b0.
Proof.
  induction ops as [|o ops IH]; intros fs p b0 Hall Hex.
  - destruct Hex as [H|(o & [] & _)]. exact H.
  - cbn [fold_left]. apply IH; [intros o' Ho'; apply Hall; right; exact Ho'|].
    destruct (list_N_eq_dec (target o) p) as [E|E].
    + left. rewrite (Hall o (or_introl eq_refl) E). cbn. apply upd_same.
    + destruct Hex as [H|(o' & [<-|Ho'] & Ht)].
      * left. rewrite apply_other; assumption.
      * contradiction.
      * right. exists o'. auto.
Qed.

Lemma NoDup_fst_unique {A B} (l : list (A * B)) k e e' :
  NoDup (map fst l) -> In (k, e) l -> In (k, e') l -> e = e'.
Proof.
  induction l as [|[k0 v0] l IH]; cbn; intros Hnd H1 H2; [contradiction|].
  inversion Hnd as [|? ? Hnot Hnd']; subst.
  destruct H1 as [H1|H1], H2 as [H2|H2].
  - congruence.
  - inversion H1; subst. exfalso. apply Hnot. apply (in_map fst) in H2. exact H2.
  - inversion H2; subst. exfalso. apply Hnot. apply (in_map fst) in H1. exact H1.
  - apply IH; assumption.
Qed.

Lemma write_plan_in items d v :
  In (d, v) (write_plan items) <->
  exists k e, In (k, e) items /\ output_dir e = Some d /\ v = mk_env [(k, e)].
Proof.
  induction items as [|[k e] items IH]; cbn.
  - split; [intros [] | intros (k & e & [] & _)].
  - destruct (output_dir e) as [d0|] eqn:E; cbn; rewrite IH; split.
    + intros [H|(k' & e' & H1 & H2 & H3)].
      * inversion H; subst. exists k, e. auto.
      * exists k', e'. auto.
    + intros (k' & e' & [H1|H1] & H2 & H3).
      * inversion H1; subst. left. congruence.
      * right. exists k', e'. auto.
    + intros (k' & e' & H1 & H2 & H3). exists k', e'. auto.
    + intros (k' & e' & [H1|H1] & H2 & H3).
      * inversion H1; subst. congruence.
      * exists k', e'. auto.
Qed.

Section WriteRead.
  Variable penc : value -> list N.
  Variables root fname : list N.

  (* the complete writes of one write_env *)
  Definition wops (items : list (value * value)) : list hop :=
    flat_map (fun dv => match fst dv with
                        | VStr d => [HWrite (join_path d fname) (penc (snd dv))]
                        | _ => []
                        end) (write_plan items).

  Lemma wops_in items o :
    In o (wops items) <->
    exists k e d, In (k, e) items /\ output_dir e = Some (VStr d) /\
                  o = HWrite (join_path d fname) (penc (mk_env [(k, e)])).
  Proof.
    unfold wops. rewrite in_flat_map. split.
    - intros ([d v] & Hin & Ho). apply write_plan_in in Hin. destruct Hin as (k & e & H1 & H2 & ->).
      cbn in Ho. destruct d; try contradiction. destruct Ho as [<-|[]].
      exists k, e, s. auto.
    - intros (k & e & d & H1 & H2 & ->). exists (VStr d, mk_env [(k, e)]). split.
      + apply write_plan_in. exists k, e. auto.
      + cbn. left. reflexivity.
  Qed.

  Variable caught : exn -> bool.
  Hypothesis caught_eof : caught XEOFError = true.
  Hypothesis caught_unpickling : caught XUnpicklingError = true.
  Hypothesis caught_oserror : caught XOSError = true.

  (* WRITE, CRASH, READ.  An environment whose keys are task names and whose entries
     carry a status is written by write_env into an empty output directory; then any
     sequence of crashes cuts files at arbitrary bytes or deletes them; then read_env
     is called for [names].  It does not raise; what it reports are entries of the
     written environment that were DONE and had an output directory, unchanged; and
     every such entry whose own file (root/name/fname) was not touched is reported. *)
  Theorem write_crash_read : forall items faults names,
    (forall k e, In (k, e) items ->
       dec (penc (mk_env [(k, e)])) = Got (mk_env [(k, e)], [])) ->     (* the pickler does its job *)
    (forall k e, In (k, e) items -> (exists s, k = VStr s) /\ wf_entry e) ->
    NoDup (map fst items) ->
    Forall is_fault faults ->
    let fs := fold_left apply_hop (wops items ++ faults) fs0 in
    exists r, read_env caught (fun n => fs (task_file root fname n)) names = Ret r /\
      (forall k e, In (k, e) r ->
         In (k, e) items /\ done e /\ exists d, output_dir e = Some (VStr d)) /\
      (forall s e, In (VStr s, e) items -> done e -> In s names ->
         output_dir e = Some (VStr (join_path root s)) ->
         (forall k' e' d', In (k', e') items -> output_dir e' = Some (VStr d') ->
                           join_path d' fname = task_file root fname s -> k' = VStr s) ->
         (forall o, In o faults -> target o <> task_file root fname s) ->
         In (VStr s, e) r).
  Proof.
    intros items faults names penc_ok Hitems Hnd Hfaults fs.
    assert (Hvalid : Forall valid_hop (wops items ++ faults)).
    { apply Forall_app. split.
      - apply Forall_forall. intros o Ho. apply wops_in in Ho.
        destruct Ho as (k & e & d & H1 & H2 & ->). destruct (Hitems k e H1) as [[s ->] Hwf].
        exists s, e. split; [apply penc_ok; exact H1 | exact Hwf].
      - eapply Forall_impl; [|exact Hfaults]. intros [ | | ]; cbn; tauto. }
    assert (Hok : forall n, file_ok (fs (task_file root fname n))).
    { intros n. apply history_ok; [exact Hvalid|]. intros m. left. left. reflexivity. }
    (* whatever is held at the end is an entry of the environment with an output directory *)
    assert (Horigin : forall p k e, holds (fs p) k e ->
              In (k, e) items /\ exists d, output_dir e = Some (VStr d)).
    { intros p k e H. destruct (holds_origin _ _ _ _ _ H) as [(b & rest & Hb & _) | (b & Hin & Hb)];
        [discriminate|].
      apply in_app_or in Hin. destruct Hin as [Hin|Hin].
      - apply wops_in in Hin. destruct Hin as (k0 & e0 & d & H1 & H2 & Heq). inversion Heq; subst b.
        destruct Hb as (b' & rest & Hb' & Hd). inversion Hb'; subst b'. rewrite (penc_ok _ _ H1) in Hd.
        inversion Hd; subst. split; [exact H1 | exists d; exact H2].
      - rewrite Forall_forall in Hfaults. destruct (Hfaults _ Hin). }
    destruct (read_env_spec caught caught_eof caught_unpickling caught_oserror
                (fun n => fs (task_file root fname n)) names (fun n _ => Hok n))
      as (r & Hr & Hsound & Hcomplete).
    exists r. split; [exact Hr|]. split.
    - intros k e Hin. destruct (Hsound k e Hin) as (n & Hn & Hi & Hd).
      destruct (Horigin _ _ _ (intact_holds _ _ _ Hi)) as [H1 H2]. auto.
    - intros s e Hin Hd Hs Hout Hown Huntouched.
      apply (Hcomplete s s e Hs); [|exact Hd|].
      + (* its own file is intact *)
        exists (penc (mk_env [(VStr s, e)])). split; [|apply penc_ok; exact Hin].
        unfold fs. rewrite fold_left_app. rewrite untouched_fold by exact Huntouched.
        apply same_writes_fold.
        * intros o Ho Ht. apply wops_in in Ho. destruct Ho as (k' & e' & d' & H1 & H2 & ->).
          cbn in Ht. pose proof (Hown k' e' d' H1 H2 Ht) as ->.
          rewrite (NoDup_fst_unique items (VStr s) e' e Hnd H1 Hin). rewrite Ht. reflexivity.
        * right. exists (HWrite (task_file root fname s) (penc (mk_env [(VStr s, e)]))). split; [|reflexivity].
          apply wops_in. exists (VStr s), e, (join_path root s). auto.
      + (* no other listed file holds a different entry under this name *)
        intros n' e' Hn' Hi'. destruct (Horigin _ _ _ (intact_holds _ _ _ Hi')) as [H1 _].
        apply (NoDup_fst_unique items (VStr s) e' e Hnd H1 Hin).
  Qed.
End WriteRead.

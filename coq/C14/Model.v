(* C14 — persisted environments.
   Model of  valjean/cosette/env.py  (Env.from_file / Env.to_file / merge_done_tasks)
   and       valjean/cambronne/common.py (read_env / write_env),
   on top of a model of CPython's unpickler (Modules/_pickle.c, load()):

   * a generic pickle machine [run]: opcode byte, argument read according to the
     opcode's argument *shape*, then an input-independent [exec];
     reading an opcode at end of input is EOFError, every other short read is
     UnpicklingError("pickle data was truncated"); FRAME demands that the whole
     frame be available;
   * the table [shape_of] of all opcodes of protocols 0..5;
   * [vexec]: the semantics of the opcodes that Env payloads of the universe
     {None, bool, int, float, str, bytes, list, tuple, dict, TaskStatus, Env}
     produce (protocols 3, 4, 5), values being symbolic trees;
   * [scan]: the same machine with a trivial [exec] (opcode stream only);
   * a simple encoder [enc] (no memo, one frame);
   * [from_file] with the table [caught] of exception classes converted to
     "no environment", [read_env] / [write_plan] over a file-system map. *)
From Coq Require Import List ZArith NArith Bool Arith Lia.
Import ListNotations.
Open Scope N_scope.

(* ------------------------------------------------------------------ *)
(* exception classes (what the property distinguishes)                  *)

Inductive exn :=
| XEOFError | XUnpicklingError | XAttributeError | XImportError | XIndexError
| XKeyError | XTypeError | XValueError | XOverflowError | XMemoryError
| XOSError | XOther.

Inductive err := EEOF | ETrunc | EOther (c : exn) | EFuel.

Inductive rd (A : Type) := Got (a : A) | Fail (e : err).
Arguments Got {A} a.
Arguments Fail {A} e.

Definition class_of (e : err) : exn :=
  match e with
  | EEOF => XEOFError
  | ETrunc => XUnpicklingError
  | EOther c => c
  | EFuel => XOther
  end.

(* ------------------------------------------------------------------ *)
(* byte readers                                                         *)

Fixpoint takeN (b : list N) (n : N) {struct b} : option (list N * list N) :=
  if N.eqb n 0 then Some ([], b)
  else match b with
       | [] => None
       | x :: r => match takeN r (N.pred n) with
                   | None => None
                   | Some (p, r') => Some (x :: p, r')
                   end
       end.

Fixpoint take_line (b : list N) : option (list N * list N) :=
  match b with
  | [] => None
  | x :: r => if N.eqb x 10 then Some ([], r)
              else match take_line r with
                   | None => None
                   | Some (l, r') => Some (x :: l, r')
                   end
  end.

(* little-endian unsigned *)
Fixpoint le (l : list N) : N :=
  match l with [] => 0 | x :: r => x + 256 * le r end.

(* big-endian unsigned *)
Definition be (l : list N) : N := le (rev l).

(* two's complement little-endian *)
Definition signed (l : list N) : Z :=
  let u := Z.of_N (le l) in
  let bits := Z.of_nat (8 * length l) in
  if (bits =? 0)%Z then 0%Z
  else if (u <? 2 ^ (bits - 1))%Z then u else (u - 2 ^ bits)%Z.

Inductive shape :=
| S0                      (* no argument *)
| SFix (n : N)            (* n bytes *)
| SCnt (k : N)            (* k-byte little-endian count, then that many bytes *)
| SFrame                  (* 8-byte count; that many bytes must be available *)
| SLine                   (* up to and including a newline *)
| SLine2.                 (* two lines *)

(* returns (argument, remaining input) *)
Definition read_arg (s : shape) (b : list N) : rd (list N * list N) :=
  match s with
  | S0 => Got ([], b)
  | SFix n => match takeN b n with Some pr => Got pr | None => Fail ETrunc end
  | SCnt k =>
      match takeN b k with
      | None => Fail ETrunc
      | Some (l, b1) => match takeN b1 (le l) with
                        | None => Fail ETrunc
                        | Some pr => Got pr
                        end
      end
  | SFrame =>
      match takeN b 8 with
      | None => Fail ETrunc
      | Some (l, b1) => match takeN b1 (le l) with
                        | None => Fail ETrunc
                        | Some _ => Got (l, b1)
                        end
      end
  | SLine => match take_line b with Some pr => Got pr | None => Fail ETrunc end
  | SLine2 =>
      match take_line b with
      | None => Fail ETrunc
      | Some (l1, b1) => match take_line b1 with
                         | None => Fail ETrunc
                         | Some (l2, b2) => Got (l1 ++ 10 :: l2, b2)
                         end
      end
  end.

(* ------------------------------------------------------------------ *)
(* the generic machine                                                  *)

(* what executing one opcode does: go on, STOP with a value, or raise; it sees
   the opcode and its argument, never the rest of the input *)
Inductive step (St V : Type) := Go (s : St) | Stop (v : V) | Bad (c : exn).
Arguments Go {St V} s.
Arguments Stop {St V} v.
Arguments Bad {St V} c.

Section Machine.
  Variables St V : Type.
  Variable shape_tbl : N -> option shape.
  Variable exec : N -> list N -> St -> step St V.

  Fixpoint run (fuel : nat) (s : St) (b : list N) : rd (V * list N) :=
    match fuel with
    | O => Fail EFuel
    | S f =>
        match b with
        | [] => Fail EEOF
        | op :: b1 =>
            match shape_tbl op with
            | None => Fail (EOther XUnpicklingError)       (* invalid load key *)
            | Some sh =>
                match read_arg sh b1 with
                | Fail e => Fail e
                | Got (arg, b2) =>
                    match exec op arg s with
                    | Bad c => Fail (EOther c)
                    | Go s' => run f s' b2
                    | Stop v => Got (v, b2)
                    end
                end
            end
        end
    end.

  (* every step consumes at least the opcode byte *)
  Definition load (s0 : St) (b : list N) : rd (V * list N) := run (S (length b)) s0 b.
End Machine.

(* all opcodes of pickle protocols 0..5 *)
Definition shape_of (op : N) : option shape :=
  match op with
  | 40 | 46 | 48 | 49 | 50 => Some S0            (* MARK STOP POP POP_MARK DUP *)
  | 70 | 73 | 76 | 80 | 83 | 86 => Some SLine    (* FLOAT INT LONG PERSID STRING UNICODE *)
  | 103 | 112 => Some SLine                      (* GET PUT *)
  | 99 | 105 => Some SLine2                      (* GLOBAL INST *)
  | 74 => Some (SFix 4)                          (* BININT *)
  | 75 => Some (SFix 1)                          (* BININT1 *)
  | 77 => Some (SFix 2)                          (* BININT2 *)
  | 71 => Some (SFix 8)                          (* BINFLOAT *)
  | 78 | 81 | 82 => Some S0                      (* NONE BINPERSID REDUCE *)
  | 84 | 88 | 66 => Some (SCnt 4)                (* BINSTRING BINUNICODE BINBYTES *)
  | 85 | 67 | 140 => Some (SCnt 1)               (* SHORT_BINSTRING SHORT_BINBYTES SHORT_BINUNICODE *)
  | 97 | 98 | 100 | 125 | 101 | 108 | 93 | 111 => Some S0  (* APPEND BUILD DICT EMPTY_DICT APPENDS LIST EMPTY_LIST OBJ *)
  | 115 | 116 | 41 | 117 => Some S0              (* SETITEM TUPLE EMPTY_TUPLE SETITEMS *)
  | 104 | 113 => Some (SFix 1)                   (* BINGET BINPUT *)
  | 106 | 114 => Some (SFix 4)                   (* LONG_BINGET LONG_BINPUT *)
  | 128 => Some (SFix 1)                         (* PROTO *)
  | 129 => Some S0                               (* NEWOBJ *)
  | 130 => Some (SFix 1)                         (* EXT1 *)
  | 131 => Some (SFix 2)                         (* EXT2 *)
  | 132 => Some (SFix 4)                         (* EXT4 *)
  | 133 | 134 | 135 | 136 | 137 => Some S0       (* TUPLE1 TUPLE2 TUPLE3 NEWTRUE NEWFALSE *)
  | 138 => Some (SCnt 1)                         (* LONG1 *)
  | 139 => Some (SCnt 4)                         (* LONG4 *)
  | 141 | 142 | 150 => Some (SCnt 8)             (* BINUNICODE8 BINBYTES8 BYTEARRAY8 *)
  | 143 | 144 | 145 | 146 | 147 | 148 => Some S0 (* EMPTY_SET ADDITEMS FROZENSET NEWOBJ_EX STACK_GLOBAL MEMOIZE *)
  | 149 => Some SFrame                           (* FRAME *)
  | 151 | 152 => Some S0                         (* NEXT_BUFFER READONLY_BUFFER *)
  | _ => None
  end.

(* opcode stream only *)
Definition sexec (op : N) (_ : list N) (_ : unit) : step unit unit :=
  if N.eqb op 46 then Stop tt else Go tt.
Definition scan (b : list N) : rd (unit * list N) := load unit unit shape_of sexec tt b.

(* ------------------------------------------------------------------ *)
(* values                                                               *)

Inductive value :=
| VNone
| VBool (b : bool)
| VInt (z : Z)
| VFloat (bits : N)                 (* the 64-bit pattern *)
| VStr (s : list N)                 (* utf-8 bytes *)
| VBytes (s : list N)
| VList (l : list value)
| VTuple (l : list value)
| VDict (l : list (value * value))  (* items in insertion order *)
| VGlobal (m n : list N)            (* a class / function found by name *)
| VObj (cls args : value) (state : option value)   (* cls.__new__ on args, then BUILD state *)
| VReduce (f args : value).         (* f applied to args *)

Fixpoint list_eqbN (a b : list N) : bool :=
  match a, b with
  | [], [] => true
  | x :: r, y :: s => N.eqb x y && list_eqbN r s
  | _, _ => false
  end.

Fixpoint value_eqb (a b : value) {struct a} : bool :=
  match a, b with
  | VNone, VNone => true
  | VBool x, VBool y => Bool.eqb x y
  | VInt x, VInt y => Z.eqb x y
  | VFloat x, VFloat y => N.eqb x y
  | VStr x, VStr y => list_eqbN x y
  | VBytes x, VBytes y => list_eqbN x y
  | VList x, VList y | VTuple x, VTuple y =>
      (fix go (l1 l2 : list value) {struct l1} : bool :=
         match l1, l2 with
         | [], [] => true
         | u :: r1, w :: r2 => value_eqb u w && go r1 r2
         | _, _ => false
         end) x y
  | VDict x, VDict y =>
      (fix go (l1 l2 : list (value * value)) {struct l1} : bool :=
         match l1, l2 with
         | [], [] => true
         | (k1, u) :: r1, (k2, w) :: r2 => value_eqb k1 k2 && value_eqb u w && go r1 r2
         | _, _ => false
         end) x y
  | VGlobal m1 n1, VGlobal m2 n2 => list_eqbN m1 m2 && list_eqbN n1 n2
  | VObj c1 a1 s1, VObj c2 a2 s2 =>
      value_eqb c1 c2 && value_eqb a1 a2 &&
      match s1, s2 with
      | None, None => true
      | Some u, Some w => value_eqb u w
      | _, _ => false
      end
  | VReduce f1 a1, VReduce f2 a2 => value_eqb f1 f2 && value_eqb a1 a2
  | _, _ => false
  end.

(* ------------------------------------------------------------------ *)
(* the unpickler's state and the opcode semantics                       *)

Inductive item := IV (v : value) | IMark.

Record st := mkst { stk : list item; memo : list (N * value); mcnt : N }.

Definition st0 : st := mkst [] [] 0.

Fixpoint pop_mark (s : list item) (acc : list value) : option (list value * list item) :=
  match s with
  | [] => None
  | IMark :: r => Some (acc, r)
  | IV v :: r => pop_mark r (v :: acc)
  end.

Fixpoint pairs (l : list value) : option (list (value * value)) :=
  match l with
  | [] => Some []
  | k :: v :: r => match pairs r with Some p => Some ((k, v) :: p) | None => None end
  | _ => None
  end.

Fixpoint memo_get (m : list (N * value)) (i : N) : option value :=
  match m with
  | [] => None
  | (j, v) :: r => if N.eqb i j then Some v else memo_get r i
  end.

Definition underflow : step st value := Bad XUnpicklingError.
Definition typeerr : step st value := Bad XTypeError.

Definition push (v : value) (s : st) : step st value :=
  Go (mkst (IV v :: stk s) (memo s) (mcnt s)).
Definition set_stk (k : list item) (s : st) : step st value :=
  Go (mkst k (memo s) (mcnt s)).

Fixpoint split_line (b : list N) : list N * list N :=
  match b with
  | [] => ([], [])
  | x :: r => if N.eqb x 10 then ([], r) else let '(l, r') := split_line r in (x :: l, r')
  end.

Definition vexec (op : N) (arg : list N) (s : st) : step st value :=
  match op with
  | 128 => if le arg <=? 5 then Go s else Bad XValueError     (* PROTO *)
  | 149 => Go s                                                         (* FRAME *)
  | 46 => match stk s with IV v :: _ => Stop v | _ => underflow end       (* STOP *)
  | 40 => set_stk (IMark :: stk s) s                                           (* MARK *)
  | 78 => push VNone s
  | 136 => push (VBool true) s
  | 137 => push (VBool false) s
  | 74 => push (VInt (signed arg)) s                                           (* BININT *)
  | 75 | 77 => push (VInt (Z.of_N (le arg))) s                                 (* BININT1 BININT2 *)
  | 138 | 139 => push (VInt (signed arg)) s                                    (* LONG1 LONG4 *)
  | 71 => push (VFloat (be arg)) s                                             (* BINFLOAT *)
  | 140 | 88 | 141 => push (VStr arg) s                                        (* *BINUNICODE* *)
  | 67 | 66 | 142 => push (VBytes arg) s                                       (* *BINBYTES* *)
  | 93 => push (VList []) s
  | 125 => push (VDict []) s
  | 41 => push (VTuple []) s
  | 97 =>                                                                      (* APPEND *)
      match stk s with
      | IV x :: IV (VList l) :: r => set_stk (IV (VList (l ++ [x])) :: r) s
      | IV _ :: IV _ :: _ => Bad XAttributeError
      | _ => underflow
      end
  | 101 =>                                                                     (* APPENDS *)
      match pop_mark (stk s) [] with
      | Some (xs, IV (VList l) :: r) => set_stk (IV (VList (l ++ xs)) :: r) s
      | Some (_, IV _ :: _) => Bad XAttributeError
      | _ => underflow
      end
  | 115 =>                                                                     (* SETITEM *)
      match stk s with
      | IV v :: IV k :: IV (VDict d) :: r => set_stk (IV (VDict (d ++ [(k, v)])) :: r) s
      | IV _ :: IV _ :: IV _ :: _ => typeerr
      | _ => underflow
      end
  | 117 =>                                                                     (* SETITEMS *)
      match pop_mark (stk s) [] with
      | Some (xs, IV (VDict d) :: r) =>
          match pairs xs with
          | Some p => set_stk (IV (VDict (d ++ p)) :: r) s
          | None => underflow                     (* odd number of items *)
          end
      | Some (_, IV _ :: _) => typeerr
      | _ => underflow
      end
  | 116 =>                                                                     (* TUPLE *)
      match pop_mark (stk s) [] with
      | Some (xs, r) => set_stk (IV (VTuple xs) :: r) s
      | None => underflow
      end
  | 133 => match stk s with
           | IV a :: r => set_stk (IV (VTuple [a]) :: r) s
           | _ => underflow end
  | 134 => match stk s with
           | IV b :: IV a :: r => set_stk (IV (VTuple [a; b]) :: r) s
           | _ => underflow end
  | 135 => match stk s with
           | IV c :: IV b :: IV a :: r => set_stk (IV (VTuple [a; b; c]) :: r) s
           | _ => underflow end
  | 148 =>                                                                     (* MEMOIZE *)
      match stk s with
      | IV v :: _ => Go (mkst (stk s) ((mcnt s, v) :: memo s) (mcnt s + 1))
      | _ => underflow
      end
  | 113 | 114 =>                                                               (* BINPUT LONG_BINPUT *)
      match stk s with
      | IV v :: _ => Go (mkst (stk s) ((le arg, v) :: memo s) (mcnt s + 1))
      | _ => underflow
      end
  | 104 | 106 =>                                                               (* BINGET LONG_BINGET *)
      match memo_get (memo s) (le arg) with
      | Some v => push v s
      | None => Bad XUnpicklingError
      end
  | 147 =>                                                                     (* STACK_GLOBAL *)
      match stk s with
      | IV (VStr n) :: IV (VStr m) :: r => set_stk (IV (VGlobal m n) :: r) s
      | IV _ :: IV _ :: _ => Bad XUnpicklingError
      | _ => underflow
      end
  | 99 => let '(m, n) := split_line arg in push (VGlobal m n) s                (* GLOBAL *)
  | 129 =>                                                                     (* NEWOBJ *)
      match stk s with
      | IV args :: IV cls :: r => set_stk (IV (VObj cls args None) :: r) s
      | _ => underflow
      end
  | 82 =>                                                                      (* REDUCE *)
      match stk s with
      | IV args :: IV f :: r => set_stk (IV (VReduce f args) :: r) s
      | _ => underflow
      end
  | 98 =>                                                                      (* BUILD *)
      match stk s with
      | IV state :: IV (VObj cls args None) :: r =>
          set_stk (IV (VObj cls args (Some state)) :: r) s
      | IV _ :: IV _ :: _ => Bad XAttributeError
      | _ => underflow
      end
  | 48 => match stk s with _ :: r => set_stk r s | [] => underflow end         (* POP *)
  | _ => Bad XOther            (* an opcode outside the modelled universe *)
  end.

Definition dec (b : list N) : rd (value * list N) := load st value shape_of vexec st0 b.

(* ------------------------------------------------------------------ *)
(* a simple encoder: protocol 4, one frame, no memo                     *)

Fixpoint le_bytes (k : nat) (n : N) : list N :=
  match k with
  | O => []
  | S k' => (n mod 256) :: le_bytes k' (n / 256)
  end.

Definition be_bytes (k : nat) (n : N) : list N := rev (le_bytes k n).

(* number of bytes of a two's complement representation of z *)
Definition int_len (z : Z) : nat := S (Z.to_nat (Z.log2 (Z.abs z) / 8 + 1)).

Definition int_bytes (z : Z) : list N :=
  let k := int_len z in
  le_bytes k (Z.to_N (z mod 2 ^ Z.of_nat (8 * k))).

Definition len4 (l : list N) : list N := le_bytes 4 (N.of_nat (length l)).

Fixpoint enc_v (v : value) : list N :=
  match v with
  | VNone => [78]
  | VBool true => [136]
  | VBool false => [137]
  | VInt z => let b := int_bytes z in 139 :: len4 b ++ b
  | VFloat bits => 71 :: be_bytes 8 bits
  | VStr s => 88 :: len4 s ++ s
  | VBytes s => 66 :: len4 s ++ s
  | VList l => 93 :: 40 :: flat_map enc_v l ++ [101]
  | VTuple l => 40 :: flat_map enc_v l ++ [116]
  | VDict l => 125 :: 40 :: flat_map (fun kv => enc_v (fst kv) ++ enc_v (snd kv)) l ++ [117]
  | VGlobal m n => (88 :: len4 m ++ m) ++ (88 :: len4 n ++ n) ++ [147]
  | VObj c a None => enc_v c ++ enc_v a ++ [129]
  | VObj c a (Some s) => enc_v c ++ enc_v a ++ [129] ++ enc_v s ++ [98]
  | VReduce f a => enc_v f ++ enc_v a ++ [82]
  end.

Definition enc (v : value) : list N :=
  let body := enc_v v ++ [46] in
  128 :: 4 :: 149 :: le_bytes 8 (N.of_nat (length body)) ++ body.

(* ------------------------------------------------------------------ *)
(* Env.from_file                                                        *)

(* text constants as byte codes *)
Definition s_env_mod : list N :=          (* "valjean.cosette.env" *)
  [118;97;108;106;101;97;110;46;99;111;115;101;116;116;101;46;101;110;118].
Definition s_env : list N := [69;110;118].                          (* "Env" *)
Definition s_task_mod : list N :=         (* "valjean.cosette.task" *)
  [118;97;108;106;101;97;110;46;99;111;115;101;116;116;101;46;116;97;115;107].
Definition s_taskstatus : list N := [84;97;115;107;83;116;97;116;117;115].   (* "TaskStatus" *)
Definition s_dictionary : list N := [100;105;99;116;105;111;110;97;114;121]. (* "dictionary" *)
Definition s_status : list N := [115;116;97;116;117;115].                    (* "status" *)
Definition s_output_dir : list N := [111;117;116;112;117;116;95;100;105;114]. (* "output_dir" *)

Definition g_env : value := VGlobal s_env_mod s_env.
Definition g_taskstatus : value := VGlobal s_task_mod s_taskstatus.

(* TaskStatus: WAITING 1, PENDING 2, DONE 3, FAILED 4, SKIPPED 5 *)
Definition v_status (k : Z) : value := VReduce g_taskstatus (VTuple [VInt k]).

(* the Env object holding the given items *)
Definition mk_env (items : list (value * value)) : value :=
  VObj g_env (VTuple []) (Some (VDict [(VStr s_dictionary, VDict items)])).

Definition is_env (v : value) : bool :=
  match v with
  | VObj c _ _ => value_eqb c g_env
  | _ => false
  end.

Inductive file := FMissing | FNoRead | FData (b : list N).

Inductive outcome (A : Type) := Ret (a : A) | Raises (c : exn).
Arguments Ret {A} a.
Arguments Raises {A} c.

Definition from_file (caught : exn -> bool) (f : file) : outcome (option value) :=
  match f with
  | FMissing | FNoRead => if caught XOSError then Ret None else Raises XOSError
  | FData b =>
      match dec b with
      | Got (v, _) => if is_env v then Ret (Some v) else Ret None
      | Fail e => if caught (class_of e) then Ret None else Raises (class_of e)
      end
  end.

(* the except clauses of the repaired from_file *)
Definition caught_now (c : exn) : bool :=
  match c with XOther => false | _ => true end.

(* the except clauses of the pinned tree: IOError and ValueError only *)
Definition caught_pinned (c : exn) : bool :=
  match c with XOSError | XValueError => true | _ => false end.

(* ------------------------------------------------------------------ *)
(* merge_done_tasks, read_env, write_env                                *)

Fixpoint assoc (k : value) (l : list (value * value)) : option value :=
  match l with
  | [] => None
  | (k', v) :: r => if value_eqb k k' then Some v else assoc k r
  end.

(* d[k] = v on an insertion-ordered dictionary *)
Fixpoint dset (k v : value) (l : list (value * value)) : list (value * value) :=
  match l with
  | [] => [(k, v)]
  | (k', v') :: r => if value_eqb k k' then (k', v) :: r else (k', v') :: dset k v r
  end.

(* the items of an Env object *)
Definition env_items (v : value) : list (value * value) :=
  match v with
  | VObj _ _ (Some (VDict st)) =>
      match assoc (VStr s_dictionary) st with
      | Some (VDict items) => items
      | _ => []
      end
  | _ => []
  end.

(* status == TaskStatus.DONE  (an IntEnum: the plain integer 3 compares equal) *)
Definition is_done_status (s : value) : bool :=
  value_eqb s (v_status 3) || value_eqb s (VInt 3).

(* entry['status'] != DONE ; KeyError / TypeError on malformed entries *)
Definition entry_done (e : value) : outcome bool :=
  match e with
  | VDict kv => match assoc (VStr s_status) kv with
                | Some s => Ret (is_done_status s)
                | None => Raises XKeyError
                end
  | _ => Raises XTypeError
  end.

Fixpoint merge_done (acc other : list (value * value)) : outcome (list (value * value)) :=
  match other with
  | [] => Ret acc
  | (k, e) :: r =>
      match entry_done e with
      | Raises c => Raises c
      | Ret true => merge_done (dset k e acc) r
      | Ret false => merge_done acc r
      end
  end.

(* the file system seen by read_env: task name -> state of  root/name/filename *)
Definition fsmap := list N -> file.

Fixpoint read_env_from (caught : exn -> bool) (fs : fsmap) (names : list (list N))
         (acc : list (value * value)) : outcome (list (value * value)) :=
  match names with
  | [] => Ret acc
  | n :: r =>
      match from_file caught (fs n) with
      | Raises c => Raises c
      | Ret None => read_env_from caught fs r acc
      | Ret (Some v) =>
          match merge_done acc (env_items v) with
          | Raises c => Raises c
          | Ret acc' => read_env_from caught fs r acc'
          end
      end
  end.

Definition read_env caught fs names := read_env_from caught fs names [].

(* write_env: one file per entry that has an 'output_dir', holding Env({name: entry});
   the plan is the list (output_dir, value to be pickled) in writing order *)
Definition output_dir (e : value) : option value :=
  match e with
  | VDict kv => assoc (VStr s_output_dir) kv
  | _ => None
  end.

Fixpoint write_plan (items : list (value * value)) : list (value * value) :=
  match items with
  | [] => []
  | (k, e) :: r =>
      match output_dir e with
      | Some d => (d, mk_env [(k, e)]) :: write_plan r
      | None => write_plan r
      end
  end.

(* ------------------------------------------------------------------ *)
(* what the generated cases files evaluate                              *)

Definition kind_code {A} (r : rd A) : nat :=
  match r with
  | Got _ => 9%nat
  | Fail EEOF => 0%nat
  | Fail ETrunc => 1%nat
  | Fail _ => 2%nat
  end.

Definition memb (k : nat) (l : list N) : bool := existsb (N.eqb (N.of_nat k)) l.

(* at the offsets [offs] (all offsets < length b when [offs] is empty) the
   prefix fails: EOF exactly at the offsets listed in [eofs], truncation elsewhere *)
Definition prefixes_ok {A} (d : list N -> rd A) (b : list N) (offs eofs : list N) : bool :=
  let offs' := match offs with [] => seq 0 (length b) | _ => map N.to_nat offs end in
  forallb (fun k => Nat.eqb (kind_code (d (firstn k b))) (if memb k eofs then 0 else 1)%nat) offs'.

Definition dec_is (b : list N) (v : value) : bool :=
  match dec b with
  | Got (v', []) => value_eqb v' v
  | _ => false
  end.

(* file-system histories through write_env / read_env.
   Paths are byte strings; [OWriteEnv] carries the environment given to the real
   write_env and the files it was observed to (re)write, with their bytes. *)
Inductive fsop :=
| OWriteEnv (items : list (value * value)) (written : list (list N * list N))
| OPut (path : list N) (b : list N)         (* arbitrary content put there (crash residue, garbage) *)
| OCut (path : list N) (k : N)              (* file truncated to its first k bytes *)
| ODelete (path : list N)
| ONoRead (path : list N)                   (* path made unreadable (a directory) *)
| ORead (root filename : list N) (names : list (list N))
        (expect : option (list (value * value))).   (* None = the real read_env raised *)

Definition fstate := list (list N * file).

Fixpoint fs_get (fs : fstate) (p : list N) : file :=
  match fs with
  | [] => FMissing
  | (q, f) :: r => if list_eqbN p q then f else fs_get r p
  end.

Definition fs_put (fs : fstate) (p : list N) (f : file) : fstate := (p, f) :: fs.

Definition join_path (d f : list N) : list N := d ++ 47 :: f.

Definition task_file (root filename name : list N) : list N :=
  join_path (join_path root name) filename.

Fixpoint items_eqb (a b : list (value * value)) : bool :=
  match a, b with
  | [], [] => true
  | (k, v) :: r, (k', v') :: r' => value_eqb k k' && value_eqb v v' && items_eqb r r'
  | _, _ => false
  end.

(* same keys with same values, in any order (keys are distinct on both sides) *)
Definition items_same (a b : list (value * value)) : bool :=
  Nat.eqb (length a) (length b) &&
  forallb (fun kv => match assoc (fst kv) b with
                     | Some v => value_eqb v (snd kv)
                     | None => false
                     end) a.

(* the observed writes are those of the plan: same set of paths, and the last
   planned value for a path is what the observed file decodes to *)
Definition plan_paths (filename : list N) (plan : list (value * value)) : list (list N) :=
  flat_map (fun dv => match fst dv with VStr d => [join_path d filename] | _ => [] end) plan.

Fixpoint last_planned (filename p : list N) (plan : list (value * value)) (acc : option value) : option value :=
  match plan with
  | [] => acc
  | (VStr d, v) :: r =>
      last_planned filename p r (if list_eqbN (join_path d filename) p then Some v else acc)
  | _ :: r => last_planned filename p r acc
  end.

Definition writes_ok (filename : list N) (items : list (value * value))
           (written : list (list N * list N)) : bool :=
  let plan := write_plan items in
  let pp := plan_paths filename plan in
  forallb (fun pb => match last_planned filename (fst pb) plan None with
                     | Some v => dec_is (snd pb) v
                     | None => false
                     end) written
  && forallb (fun p => existsb (fun pb => list_eqbN p (fst pb)) written) pp.

Definition cut_file (f : file) (k : nat) : file :=
  match f with FData b => FData (firstn k b) | _ => f end.

Fixpoint run_ops (filename : list N) (ops : list fsop) (fs : fstate) : bool :=
  match ops with
  | [] => true
  | OWriteEnv items written :: r =>
      writes_ok filename items written
      && run_ops filename r (fold_left (fun fs pb => fs_put fs (fst pb) (FData (snd pb))) written fs)
  | OPut p b :: r => run_ops filename r (fs_put fs p (FData b))
  | OCut p k :: r => run_ops filename r (fs_put fs p (cut_file (fs_get fs p) (N.to_nat k)))
  | ODelete p :: r => run_ops filename r (fs_put fs p FMissing)
  | ONoRead p :: r => run_ops filename r (fs_put fs p FNoRead)
  | ORead root fname names expect :: r =>
      match read_env caught_now (fun n => fs_get fs (task_file root fname n)) names, expect with
      | Ret got, Some want => items_same got want && items_same want got
      | Raises _, None => true
      | _, _ => false
      end && run_ops filename r fs
  end.

Inductive case :=
| CDec (b : list N) (v : value) (offs eofs : list N)   (* value + prefixes, value machine *)
| CScan (b : list N) (offs eofs : list N)              (* opcode stream + prefixes *)
| CFs (filename : list N) (ops : list fsop)
| CCaught (c : exn) (impl_returns_none : bool).

Definition check_case (c : case) : bool :=
  match c with
  | CDec b v offs eofs => dec_is b v && prefixes_ok dec b offs eofs
  | CScan b offs eofs =>
      match scan b with Got (_, []) => true | _ => false end && prefixes_ok scan b offs eofs
  | CFs filename ops => run_ops filename ops []
  | CCaught c none => implb (caught_now c) none
  end.

(* C14 — proofs, part 2: read_env over a file system whose files are intact
   or damaged (missing, unreadable, empty, cut anywhere); histories of writes,
   cuts and deletions. *)
From Coq Require Import List ZArith NArith Bool Arith Lia.
From VV Require Import C14.Model C14.Proofs.
Import ListNotations.
Open Scope N_scope.

(* ---------------- small facts ---------------- *)

Lemma list_eqbN_eq a : forall b, list_eqbN a b = true <-> a = b.
Proof.
  induction a as [|x a IH]; intros [|y b]; cbn; try (split; congruence).
  rewrite andb_true_iff, N.eqb_eq, IH. split; [intros [-> ->]; reflexivity|].
  intros E; inversion E; auto.
Qed.

Lemma list_eqbN_refl a : list_eqbN a a = true.
Proof. apply list_eqbN_eq. reflexivity. Qed.

Lemma value_eqb_VStr a k : value_eqb (VStr a) k = true -> k = VStr a.
Proof. destruct k; cbn; try discriminate. intros H. apply list_eqbN_eq in H. congruence. Qed.

Lemma value_eqb_VStr_refl a : value_eqb (VStr a) (VStr a) = true.
Proof. cbn. apply list_eqbN_refl. Qed.

(* ---------------- d[k] = v ---------------- *)

Lemma dset_in a e acc k' e' :
  In (k', e') (dset (VStr a) e acc) -> In (k', e') acc \/ (k' = VStr a /\ e' = e).
Proof.
  induction acc as [|[k0 v0] acc IH]; cbn [dset In].
  - intros [H|[]]. inversion H; subst. right. split; reflexivity.
  - destruct (value_eqb (VStr a) k0) eqn:E; cbn [In].
    + intros [H|H]; [|left; right; exact H].
      inversion H; subst. right. split; [apply value_eqb_VStr; exact E | reflexivity].
    + intros [H|H]; [left; left; exact H|].
      destruct (IH H) as [H1|H1]; [left; right; exact H1 | right; exact H1].
Qed.

Lemma dset_new a e acc : In (VStr a, e) (dset (VStr a) e acc).
Proof.
  induction acc as [|[k0 v0] acc IH]; cbn [dset In]; [left; reflexivity|].
  destruct (value_eqb (VStr a) k0) eqn:E; cbn [In].
  - left. apply value_eqb_VStr in E. subst. reflexivity.
  - right. exact IH.
Qed.

Lemma dset_old a e acc k' e' :
  In (k', e') acc -> (k' = VStr a -> e' = e) -> In (k', e') (dset (VStr a) e acc).
Proof.
  induction acc as [|[k0 v0] acc IH]; cbn [dset In]; [intros []|].
  intros [H|H] Hk.
  - inversion H; subst. destruct (value_eqb (VStr a) k') eqn:E; cbn [In].
    + left. apply value_eqb_VStr in E. rewrite (Hk E). reflexivity.
    + left. reflexivity.
  - destruct (value_eqb (VStr a) k0); cbn [In]; [right; exact H | right; apply IH; assumption].
Qed.

(* ---------------- file states ---------------- *)

(* the file holds a complete pickle of Env({k: e}) *)
Definition intact_for (f : file) (k e : value) : Prop :=
  exists b, f = FData b /\ dec b = Got (mk_env [(k, e)], []).

(* missing, unreadable, or cut anywhere (including empty) *)
Definition damaged (f : file) : Prop :=
  f = FMissing \/ f = FNoRead \/ exists p, f = FData p /\ strict_prefix_of_pickle p.

(* an entry as the scheduler leaves it: a dictionary with a 'status' *)
Definition wf_entry (e : value) : Prop :=
  exists kv s, e = VDict kv /\ assoc (VStr s_status) kv = Some s.

Definition done (e : value) : Prop := entry_done e = Ret true.

Definition file_ok (f : file) : Prop :=
  damaged f \/ exists s e, intact_for f (VStr s) e /\ wf_entry e.

Lemma wf_entry_done e : wf_entry e -> exists b, entry_done e = Ret b.
Proof. intros (kv & s & -> & H). cbn. rewrite H. eexists; reflexivity. Qed.

Lemma damaged_not_intact f k e : damaged f -> intact_for f k e -> False.
Proof.
  intros [->|[->|(p & -> & full & v & rest & used & q & Hd & Hf & Hu & Hq)]] (b & Hb & Hdec);
    try discriminate.
  inversion Hb; subst b.
  destruct (dec_used_unique _ _ _ _ Hd Hf p q Hu Hq) as [E|E]; rewrite E in Hdec; discriminate.
Qed.

Lemma intact_unique f k e k' e' : intact_for f k e -> intact_for f k' e' -> k = k' /\ e = e'.
Proof.
  intros (b & -> & H) (b' & Hb & H'). inversion Hb; subst b'. rewrite H in H'.
  inversion H'. split; reflexivity.
Qed.

Section ReadEnv.
  Variable caught : exn -> bool.
  Hypothesis caught_eof : caught XEOFError = true.
  Hypothesis caught_unpickling : caught XUnpicklingError = true.
  Hypothesis caught_oserror : caught XOSError = true.

  Lemma from_file_damaged f : damaged f -> from_file caught f = Ret None.
  Proof.
    intros [->|[->|(p & -> & Hp)]]; cbn; try (rewrite caught_oserror; reflexivity).
    apply from_file_never_raises_on_prefix; assumption.
  Qed.

  Lemma from_file_intact f k e :
    intact_for f k e -> from_file caught f = Ret (Some (mk_env [(k, e)])).
  Proof. intros (b & -> & H). unfold from_file. rewrite H. reflexivity. Qed.

  Lemma env_items_mk items : env_items (mk_env items) = items.
  Proof. reflexivity. Qed.

  Variable fs : fsmap.

  Lemma read_env_from_spec : forall names acc,
    (forall n, In n names -> file_ok (fs n)) ->
    exists r, read_env_from caught fs names acc = Ret r /\
      (forall k e, In (k, e) r ->
         In (k, e) acc \/ exists n, In n names /\ intact_for (fs n) k e /\ done e) /\
      (forall s e,
         (forall n' e', In n' names -> intact_for (fs n') (VStr s) e' -> e' = e) ->
         In (VStr s, e) acc \/ (exists n, In n names /\ intact_for (fs n) (VStr s) e /\ done e) ->
         In (VStr s, e) r).
  Proof.
    induction names as [|n names IH]; intros acc Hok.
    - exists acc. cbn. split; [reflexivity|]. split.
      + intros k e H. left. exact H.
      + intros s e _ [H|(n & [] & _)]. exact H.
    - assert (Hok' : forall m, In m names -> file_ok (fs m)) by (intros m Hm; apply Hok; right; exact Hm).
      destruct (Hok n (or_introl eq_refl)) as [Hd | (s1 & e1 & Hi & Hwf)].
      + (* a damaged file: skipped *)
        destruct (IH acc Hok') as (r & Hr & Hs & Hc).
        exists r. cbn. rewrite (from_file_damaged _ Hd). split; [exact Hr|]. split.
        * intros k e H. destruct (Hs k e H) as [H1|(m & Hm & H2)]; [left; exact H1|].
          right. exists m. split; [right; exact Hm | exact H2].
        * intros s e Hcons [H|(m & [<-|Hm] & Hm2 & Hm3)].
          -- apply Hc; [|left; exact H]. intros n' e' Hn'. apply Hcons. right. exact Hn'.
          -- exfalso. eapply damaged_not_intact; eauto.
          -- apply Hc; [|right; exists m; auto]. intros n' e' Hn'. apply Hcons. right. exact Hn'.
      + (* an intact file: its entry is merged if it is DONE *)
        destruct (wf_entry_done _ Hwf) as [bd Hbd].
        cbn. rewrite (from_file_intact _ _ _ Hi), env_items_mk. cbn. rewrite Hbd.
        destruct bd.
        * destruct (IH (dset (VStr s1) e1 acc) Hok') as (r & Hr & Hs & Hc).
          exists r. split; [exact Hr|]. split.
          -- intros k e H. destruct (Hs k e H) as [H1|(m & Hm & H2)].
             ++ destruct (dset_in _ _ _ _ _ H1) as [H3|[-> ->]]; [left; exact H3|].
                right. exists n. split; [left; reflexivity|]. split; [exact Hi | exact Hbd].
             ++ right. exists m. split; [right; exact Hm | exact H2].
          -- intros s e Hcons Hin.
             apply Hc; [intros n' e' Hn'; apply Hcons; right; exact Hn'|].
             destruct Hin as [H|(m & [<-|Hm] & Hm2 & Hm3)].
             ++ left. apply dset_old; [exact H|]. intros E. inversion E; subst s1.
                symmetry. apply (Hcons n e1); [left; reflexivity | exact Hi].
             ++ destruct (intact_unique _ _ _ _ _ Hi Hm2) as [E1 E2]. inversion E1; subst.
                left. apply dset_new.
             ++ right. exists m. auto.
        * destruct (IH acc Hok') as (r & Hr & Hs & Hc).
          exists r. split; [exact Hr|]. split.
          -- intros k e H. destruct (Hs k e H) as [H1|(m & Hm & H2)]; [left; exact H1|].
             right. exists m. split; [right; exact Hm | exact H2].
          -- intros s e Hcons Hin.
             apply Hc; [intros n' e' Hn'; apply Hcons; right; exact Hn'|].
             destruct Hin as [H|(m & [<-|Hm] & Hm2 & Hm3)].
             ++ left. exact H.
             ++ destruct (intact_unique _ _ _ _ _ Hi Hm2) as [E1 E2]. subst.
                unfold done in Hm3. rewrite Hbd in Hm3. discriminate.
             ++ right. exists m. auto.
  Qed.

  (* read_env: never raises; reports exactly the DONE entries of intact files *)
  Theorem read_env_spec : forall names,
    (forall n, In n names -> file_ok (fs n)) ->
    exists r, read_env caught fs names = Ret r /\
      (forall k e, In (k, e) r -> exists n, In n names /\ intact_for (fs n) k e /\ done e) /\
      (forall n s e, In n names -> intact_for (fs n) (VStr s) e -> done e ->
         (forall n' e', In n' names -> intact_for (fs n') (VStr s) e' -> e' = e) ->
         In (VStr s, e) r).
  Proof.
    intros names Hok. destruct (read_env_from_spec names [] Hok) as (r & Hr & Hs & Hc).
    exists r. split; [exact Hr|]. split.
    - intros k e H. destruct (Hs k e H) as [[]|H1]. exact H1.
    - intros n s e Hn Hi Hd Hcons. apply Hc; [exact Hcons|]. right. exists n. auto.
  Qed.
End ReadEnv.

(* ---------------- histories: complete writes, cuts, deletions ---------------- *)

Inductive hop :=
| HWrite (n : list N) (b : list N)   (* to_file ran to completion: the file now holds b *)
| HCut (n : list N) (j : nat)        (* a crash left only the first j bytes (also: crash during a write) *)
| HDelete (n : list N).

Definition upd (fs : fsmap) (n : list N) (f : file) : fsmap :=
  fun m => if list_eqbN m n then f else fs m.

Definition apply_hop (fs : fsmap) (o : hop) : fsmap :=
  match o with
  | HWrite n b => upd fs n (FData b)
  | HCut n j => upd fs n (cut_file (fs n) j)
  | HDelete n => upd fs n FMissing
  end.

(* what is written is a pickle of Env({name: entry}), by whatever pickler *)
Definition valid_hop (o : hop) : Prop :=
  match o with
  | HWrite n b => exists s e, dec b = Got (mk_env [(VStr s, e)], []) /\ wf_entry e
  | _ => True
  end.

Definition fs0 : fsmap := fun _ => FMissing.

Lemma firstn_split_strict {A} (j : nat) (l : list A) :
  (j < length l)%nat -> l = firstn j l ++ skipn j l /\ skipn j l <> [].
Proof.
  intros H. split; [symmetry; apply firstn_skipn|].
  intros E. apply (f_equal (@length A)) in E. rewrite skipn_length in E. cbn in E. lia.
Qed.

Lemma cut_ok f j : file_ok f -> file_ok (cut_file f j).
Proof.
  intros [[->|[->|(p & -> & full & v & rest & used & q & Hd & Hf & Hu & Hq)]] | (s & e & (b & -> & Hb) & Hwf)].
  - left. left. reflexivity.
  - left. right. left. reflexivity.
  - left. right. right. exists (firstn j p). split; [reflexivity|].
    exists full, v, rest, used, (skipn j p ++ q). repeat split; auto.
    + rewrite app_assoc, firstn_skipn. exact Hu.
    + intros E. apply app_eq_nil in E. destruct E as [_ E]. contradiction.
  - cbn. destruct (Nat.lt_ge_cases j (length b)) as [Hlt|Hge].
    + left. right. right. exists (firstn j b). split; [reflexivity|].
      destruct (firstn_split_strict j b Hlt) as [E1 E2].
      exists b, (mk_env [(VStr s, e)]), [], b, (skipn j b). repeat split; auto.
      rewrite app_nil_r. reflexivity.
    + right. exists s, e. split; [|exact Hwf]. exists b. split; [|exact Hb].
      rewrite firstn_all2; [reflexivity | exact Hge].
Qed.

Lemma apply_hop_ok fs o : valid_hop o -> (forall n, file_ok (fs n)) -> forall n, file_ok (apply_hop fs o n).
Proof.
  intros Hv Hok n. destruct o as [m b|m j|m]; cbn; unfold upd; destruct (list_eqbN n m); auto.
  - destruct Hv as (s & e & Hd & Hwf). right. exists s, e. split; [|exact Hwf]. exists b. auto.
  - apply cut_ok. apply Hok.
  - left. left. reflexivity.
Qed.

Lemma history_ok ops : Forall valid_hop ops ->
  forall fs, (forall n, file_ok (fs n)) -> forall n, file_ok (fold_left apply_hop ops fs n).
Proof.
  induction 1 as [|o ops Hv _ IH]; intros fs Hok; cbn; [exact Hok|].
  apply IH. apply apply_hop_ok; assumption.
Qed.

(* after ANY history of complete writes, cuts at any byte and deletions, starting
   from an empty output directory, read_env does not raise and reports exactly
   the DONE entries of the files that are intact at that moment *)
Theorem read_env_after_history : forall caught ops names,
  caught XEOFError = true -> caught XUnpicklingError = true -> caught XOSError = true ->
  Forall valid_hop ops ->
  let fs := fold_left apply_hop ops fs0 in
  exists r, read_env caught fs names = Ret r /\
    (forall k e, In (k, e) r -> exists n, In n names /\ intact_for (fs n) k e /\ done e) /\
    (forall n s e, In n names -> intact_for (fs n) (VStr s) e -> done e ->
       (forall n' e', In n' names -> intact_for (fs n') (VStr s) e' -> e' = e) ->
       In (VStr s, e) r).
Proof.
  intros caught ops names H1 H2 H3 Hv fs.
  apply read_env_spec; auto.
  intros n _. apply history_ok; [exact Hv|]. intros m. left. left. reflexivity.
Qed.

(* what "intact at that moment" means in terms of the history *)
Lemma written_last fs n b : apply_hop fs (HWrite n b) n = FData b.
Proof. cbn. unfold upd. rewrite list_eqbN_refl. reflexivity. Qed.

Lemma other_file_untouched fs o n :
  (match o with HWrite m _ | HCut m _ | HDelete m => m end) <> n -> apply_hop fs o n = fs n.
Proof.
  intros H. destruct o as [m b|m j|m]; cbn; unfold upd;
    (destruct (list_eqbN n m) eqn:E; [apply list_eqbN_eq in E; congruence | reflexivity]).
Qed.

Lemma crash_during_write_damaged fs n b j s e :
  dec b = Got (mk_env [(VStr s, e)], []) -> (j < length b)%nat ->
  damaged (apply_hop (apply_hop fs (HWrite n b)) (HCut n j) n).
Proof.
  intros Hd Hlt. cbn. unfold upd. rewrite !list_eqbN_refl. cbn.
  right. right. exists (firstn j b). split; [reflexivity|].
  destruct (firstn_split_strict j b Hlt) as [E1 E2].
  exists b, (mk_env [(VStr s, e)]), [], b, (skipn j b). repeat split; auto.
  rewrite app_nil_r. reflexivity.
Qed.

(* the except clauses of the pinned tree: read_env aborts on an empty file *)
Theorem read_env_pinned_refuted :
  exists fs names, (forall n, file_ok (fs n)) /\ read_env caught_pinned fs names = Raises XEOFError.
Proof.
  exists (fun _ => FData []), [[116]]. split; [|reflexivity].
  intros n. left. right. right. exists []. split; [reflexivity|].
  exists [78; 46], VNone, [], [78; 46], [78; 46]. repeat split; try reflexivity. discriminate.
Qed.

(* C14 — proofs, part 1: the unpickler never decodes a strict prefix.
   Everything here is about the generic machine [run]: it holds for any opcode
   semantics [exec] that does not look at the input beyond its argument, hence
   for the value machine [dec] and for the opcode-stream machine [scan]. *)
From Coq Require Import List ZArith NArith Bool Arith Lia.
From VV Require Import C14.Model.
Import ListNotations.
Open Scope N_scope.

(* ---------------- byte readers ---------------- *)

Lemma takeN_eq b n :
  takeN b n = if N.eqb n 0 then Some ([], b)
              else match b with
                   | [] => None
                   | x :: r => match takeN r (N.pred n) with
                               | None => None
                               | Some (p, r') => Some (x :: p, r')
                               end
                   end.
Proof. destruct b; reflexivity. Qed.

Lemma takeN_split b : forall n p r, takeN b n = Some (p, r) -> b = p ++ r.
Proof.
  induction b as [|x b IH]; intros n p r H; rewrite takeN_eq in H;
    destruct (N.eqb n 0); try discriminate.
  - inversion H; reflexivity.
  - inversion H; reflexivity.
  - destruct (takeN b (N.pred n)) as [[p' r']|] eqn:E; [|discriminate].
    inversion H; subst. cbn. f_equal. eapply IH; eauto.
Qed.

Lemma takeN_prefix q : forall t n p r,
  takeN (q ++ t) n = Some (p, r) ->
  takeN q n = None \/ exists r', takeN q n = Some (p, r') /\ r = r' ++ t.
Proof.
  induction q as [|x q IH]; intros t n p r H.
  - cbn [app] in H. rewrite takeN_eq in H. rewrite (takeN_eq [] n).
    destruct (N.eqb n 0); [|left; reflexivity].
    inversion H; subst. right. exists []. split; reflexivity.
  - cbn [app] in H. rewrite takeN_eq in H. rewrite (takeN_eq (x :: q) n).
    destruct (N.eqb n 0).
    + inversion H; subst. right. exists (x :: q). split; reflexivity.
    + destruct (takeN (q ++ t) (N.pred n)) as [[p' r0]|] eqn:E; [|discriminate].
      inversion H; subst.
      destruct (IH _ _ _ _ E) as [Hn | [r' [Hs Hr]]].
      * left. rewrite Hn. reflexivity.
      * right. exists r'. rewrite Hs. split; [reflexivity | exact Hr].
Qed.

Lemma take_line_split b : forall l r, take_line b = Some (l, r) -> b = l ++ 10 :: r.
Proof.
  induction b as [|x b IH]; intros l r H; cbn in H; [discriminate|].
  destruct (N.eqb x 10) eqn:E.
  - apply N.eqb_eq in E. inversion H; subst. reflexivity.
  - destruct (take_line b) as [[l' r']|] eqn:E2; [|discriminate].
    inversion H; subst. cbn. f_equal. apply IH. reflexivity.
Qed.

Lemma take_line_prefix q : forall t l r,
  take_line (q ++ t) = Some (l, r) ->
  take_line q = None \/ exists r', take_line q = Some (l, r') /\ r = r' ++ t.
Proof.
  induction q as [|x q IH]; intros t l r H.
  - left. reflexivity.
  - cbn in H. cbn. destruct (N.eqb x 10).
    + inversion H; subst. right. exists q. split; reflexivity.
    + destruct (take_line (q ++ t)) as [[l' r0]|] eqn:E; [|discriminate].
      inversion H; subst.
      destruct (IH _ _ _ E) as [Hn | [r' [Hs Hr]]].
      * left. rewrite Hn. reflexivity.
      * right. exists r'. rewrite Hs. split; [reflexivity | exact Hr].
Qed.

(* what [read_arg] leaves is a suffix of its input *)
Lemma read_arg_split sh b a r : read_arg sh b = Got (a, r) -> exists c, b = c ++ r.
Proof.
  destruct sh; cbn; intros H.
  - inversion H; subst. exists []. reflexivity.
  - destruct (takeN b n) as [[p r0]|] eqn:E; [|discriminate]. inversion H; subst.
    exists a. eapply takeN_split; eauto.
  - destruct (takeN b k) as [[l b1]|] eqn:E; [|discriminate].
    destruct (takeN b1 (le l)) as [[p r0]|] eqn:E2; [|discriminate]. inversion H; subst.
    apply takeN_split in E. apply takeN_split in E2. subst.
    exists (l ++ a). rewrite app_assoc. reflexivity.
  - destruct (takeN b 8) as [[l b1]|] eqn:E; [|discriminate].
    destruct (takeN b1 (le l)) as [[p r0]|] eqn:E2; [|discriminate]. inversion H; subst.
    apply takeN_split in E. exists a. exact E.
  - destruct (take_line b) as [[l r0]|] eqn:E; [|discriminate]. inversion H; subst.
    apply take_line_split in E. exists (a ++ [10]). rewrite <- app_assoc. exact E.
  - destruct (take_line b) as [[l1 b1]|] eqn:E; [|discriminate].
    destruct (take_line b1) as [[l2 b2]|] eqn:E2; [|discriminate]. inversion H; subst.
    apply take_line_split in E. apply take_line_split in E2. subst.
    exists (l1 ++ 10 :: l2 ++ [10]).
    rewrite <- !app_assoc. cbn. rewrite <- !app_assoc. reflexivity.
Qed.

(* prefix lemma of the argument reader: on a prefix of its input it either
   reports truncation or reads the same argument and leaves the matching prefix *)
Lemma read_arg_prefix sh q t a r :
  read_arg sh (q ++ t) = Got (a, r) ->
  read_arg sh q = Fail ETrunc \/ exists r', read_arg sh q = Got (a, r') /\ r = r' ++ t.
Proof.
  destruct sh; cbn; intros H.
  - inversion H; subst. right. exists q. split; reflexivity.
  - destruct (takeN (q ++ t) n) as [[p r0]|] eqn:E; [|discriminate]. inversion H; subst.
    destruct (takeN_prefix _ _ _ _ _ E) as [Hn | [r' [Hs Hr]]].
    + left. rewrite Hn. reflexivity.
    + right. exists r'. rewrite Hs. split; [reflexivity | exact Hr].
  - destruct (takeN (q ++ t) k) as [[l b1]|] eqn:E; [|discriminate].
    destruct (takeN b1 (le l)) as [[p r0]|] eqn:E2; [|discriminate]. inversion H; subst.
    destruct (takeN_prefix _ _ _ _ _ E) as [Hn | [r1 [Hs Hr]]].
    + left. rewrite Hn. reflexivity.
    + rewrite Hs. subst b1.
      destruct (takeN_prefix _ _ _ _ _ E2) as [Hn | [r' [Hs2 Hr2]]].
      * left. rewrite Hn. reflexivity.
      * right. exists r'. rewrite Hs2. split; [reflexivity | exact Hr2].
  - destruct (takeN (q ++ t) 8) as [[l b1]|] eqn:E; [|discriminate].
    destruct (takeN b1 (le l)) as [[p r0]|] eqn:E2; [|discriminate]. inversion H; subst.
    destruct (takeN_prefix _ _ _ _ _ E) as [Hn | [r1 [Hs Hr]]].
    + left. rewrite Hn. reflexivity.
    + rewrite Hs. subst r.
      destruct (takeN_prefix _ _ _ _ _ E2) as [Hn | [r' [Hs2 Hr2]]].
      * left. rewrite Hn. reflexivity.
      * right. exists r1. rewrite Hs2. split; reflexivity.
  - destruct (take_line (q ++ t)) as [[l r0]|] eqn:E; [|discriminate]. inversion H; subst.
    destruct (take_line_prefix _ _ _ _ E) as [Hn | [r' [Hs Hr]]].
    + left. rewrite Hn. reflexivity.
    + right. exists r'. rewrite Hs. split; [reflexivity | exact Hr].
  - destruct (take_line (q ++ t)) as [[l1 b1]|] eqn:E; [|discriminate].
    destruct (take_line b1) as [[l2 b2]|] eqn:E2; [|discriminate]. inversion H; subst.
    destruct (take_line_prefix _ _ _ _ E) as [Hn | [r1 [Hs Hr]]].
    + left. rewrite Hn. reflexivity.
    + rewrite Hs. subst b1.
      destruct (take_line_prefix _ _ _ _ E2) as [Hn | [r' [Hs2 Hr2]]].
      * left. rewrite Hn. reflexivity.
      * right. exists r'. rewrite Hs2. split; [reflexivity | exact Hr2].
Qed.

(* and on an extension of its input it reads the same thing *)
Lemma takeN_ext b : forall n p r t, takeN b n = Some (p, r) -> takeN (b ++ t) n = Some (p, r ++ t).
Proof.
  induction b as [|x b IH]; intros n p r t H; rewrite takeN_eq in H; rewrite takeN_eq;
    cbn [app]; destruct (N.eqb n 0); try discriminate.
  - inversion H; subst. reflexivity.
  - inversion H; subst. reflexivity.
  - destruct (takeN b (N.pred n)) as [[p' r']|] eqn:E; [|discriminate]. inversion H; subst.
    rewrite (IH _ _ _ t E). reflexivity.
Qed.

Lemma take_line_ext b : forall l r t, take_line b = Some (l, r) -> take_line (b ++ t) = Some (l, r ++ t).
Proof.
  induction b as [|x b IH]; intros l r t H; cbn in H; [discriminate|]. cbn.
  destruct (N.eqb x 10).
  - inversion H; subst. reflexivity.
  - destruct (take_line b) as [[l' r']|] eqn:E; [|discriminate]. inversion H; subst.
    rewrite (IH _ _ t eq_refl). reflexivity.
Qed.

Lemma read_arg_ext sh b a r t :
  read_arg sh b = Got (a, r) -> read_arg sh (b ++ t) = Got (a, r ++ t).
Proof.
  destruct sh; cbn; intros H.
  - inversion H; subst. reflexivity.
  - destruct (takeN b n) as [[p r0]|] eqn:E; [|discriminate]. inversion H; subst.
    rewrite (takeN_ext _ _ _ _ t E). reflexivity.
  - destruct (takeN b k) as [[l b1]|] eqn:E; [|discriminate].
    destruct (takeN b1 (le l)) as [[p r0]|] eqn:E2; [|discriminate]. inversion H; subst.
    rewrite (takeN_ext _ _ _ _ t E), (takeN_ext _ _ _ _ t E2). reflexivity.
  - destruct (takeN b 8) as [[l b1]|] eqn:E; [|discriminate].
    destruct (takeN b1 (le l)) as [[p r0]|] eqn:E2; [|discriminate]. inversion H; subst.
    rewrite (takeN_ext _ _ _ _ t E), (takeN_ext _ _ _ _ t E2). reflexivity.
  - destruct (take_line b) as [[l r0]|] eqn:E; [|discriminate]. inversion H; subst.
    rewrite (take_line_ext _ _ _ t E). reflexivity.
  - destruct (take_line b) as [[l1 b1]|] eqn:E; [|discriminate].
    destruct (take_line b1) as [[l2 b2]|] eqn:E2; [|discriminate]. inversion H; subst.
    rewrite (take_line_ext _ _ _ t E), (take_line_ext _ _ _ t E2). reflexivity.
Qed.

(* ---------------- the machine ---------------- *)

Section MachineProofs.
  Variables St V : Type.
  Variable shape_tbl : N -> option shape.
  Variable exec : N -> list N -> St -> step St V.

  Notation run := (run St V shape_tbl exec).
  Notation load := (load St V shape_tbl exec).

  Definition trunc_err (x : rd (V * list N)) : Prop := x = Fail EEOF \/ x = Fail ETrunc.

  (* the induction over the machine run *)
  Lemma run_prefix : forall fuel s b v rest,
    run fuel s b = Got (v, rest) ->
    exists used, b = used ++ rest /\
      forall p q, used = p ++ q -> q <> [] ->
      forall fuel', trunc_err (run fuel' s p) \/ run fuel' s p = Fail EFuel.
  Proof.
    induction fuel as [|f IH]; intros s b v rest H; [discriminate|].
    cbn in H. destruct b as [|op b1]; [discriminate|].
    destruct (shape_tbl op) as [sh|] eqn:Hsh; [|discriminate].
    destruct (read_arg sh b1) as [[arg b2]|e] eqn:Hrd; [|discriminate].
    destruct (exec op arg s) as [s'|v'|e] eqn:Hex; [| |discriminate].
    - (* the machine goes on *)
      destruct (IH _ _ _ _ H) as [used2 [Hb2 Hpre]].
      destruct (read_arg_split _ _ _ _ Hrd) as [c Hc].
      exists (op :: c ++ used2). split.
      { cbn. rewrite <- app_assoc, <- Hb2, <- Hc. reflexivity. }
      intros p q Hpq Hq fuel'.
      destruct fuel' as [|f']; [right; reflexivity|].
      destruct p as [|op' p1]; [left; left; reflexivity|].
      cbn in Hpq. inversion Hpq; subst op'. cbn. rewrite Hsh.
      assert (Hb1 : b1 = p1 ++ (q ++ rest)).
      { rewrite Hc, Hb2, app_assoc, H2, <- app_assoc. reflexivity. }
      rewrite Hb1 in Hrd.
      destruct (read_arg_prefix _ _ _ _ _ Hrd) as [Ht | [r' [Hr' Hb2']]].
      + rewrite Ht. left; right; reflexivity.
      + rewrite Hr', Hex.
        apply (Hpre r' q); [|exact Hq].
        rewrite Hb2 in Hb2'. rewrite app_assoc in Hb2'.
        apply app_inv_tail in Hb2'. exact Hb2'.
    - (* STOP *)
      inversion H; subst v' b2.
      destruct (read_arg_split _ _ _ _ Hrd) as [c Hc].
      exists (op :: c). split; [cbn; rewrite <- Hc; reflexivity|].
      intros p q Hpq Hq fuel'.
      destruct fuel' as [|f']; [right; reflexivity|].
      destruct p as [|op' p1]; [left; left; reflexivity|].
      cbn in Hpq. inversion Hpq; subst op'. cbn. rewrite Hsh.
      assert (Hb1 : b1 = p1 ++ (q ++ rest)).
      { rewrite Hc, H2, <- app_assoc. reflexivity. }
      rewrite Hb1 in Hrd.
      destruct (read_arg_prefix _ _ _ _ _ Hrd) as [Ht | [r' [Hr' Hb2']]].
      + rewrite Ht. left; right; reflexivity.
      + exfalso. apply (f_equal (@length N)) in Hb2'. rewrite !app_length in Hb2'.
        destruct q; [apply Hq; reflexivity | cbn in Hb2'; lia].
  Qed.

  (* the fuel given by [load] is never exhausted *)
  Lemma run_fuel : forall fuel s b, (length b < fuel)%nat -> run fuel s b <> Fail EFuel.
  Proof.
    induction fuel as [|f IH]; intros s b Hlen; [lia|].
    cbn. destruct b as [|op b1]; [discriminate|].
    destruct (shape_tbl op) as [sh|]; [|discriminate].
    destruct (read_arg sh b1) as [[arg b2]|e] eqn:Hrd.
    - destruct (exec op arg s) as [s'|v'|e]; try discriminate.
      apply IH. destruct (read_arg_split _ _ _ _ Hrd) as [c Hc]. subst b1.
      cbn in Hlen. rewrite app_length in Hlen. lia.
    - destruct sh; cbn in Hrd;
        repeat match type of Hrd with
               | context [match ?x with _ => _ end] => destruct x
               end; inversion Hrd; discriminate.
  Qed.

  (* more fuel changes nothing once a run has finished *)
  Lemma run_more_fuel : forall fuel s b v rest,
    run fuel s b = Got (v, rest) -> forall fuel', (fuel <= fuel')%nat -> run fuel' s b = Got (v, rest).
  Proof.
    induction fuel as [|f IH]; intros s b v rest H fuel' Hle; [discriminate|].
    destruct fuel' as [|f']; [lia|].
    cbn in H |- *. destruct b as [|op b1]; [discriminate|].
    destruct (shape_tbl op) as [sh|]; [|discriminate].
    destruct (read_arg sh b1) as [[arg b2]|e]; [|discriminate].
    destruct (exec op arg s) as [s'|v'|e]; [|exact H|discriminate].
    apply (IH _ _ _ _ H). lia.
  Qed.

  (* THE PREFIX THEOREM.  If loading [b] succeeds, it consumed [used] (up to and
     including its STOP) and left [rest]; loading any strict prefix of [used]
     fails with EOFError or "pickle data was truncated" - never a value, never
     another error. *)
  Theorem load_prefix_err : forall s0 b v rest,
    load s0 b = Got (v, rest) ->
    exists used, b = used ++ rest /\
      forall p q, used = p ++ q -> q <> [] -> trunc_err (load s0 p).
  Proof.
    intros s0 b v rest H. unfold load in H.
    destruct (run_prefix _ _ _ _ _ H) as [used [Hb Hpre]].
    exists used. split; [exact Hb|].
    intros p q Hpq Hq. unfold load.
    destruct (Hpre p q Hpq Hq (S (length p))) as [Ht | Hf]; [exact Ht|].
    exfalso. apply (run_fuel (S (length p)) s0 p); [lia | exact Hf].
  Qed.

  (* whatever follows the STOP is not looked at *)
  Lemma run_ext : forall fuel s b v rest t,
    run fuel s b = Got (v, rest) -> run fuel s (b ++ t) = Got (v, rest ++ t).
  Proof.
    induction fuel as [|f IH]; intros s b v rest t H; [discriminate|].
    cbn in H. destruct b as [|op b1]; [discriminate|]. cbn.
    destruct (shape_tbl op) as [sh|]; [|discriminate].
    destruct (read_arg sh b1) as [[arg b2]|e] eqn:Hrd; [|discriminate].
    rewrite (read_arg_ext _ _ _ _ t Hrd).
    destruct (exec op arg s) as [s'|v'|e]; [| |discriminate].
    - apply IH. exact H.
    - inversion H; subst. reflexivity.
  Qed.

  Theorem load_ext : forall s0 b v rest t,
    load s0 b = Got (v, rest) -> load s0 (b ++ t) = Got (v, rest ++ t).
  Proof.
    intros s0 b v rest t H. unfold load in *.
    apply run_ext. apply (run_more_fuel _ _ _ _ _ H). rewrite app_length. lia.
  Qed.
End MachineProofs.

(* ---------------- instances ---------------- *)

Definition is_trunc {A} (x : rd A) : Prop := x = Fail EEOF \/ x = Fail ETrunc.

Theorem dec_prefix_err : forall b v rest,
  dec b = Got (v, rest) ->
  exists used, b = used ++ rest /\
    forall p q, used = p ++ q -> q <> [] -> is_trunc (dec p).
Proof. intros b v rest H. exact (load_prefix_err _ _ _ _ _ _ _ _ H). Qed.

Theorem scan_prefix_err : forall b rest,
  scan b = Got (tt, rest) ->
  exists used, b = used ++ rest /\
    forall p q, used = p ++ q -> q <> [] -> is_trunc (scan p).
Proof. intros b rest H. exact (load_prefix_err _ _ _ _ _ _ _ _ H). Qed.

Theorem dec_ext : forall b v rest t, dec b = Got (v, rest) -> dec (b ++ t) = Got (v, rest ++ t).
Proof. intros. apply load_ext. assumption. Qed.

(* ---------------- from_file ---------------- *)

(* a strict prefix of (the consumed part of) a loadable file *)
Definition strict_prefix_of_pickle (p : list N) : Prop :=
  exists full v rest used q,
    dec full = Got (v, rest) /\ full = used ++ rest /\ used = p ++ q /\ q <> [].

Lemma dec_used_unique b v rest used :
  dec b = Got (v, rest) -> b = used ++ rest ->
  forall p q, used = p ++ q -> q <> [] -> is_trunc (dec p).
Proof.
  intros H Hb p q Hpq Hq.
  destruct (dec_prefix_err _ _ _ H) as [used' [Hb' Hpre]].
  assert (used' = used) by (rewrite Hb in Hb'; apply app_inv_tail in Hb'; congruence).
  subst used'. eapply Hpre; eauto.
Qed.

Theorem from_file_never_raises_on_prefix : forall caught p,
  caught XEOFError = true -> caught XUnpicklingError = true ->
  strict_prefix_of_pickle p ->
  from_file caught (FData p) = Ret None.
Proof.
  intros caught p Heof Hunp (full & v & rest & used & q & Hd & Hf & Hu & Hq).
  destruct (dec_used_unique _ _ _ _ Hd Hf p q Hu Hq) as [E | E];
    unfold from_file; rewrite E; cbn; [rewrite Heof | rewrite Hunp]; reflexivity.
Qed.

(* the pinned tree: the empty file aborts the run *)
Theorem from_file_pinned_refuted :
  exists p, strict_prefix_of_pickle p /\ from_file caught_pinned (FData p) = Raises XEOFError.
Proof.
  exists []. split; [|reflexivity].
  exists [78; 46], VNone, [], [78; 46], [78; 46].
  repeat split; try reflexivity. discriminate.
Qed.

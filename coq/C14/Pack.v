(* C14 — transport encoding of byte strings in the generated cases files:
   7 bytes per primitive 63-bit integer literal, little-endian.  (A list of N
   numerals or a string literal costs the elaborator ~10 term nodes per byte;
   this costs one node per 7 bytes.)  Used by the cases files only, never by a
   theorem. *)
From Coq Require Import List ZArith NArith.
From Coq Require Import Uint63.
Import ListNotations.

Definition byte_of (w : int) (k : int) : N :=
  Z.to_N (Uint63.to_Z (PrimInt63.land (PrimInt63.lsr w k) 255%uint63)).

Definition bytes7 (w : int) : list N :=
  [byte_of w 0%uint63; byte_of w 8%uint63; byte_of w 16%uint63; byte_of w 24%uint63;
   byte_of w 32%uint63; byte_of w 40%uint63; byte_of w 48%uint63].

(* the first n bytes packed in ws *)
Definition up (n : N) (ws : list int) : list N :=
  firstn (N.to_nat n) (flat_map bytes7 ws).

Example up_example : up 9 [13847676123431479%uint63; 2312%uint63] = [55; 66; 77; 88; 99; 50; 49; 8; 9]%N.
Proof. vm_compute. reflexivity. Qed.

(* C14: the hypotheses of the theorems are met by concrete, non-trivial data;
   witnesses of the behaviour of the pinned (unrepaired) tree. *)
From Coq Require Import List ZArith NArith Lia.
From VV Require Import C14.Model C14.Proofs C14.Proofs2 C14.Proofs3 C14.Proofs4.
Import ListNotations.
Open Scope N_scope.

(* the bytes CPython 3.12 writes for
   Env({'t0': {'status': TaskStatus.DONE, 'output_dir': '/out/t0', 'result': [1, 2.5]}}) *)
Definition real_pickle : list N :=
[128;4;149;163;0;0;0;0;0;0;0;140;19;118;97;108;106;101;97;110;46;99;111;115;101;116;116;101;46;101;110;118;148;140;3;69;110;118;148;147;148;41;129;148;125;148;140;10;100;105;99;116;105;111;110;97;114;121;148;125;148;140;2;116;48;148;125;148;40;140;6;115;116;97;116;117;115;148;140;20;118;97;108;106;101;97;110;46;99;111;115;101;116;116;101;46;116;97;115;107;148;140;10;84;97;115;107;83;116;97;116;117;115;148;147;148;75;3;133;148;82;148;140;10;111;117;116;112;117;116;95;100;105;114;148;140;7;47;111;117;116;47;116;48;148;140;6;114;101;115;117;108;116;148;93;148;40;75;1;71;64;4;0;0;0;0;0;0;101;117;115;115;98;46].

Definition t0 : list N := [116; 48].
Definition entry0 : value :=
  VDict [(VStr s_status, v_status 3);
         (VStr s_output_dir, VStr [47;111;117;116;47;116;48]);
         (VStr [114;101;115;117;108;116], VList [VInt 1; VFloat 4612811918334230528])].

(* the real pickler's file is intact for (t0, entry0), a well-formed DONE entry *)
Example real_pickle_intact : intact_for (FData real_pickle) (VStr t0) entry0.
Proof. exists real_pickle. split; [reflexivity|]. vm_compute. reflexivity. Qed.

Example entry0_wf : wf_entry entry0.
Proof. eexists _, _. split; reflexivity. Qed.

Example entry0_done : done entry0.
Proof. reflexivity. Qed.

Example real_write_valid : valid_hop (HWrite t0 real_pickle).
Proof. exists t0, entry0. split; [vm_compute; reflexivity | exact entry0_wf]. Qed.

(* every one of its 174 strict prefixes is a "strict prefix of a pickle", e.g. the first 100 bytes *)
Example real_prefix_100 : strict_prefix_of_pickle (firstn 100 real_pickle).
Proof.
  exists real_pickle, (mk_env [(VStr t0, entry0)]), [], real_pickle, (skipn 100 real_pickle).
  repeat split; try (vm_compute; reflexivity). vm_compute. discriminate.
Qed.

(* write, crash-cut at byte 100, read: nothing is reported and nothing raises;
   without the crash the entry comes back *)
Example history_cut :
  read_env caught_now (fold_left apply_hop [HWrite t0 real_pickle; HCut t0 100] fs0) [t0] = Ret [].
Proof. vm_compute. reflexivity. Qed.

Example history_intact :
  read_env caught_now (fold_left apply_hop [HWrite t0 real_pickle] fs0) [t0] = Ret [(VStr t0, entry0)].
Proof. vm_compute. reflexivity. Qed.

(* the encoder: hypotheses of dec_enc hold for the same environment *)
Example enc_entry0 : dec (enc (mk_env [(VStr t0, entry0)])) = Got (mk_env [(VStr t0, entry0)], []).
Proof. vm_compute. reflexivity. Qed.

Example wf_small : wf (VTuple [VInt (-70000); VStr [97]; VNone]).
Proof.
  constructor. repeat constructor; vm_compute; reflexivity.
Qed.

(* the repaired except clauses satisfy the hypotheses of the read_env theorems *)
Example caught_now_ok :
  caught_now XEOFError = true /\ caught_now XUnpicklingError = true /\ caught_now XOSError = true.
Proof. repeat split. Qed.

(* ---- the pinned tree (IOError and ValueError only) ---- *)
Example pinned_table_fails : caught_pinned XEOFError = false /\ caught_pinned XUnpicklingError = false.
Proof. split; reflexivity. Qed.

(* the empty file raised EOFError out of from_file ... *)
Example from_file_pinned_refuted' :
  exists p, strict_prefix_of_pickle p /\ from_file caught_pinned (FData p) = Raises XEOFError.
Proof. exact from_file_pinned_refuted. Qed.

(* ... a file cut at byte 100 raised UnpicklingError ... *)
Example from_file_pinned_cut :
  from_file caught_pinned (FData (firstn 100 real_pickle)) = Raises XUnpicklingError.
Proof. vm_compute. reflexivity. Qed.

(* ... and read_env aborted *)
Example read_env_pinned_refuted' :
  exists fs names, (forall n, file_ok (fs n)) /\ read_env caught_pinned fs names = Raises XEOFError.
Proof. exact read_env_pinned_refuted. Qed.

(* ---- write_crash_read is not vacuous: the model's encoder is a pickler for this
   two-task environment; t1's file is cut, t0's entry comes back ---- *)
Definition t1 : list N := [116; 49].
Definition root0 : list N := [47;111;117;116].                       (* "/out" *)
Definition fname0 : list N := [118;46;101;110;118].                  (* "v.env" *)
Definition entry1 : value :=
  VDict [(VStr s_status, v_status 3); (VStr s_output_dir, VStr (join_path root0 t1))].
Definition items01 : list (value * value) := [(VStr t0, entry0); (VStr t1, entry1)].

Example enc_is_a_pickler_here :
  forall k e, In (k, e) items01 -> dec (enc (mk_env [(k, e)])) = Got (mk_env [(k, e)], []).
Proof. intros k e [H|[H|[]]]; inversion H; subst; vm_compute; reflexivity. Qed.

Example items01_wf : forall k e, In (k, e) items01 -> (exists s, k = VStr s) /\ wf_entry e.
Proof.
  intros k e [H|[H|[]]]; inversion H; subst; (split; [eexists; reflexivity|]);
    eexists _, _; split; reflexivity.
Qed.

Example items01_nodup : NoDup (map fst items01).
Proof. repeat constructor; cbn; intuition discriminate. Qed.

Example write_crash_read_instance :
  read_env caught_now
    (fun n => fold_left apply_hop
                (wops enc fname0 items01 ++ [HCut (task_file root0 fname0 t1) 30]) fs0
                (task_file root0 fname0 n)) [t0; t1]
  = Ret [(VStr t0, entry0)].
Proof. vm_compute. reflexivity. Qed.

(* C12, string level: model of RstTable.format_columns / highlight /
   compute_column_widths / tabularize / __str__ (valjean/javert/rst.py) and a
   reader [parse_simple_table] for the subset of reST simple tables they emit.
   Strings are lists of code points (Python's len counts code points). *)
From Coq Require Import List NArith Bool Arith Lia.
From VV Require Import Lib.Base.
Import ListNotations.

Definition str := list N.

Definition sp : N := 32%N.
Definition nl : N := 10%N.
Definition eqc : N := 61%N.      (* = *)
Definition bq : N := 96%N.       (* ` *)

Definition str_eqb (a b : str) : bool := list_eqb N.eqb a b.

(* str.isspace() *)
Definition is_space (c : N) : bool :=
  ((9 <=? c) && (c <=? 13) || (28 <=? c) && (c <=? 32) || (c =? 133) || (c =? 160)
   || (c =? 5760) || (8192 <=? c) && (c <=? 8202) || (c =? 8232) || (c =? 8233)
   || (c =? 8239) || (c =? 8287) || (c =? 12288))%N.

Fixpoint lstrip (s : str) : str :=
  match s with
  | c :: r => if is_space c then lstrip r else s
  | [] => []
  end.
Definition rstrip (s : str) : str := rev (lstrip (rev s)).
Definition strip (s : str) : str := rstrip (lstrip s).

(* ":hl:`" *)
Definition hl_prefix : str := [58; 104; 108; 58; 96]%N.

(* RstTable.highlight *)
Definition highlight (val : str) (flag : bool) : str :=
  if flag then hl_prefix ++ strip val ++ [bq] else val.

(* np.nditer over a list of columns: the rows; ValueError (class 1) when the
   columns do not have the same, non-null, number of elements *)
Definition transpose {X} (d : X) (cs : list (list X)) : res (list (list X)) :=
  match cs with
  | [] => Raise 1
  | c :: _ =>
      let n := length c in
      if Nat.eqb n 0 || negb (forallb (fun x => Nat.eqb (length x) n) cs) then Raise 1
      else Ok (map (fun i => map (fun col => nth i col d) cs) (seq 0 n))
  end.

Fixpoint zip_with {X Y Z} (f : X -> Y -> Z) (a : list X) (b : list Y) : list Z :=
  match a, b with
  | x :: r, y :: s => f x y :: zip_with f r s
  | _, _ => []
  end.

(* RstTable.format_columns on already formatted values *)
Definition format_rows (cs : list (list str)) (ms : list (list bool)) : res (list (list str)) :=
  match transpose [] cs, transpose false ms with
  | Ok rc, Ok rm => Ok (zip_with (zip_with highlight) rc rm)
  | Raise e, _ => Raise e
  | _, Raise e => Raise e
  end.

(* compute_column_widths *)
Fixpoint max_widths (ws : list nat) (row : list str) : list nat :=
  match ws, row with
  | w :: ws', c :: row' => Nat.max w (length c) :: max_widths ws' row'
  | _, _ => ws
  end.
Definition widths (headers : list str) (rows : list (list str)) : list nat :=
  fold_left max_widths rows (map (@length N) headers).

Definition rjust (w : nat) (s : str) : str := repeat sp (w - length s) ++ s.
(* format(s, '^w') *)
Definition center (w : nat) (s : str) : str :=
  let p := w - length s in repeat sp (p / 2) ++ s ++ repeat sp (p - p / 2).

Fixpoint join (sep : str) (l : list str) : str :=
  match l with
  | [] => []
  | [a] => a
  | a :: r => a ++ sep ++ join sep r
  end.

Definition col_sep : str := [sp; sp].

Definition sep_row (ws : list nat) : str := join col_sep (map (repeat eqc) ws).
Definition row_line (ws : list nat) (row : list str) : str := join col_sep (zip_with rjust ws row).
Definition header_line (ws : list nat) (hs : list str) : str := join col_sep (zip_with center ws hs).

Definition table_lines (headers : list str) (rows : list (list str)) : list str :=
  let ws := widths headers rows in
  [sep_row ws; header_line ws headers; sep_row ws] ++ map (row_line ws) rows ++ [sep_row ws; []].

(* RstTable.tabularize(headers, rows, indent=indent) *)
Definition tabularize (headers : list str) (rows : list (list str)) (indent : nat) : str :=
  repeat sp indent ++ join (nl :: repeat sp indent) (table_lines headers rows).

(* '.. role:: hl\n\n.. table::\n    :widths: auto\n\n' *)
Definition table_intro : str :=
  [46;46;32;114;111;108;101;58;58;32;104;108;10;10;
   46;46;32;116;97;98;108;101;58;58;10;
   32;32;32;32;58;119;105;100;116;104;115;58;32;97;117;116;111;10;10]%N.

(* str(RstTable(table)) given the formatted values of the columns *)
Definition rst_table_str (headers : list str) (cs : list (list str)) (ms : list (list bool))
  : res str :=
  match format_rows cs ms with
  | Ok rows => Ok (table_intro ++ tabularize headers rows 4 ++ [nl])
  | Raise e => Raise e
  end.

(* ---------- reading a simple table back ---------- *)

(* str.split('\n') *)
Fixpoint split_nl (s : str) : list str :=
  match s with
  | [] => [[]]
  | c :: r =>
      if N.eqb c nl then [] :: split_nl r
      else match split_nl r with
           | l :: ls => (c :: l) :: ls
           | [] => [[c]]
           end
  end.

Fixpoint drop_spaces (n : nat) (s : str) : option str :=
  match n with
  | O => Some s
  | S n' => match s with
            | c :: r => if N.eqb c sp then drop_spaces n' r else None
            | [] => None
            end
  end.

Fixpoint all_some {X} (l : list (option X)) : option (list X) :=
  match l with
  | [] => Some []
  | Some x :: r => match all_some r with Some xs => Some (x :: xs) | None => None end
  | None :: _ => None
  end.

(* length of the leading run of '=' and the rest *)
Fixpoint eq_run (s : str) : nat * str :=
  match s with
  | c :: r => if N.eqb c eqc then let '(n, t) := eq_run r in (S n, t) else (0, s)
  | [] => (0, [])
  end.

(* column widths of a border line: runs of '=' separated by two blanks *)
Fixpoint border_widths (fuel : nat) (s : str) : option (list nat) :=
  match fuel with
  | O => None
  | S fuel' =>
      let '(n, t) := eq_run s in
      if Nat.eqb n 0 then None
      else match t with
           | [] => Some [n]
           | a :: b :: t' =>
               if N.eqb a sp && N.eqb b sp then
                 match border_widths fuel' t' with
                 | Some ws => Some (n :: ws)
                 | None => None
                 end
               else None
           | _ => None
           end
  end.

(* the text of every column of a row line; gaps must be blank; the last column
   takes the rest of the line *)
Fixpoint cut (ws : list nat) (line : str) : option (list str) :=
  match ws with
  | [] => None
  | [w] => Some [line]
  | w :: ws' =>
      match skipn w line with
      | a :: b :: rest =>
          if N.eqb a sp && N.eqb b sp then
            match cut ws' rest with
            | Some cs => Some (firstn w line :: cs)
            | None => None
            end
          else None
      | _ => None
      end
  end.

Fixpoint starts_with (p s : str) : bool :=
  match p, s with
  | [] , _ => true
  | a :: p', b :: s' => N.eqb a b && starts_with p' s'
  | _ :: _, [] => false
  end.

(* text and highlight flag of a cell; an interpreted-text role whose content
   holds a backquote is not something the writer may emit *)
Definition unhighlight (c : str) : option (str * bool) :=
  if starts_with hl_prefix c then
    let body := skipn 5 c in
    match rev body with
    | q :: inner_rev =>
        if N.eqb q bq && negb (existsb (N.eqb bq) inner_rev) then Some (rev inner_rev, true)
        else None
    | [] => None
    end
  else Some (c, false).

(* a body row: blank first column = continuation line of the previous row,
   which the writer never emits *)
Definition read_row (ws : list nat) (line : str) : option (list (str * bool)) :=
  match cut ws line with
  | Some cells =>
      let cs := map strip cells in
      match cs with
      | [] :: _ => None
      | _ => all_some (map unhighlight cs)
      end
  | None => None
  end.

(* lines up to the first one equal to [b], and what follows it *)
Fixpoint until_border (b : str) (ls : list str) : option (list str * list str) :=
  match ls with
  | [] => None
  | l :: r =>
      if str_eqb l b then Some ([], r)
      else match until_border b r with
           | Some (body, rest) => Some (l :: body, rest)
           | None => None
           end
  end.

(* headers and rows (text, highlighted?) of a table written by tabularize *)
Definition parse_simple_table (indent : nat) (s : str)
  : option (list str * list (list (str * bool))) :=
  match all_some (map (drop_spaces indent) (split_nl s)) with
  | Some (top :: hdr :: mid :: rest) =>
      match border_widths (S (length top)) top with
      | Some ws =>
          if negb (str_eqb mid top) then None
          else match cut ws hdr, until_border top rest with
               | Some hs, Some (body, [[]]) =>
                   match all_some (map (read_row ws) body) with
                   | Some rows => Some (map strip hs, rows)
                   | None => None
                   end
               | _, _ => None
               end
      | None => None
      end
  | _ => None
  end.

(* C12 proofs, part 4: the table written by tabularize reads back, with
   parse_simple_table, as the stripped headers and the stripped cells with their
   highlight flags. *)
From Coq Require Import List NArith Bool Arith Lia.
From VV Require Import Lib.Base C12.Rst.
Import ListNotations.

(* ---------- strip ---------- *)

Lemma lstrip_spaces n s : lstrip (repeat sp n ++ s) = lstrip s.
Proof. induction n as [|n IH]; cbn; [reflexivity|exact IH]. Qed.

Lemma lstrip_all_spaces n : lstrip (repeat sp n) = [].
Proof. rewrite <- (app_nil_r (repeat sp n)). now rewrite lstrip_spaces. Qed.

Lemma rev_repeat {X} (x : X) n : rev (repeat x n) = repeat x n.
Proof.
  induction n as [|n IH]; cbn; [reflexivity|]. rewrite IH.
  clear IH. induction n as [|n IH]; cbn; [reflexivity|]. now rewrite IH.
Qed.

Lemma rstrip_spaces s n : rstrip (s ++ repeat sp n) = rstrip s.
Proof. unfold rstrip. now rewrite rev_app_distr, rev_repeat, lstrip_spaces. Qed.

Lemma lstrip_app_spaces s n :
  lstrip (s ++ repeat sp n) = lstrip s ++ repeat sp n
  \/ (lstrip s = [] /\ lstrip (s ++ repeat sp n) = []).
Proof.
  induction s as [|c r IH]; cbn.
  - right. split; [reflexivity|apply lstrip_all_spaces].
  - destruct (is_space c); [exact IH|]. left. reflexivity.
Qed.

Lemma strip_pad a s b : strip (repeat sp a ++ s ++ repeat sp b) = strip s.
Proof.
  unfold strip. rewrite lstrip_spaces.
  destruct (lstrip_app_spaces s b) as [E|[E1 E2]].
  - now rewrite E, rstrip_spaces.
  - now rewrite E1, E2.
Qed.

Lemma strip_rjust w s : strip (rjust w s) = strip s.
Proof. unfold rjust. pose proof (strip_pad (w - length s) s 0) as H. cbn [repeat] in H. now rewrite app_nil_r in H. Qed.

Lemma strip_center w s : strip (center w s) = strip s.
Proof. unfold center. apply strip_pad. Qed.

Lemma In_lstrip x s : In x (lstrip s) -> In x s.
Proof. induction s as [|c r IH]; cbn; [tauto|]. destruct (is_space c); [right; auto|tauto]. Qed.

Lemma In_strip x s : In x (strip s) -> In x s.
Proof.
  unfold strip, rstrip. intros H. apply In_lstrip. apply in_rev in H. apply In_lstrip in H.
  now apply in_rev in H.
Qed.

(* a string that starts and ends with a non-blank is its own strip *)
Lemma strip_id c s q : is_space c = false -> is_space q = false -> strip (c :: s ++ [q]) = c :: s ++ [q].
Proof.
  intros Hc Hq. unfold strip. cbn [lstrip]. rewrite Hc. unfold rstrip.
  change (c :: s ++ [q]) with ((c :: s) ++ [q]). rewrite rev_app_distr. cbn [rev app lstrip].
  rewrite Hq. change (q :: rev s ++ [c]) with ([q] ++ rev (c :: s)).
  rewrite rev_app_distr, rev_involutive. reflexivity.
Qed.

(* ---------- lines ---------- *)

Lemma split_nl_nonempty s : split_nl s <> [].
Proof.
  induction s as [|c r IH]; cbn; [discriminate|]. destruct (N.eqb c nl); [discriminate|].
  destruct (split_nl r); discriminate.
Qed.

Lemma split_nl_line a s : ~ In nl a -> split_nl (a ++ nl :: s) = a :: split_nl s.
Proof.
  induction a as [|c r IH]; intros H; cbn.
  - reflexivity.
  - destruct (N.eqb_spec c nl) as [E|_]; [exfalso; apply H; left; auto|].
    rewrite IH by (intros X; apply H; right; exact X). reflexivity.
Qed.

Lemma split_nl_last a : ~ In nl a -> split_nl a = [a].
Proof.
  induction a as [|c r IH]; intros H; cbn; [reflexivity|].
  destruct (N.eqb_spec c nl) as [E|_]; [exfalso; apply H; left; auto|].
  rewrite IH by (intros X; apply H; right; exact X). reflexivity.
Qed.

Lemma join_cons sep a b r : join sep (a :: b :: r) = a ++ sep ++ join sep (b :: r).
Proof. reflexivity. Qed.

Lemma split_unlines ind lines :
  ~ In nl ind -> Forall (fun l => ~ In nl l) lines -> lines <> [] ->
  split_nl (ind ++ join (nl :: ind) lines) = map (app ind) lines.
Proof.
  intros Hi. induction lines as [|a r IH]; intros F NE; [congruence|].
  inversion F as [|? ? Fa Fr]; subst. destruct r as [|b r].
  - cbn. apply split_nl_last. intros X. apply in_app_or in X. tauto.
  - rewrite join_cons. cbn [map].
    rewrite (app_assoc ind a). rewrite <- app_comm_cons.
    rewrite split_nl_line by (intros X; apply in_app_or in X; tauto).
    f_equal. apply IH; [exact Fr|discriminate].
Qed.

Lemma drop_spaces_repeat n l : drop_spaces n (repeat sp n ++ l) = Some l.
Proof. induction n as [|n IH]; cbn; [reflexivity|exact IH]. Qed.

Lemma all_some_map_some {X Y} (f : X -> option Y) (g : X -> Y) l :
  (forall x, In x l -> f x = Some (g x)) -> all_some (map f l) = Some (map g l).
Proof.
  induction l as [|a r IH]; intros H; cbn; [reflexivity|].
  rewrite (H a) by (left; reflexivity). rewrite IH by (intros; apply H; right; auto). reflexivity.
Qed.

Lemma unindent n lines :
  all_some (map (drop_spaces n) (map (app (repeat sp n)) lines)) = Some lines.
Proof.
  rewrite map_map. rewrite (all_some_map_some _ (fun l => l)); [now rewrite map_id|].
  intros; apply drop_spaces_repeat.
Qed.

(* ---------- the border ---------- *)

Lemma eq_run_repeat n t :
  (t = [] \/ exists c r, t = c :: r /\ c <> eqc) -> eq_run (repeat eqc n ++ t) = (n, t).
Proof.
  intros H. induction n as [|n IH]; cbn.
  - destruct H as [->|(c & r & -> & Hc)]; [reflexivity|]. cbn.
    destruct (N.eqb_spec c eqc); [congruence|reflexivity].
  - now rewrite IH.
Qed.

Lemma border_widths_sep ws : forall fuel,
  ws <> [] -> Forall (fun w => 0 < w) ws -> length ws <= fuel ->
  border_widths fuel (sep_row ws) = Some ws.
Proof.
  unfold sep_row. induction ws as [|w r IH]; intros fuel NE F L; [congruence|].
  inversion F as [|? ? Hw Fr]; subst. destruct fuel as [|fuel]; [cbn in L; lia|].
  destruct r as [|w2 r].
  - cbn [map join border_widths]. rewrite <- (app_nil_r (repeat eqc w)).
    rewrite eq_run_repeat by (left; reflexivity).
    destruct (Nat.eqb_spec w 0); [lia|reflexivity].
  - cbn [map]. rewrite join_cons. cbn [border_widths].
    rewrite eq_run_repeat by (right; exists sp, (sp :: join col_sep (repeat eqc w2 :: map (repeat eqc) r));
                              split; [reflexivity|discriminate]).
    destruct (Nat.eqb_spec w 0); [lia|]. cbn [col_sep app]. cbn [N.eqb andb].
    change (N.eqb sp sp) with true. cbn [andb].
    change (repeat eqc w2 :: map (repeat eqc) r) with (map (repeat eqc) (w2 :: r)).
    rewrite IH; [reflexivity|discriminate|exact Fr|cbn in *; lia].
Qed.

Lemma join_length_ge ws : Forall (fun w => 0 < w) ws -> length ws <= length (sep_row ws) + 0.
Proof.
  unfold sep_row. induction ws as [|w r IH]; intros F; [cbn; lia|].
  inversion F as [|? ? Hw Fr]; subst. specialize (IH Fr). destruct r as [|w2 r].
  - cbn. rewrite repeat_length. lia.
  - change (map (repeat eqc) (w :: w2 :: r)) with (repeat eqc w :: map (repeat eqc) (w2 :: r)).
    change (map (repeat eqc) (w2 :: r)) with (repeat eqc w2 :: map (repeat eqc) r) in *.
    rewrite join_cons, !app_length, repeat_length.
    change (length (w :: w2 :: r)) with (S (length (w2 :: r))). set (y := length (join col_sep _)) in *. set (x := length (w2 :: r)) in *. lia.
Qed.

Lemma str_eqb_refl s : str_eqb s s = true.
Proof. unfold str_eqb. apply list_eqb_spec; [intros; apply N.eqb_eq|reflexivity]. Qed.

Lemma str_eqb_hd a b x y : x <> y -> str_eqb (x :: a) (y :: b) = false.
Proof. intros H. unfold str_eqb. cbn. destruct (N.eqb_spec x y); [congruence|reflexivity]. Qed.

(* ---------- cutting a row ---------- *)

(* every cell but the last fills its column exactly *)
Inductive fills : list nat -> list str -> Prop :=
| fills_last w c : fills [w] [c]
| fills_cons w c ws cs : length c = w -> fills ws cs -> fills (w :: ws) (c :: cs).

Lemma fills_nonempty ws cs : fills ws cs -> ws <> [] /\ cs <> [].
Proof. destruct 1; split; discriminate. Qed.

Lemma cut_eq w w2 ws line :
  cut (w :: w2 :: ws) line
  = match skipn w line with
    | a :: b :: rest =>
        if N.eqb a sp && N.eqb b sp then
          match cut (w2 :: ws) rest with
          | Some cs => Some (firstn w line :: cs)
          | None => None
          end
        else None
    | _ => None
    end.
Proof. reflexivity. Qed.

Lemma cut_join ws cs : fills ws cs -> cut ws (join col_sep cs) = Some cs.
Proof.
  induction 1 as [w c | w c ws cs L F IH]; [reflexivity|].
  destruct (fills_nonempty _ _ F) as [Nw Nc].
  destruct ws as [|w2 ws]; [congruence|]. destruct cs as [|c2 cs]; [congruence|].
  rewrite join_cons. rewrite cut_eq.
  rewrite <- L at 1. rewrite skipn_app, Nat.sub_diag, skipn_all. cbn [app skipn col_sep].
  change (N.eqb sp sp) with true. cbn [andb]. rewrite IH.
  rewrite <- L. rewrite firstn_app, Nat.sub_diag, firstn_all. cbn. now rewrite app_nil_r.
Qed.

(* ---------- widths ---------- *)

Definition fits (row : list str) (ws : list nat) : Prop := Forall2 (fun c w => length c <= w) row ws.

Lemma max_widths_length ws row : length (max_widths ws row) = length ws.
Proof. revert row; induction ws as [|w r IH]; intros [|c cs]; cbn; auto. Qed.

Lemma max_widths_ge ws row : Forall2 le ws (max_widths ws row).
Proof.
  revert row; induction ws as [|w r IH]; intros [|c cs]; cbn; try constructor; auto; try lia.
  - clear. induction r; constructor; auto.
Qed.

Lemma max_widths_fits ws row : length row = length ws -> fits row (max_widths ws row).
Proof.
  revert row; induction ws as [|w r IH]; intros [|c cs] H; cbn in *; try discriminate; constructor.
  - lia.
  - apply IH. lia.
Qed.

Lemma fits_mono row ws ws' : fits row ws -> Forall2 le ws ws' -> fits row ws'.
Proof.
  intros F. revert ws'. induction F as [|c w cs ws H F IH]; intros ws' L; inversion L; subst; constructor.
  - lia.
  - now apply IH.
Qed.

Lemma le_refl_all ws : Forall2 le ws ws.
Proof. induction ws; constructor; auto. Qed.

Lemma le_trans_all a b c : Forall2 le a b -> Forall2 le b c -> Forall2 le a c.
Proof.
  intros H. revert c. induction H; intros c' L; inversion L; subst; constructor; [lia|auto].
Qed.

Lemma widths_fold rows : forall ws,
  Forall (fun row => length row = length ws) rows ->
  let ws' := fold_left max_widths rows ws in
  length ws' = length ws /\ Forall2 le ws ws' /\ Forall (fun row => fits row ws') rows.
Proof.
  induction rows as [|row r IH]; intros ws F; cbn.
  - repeat split; [apply le_refl_all|constructor].
  - inversion F as [|? ? Hr Fr]; subst.
    assert (Fr' : Forall (fun row0 => length row0 = length (max_widths ws row)) r).
    { eapply Forall_impl; [|exact Fr]. cbn. intros; now rewrite max_widths_length. }
    destruct (IH (max_widths ws row) Fr') as (L & M & T). repeat split.
    + now rewrite L, max_widths_length.
    + eapply le_trans_all; [apply max_widths_ge|exact M].
    + constructor; [|exact T]. eapply fits_mono; [apply max_widths_fits, Hr|exact M].
Qed.

Lemma rjust_length w c : length c <= w -> length (rjust w c) = w.
Proof. intros H. unfold rjust. rewrite app_length, repeat_length. lia. Qed.

Lemma center_length w c : length c <= w -> length (center w c) = w.
Proof.
  intros H. unfold center. rewrite !app_length, !repeat_length.
  pose proof (Nat.div_le_upper_bound (w - length c) 2 (w - length c)).
  assert ((w - length c) / 2 <= w - length c) by (apply Nat.div_le_upper_bound; lia). lia.
Qed.

Lemma fills_zip (f : nat -> str -> str) ws : forall row,
  (forall w c, length c <= w -> length (f w c) = w) ->
  ws <> [] -> fits row ws -> fills ws (zip_with f ws row).
Proof.
  induction ws as [|w r IH]; intros row Hf NE F; [congruence|].
  inversion F as [|c w' cs ws' Hc Fr]; subst. destruct r as [|w2 r].
  - inversion Fr; subst. cbn. constructor.
  - cbn [zip_with]. constructor; [now apply Hf|]. apply IH; [exact Hf|discriminate|exact Fr].
Qed.

Lemma map_strip_zip (f : nat -> str -> str) ws : forall row,
  (forall w c, strip (f w c) = strip c) -> length row = length ws ->
  map strip (zip_with f ws row) = map strip row.
Proof.
  induction ws as [|w r IH]; intros [|c cs] Hf L; cbn in *; try discriminate; [reflexivity|].
  rewrite Hf, IH; auto.
Qed.

(* ---------- cells ---------- *)

Lemma starts_with_app p s : starts_with p (p ++ s) = true.
Proof. induction p as [|a r IH]; cbn; [reflexivity|]. now rewrite N.eqb_refl, IH. Qed.

Lemma existsb_bq_false s : ~ In bq s -> existsb (N.eqb bq) s = false.
Proof.
  intros H. apply not_true_is_false. intros T. apply existsb_exists in T.
  destruct T as (x & Hx & E). apply N.eqb_eq in E. subst. auto.
Qed.

Definition cell_ok (p : str * bool) : Prop :=
  ~ In nl (fst p)
  /\ (snd p = true -> ~ In bq (strip (fst p)))
  /\ (snd p = false -> starts_with hl_prefix (strip (fst p)) = false).

Definition printed (p : str * bool) : str := highlight (fst p) (snd p).
Definition readback (p : str * bool) : str * bool := (strip (fst p), snd p).

Lemma unhighlight_printed p :
  cell_ok p -> unhighlight (strip (printed p)) = Some (readback p).
Proof.
  destruct p as [t f]. unfold cell_ok, printed, readback, highlight; cbn [fst snd].
  intros (_ & Ht & Hf). destruct f.
  - specialize (Ht eq_refl).
    change (hl_prefix ++ strip t ++ [bq]) with (58%N :: ([104; 108; 58; 96]%N ++ strip t) ++ [bq]).
    rewrite (strip_id 58%N ([104; 108; 58; 96]%N ++ strip t) bq) by reflexivity.
    unfold unhighlight. cbn [starts_with hl_prefix N.eqb Pos.eqb andb skipn app].
    rewrite rev_app_distr. cbn [rev app]. rewrite N.eqb_refl. cbn [andb].
    rewrite existsb_bq_false by (intros X; apply in_rev in X; auto).
    cbn [negb]. now rewrite rev_involutive.
  - unfold unhighlight. now rewrite (Hf eq_refl).
Qed.

Lemma printed_nonl p : cell_ok p -> ~ In nl (printed p).
Proof.
  destruct p as [t f]. unfold cell_ok, printed, highlight; cbn [fst snd]. intros (Hn & _ & _).
  destruct f; [|exact Hn]. intros X. apply in_app_or in X. destruct X as [X|X].
  - cbn in X. repeat (destruct X as [X|X]; [discriminate|]). exact X.
  - apply in_app_or in X. destruct X as [X|X]; [apply In_strip in X; auto|].
    cbn in X. destruct X as [X|[]]. discriminate.
Qed.

Definition first_ok (p : str * bool) : Prop :=
  strip (fst p) <> [] /\ (snd p = false -> forall c r, fst p = c :: r -> c <> eqc).

Definition row_ok (n : nat) (row : list (str * bool)) : Prop :=
  length row = n /\ Forall cell_ok row /\ (exists p r, row = p :: r /\ first_ok p).

Definition header_ok (h : str) : Prop := h <> [] /\ ~ In nl h.

(* ---------- a row line reads back ---------- *)

Lemma all_some_unhighlight row :
  Forall cell_ok row -> all_some (map unhighlight (map strip (map printed row))) = Some (map readback row).
Proof.
  intros F. rewrite !map_map. apply all_some_map_some. intros p Hp.
  rewrite Forall_forall in F. now apply unhighlight_printed, F.
Qed.

Lemma strip_printed_nonempty p : cell_ok p -> first_ok p -> strip (printed p) <> [].
Proof.
  destruct p as [t f]. unfold first_ok, printed, highlight; cbn [fst snd]. intros _ [H _].
  destruct f; [|exact H].
  change (hl_prefix ++ strip t ++ [bq]) with (58%N :: ([104; 108; 58; 96]%N ++ strip t) ++ [bq]).
  rewrite (strip_id 58%N ([104; 108; 58; 96]%N ++ strip t) bq) by reflexivity. discriminate.
Qed.

Lemma read_row_line ws row :
  ws <> [] -> row_ok (length ws) row -> fits (map printed row) ws ->
  read_row ws (row_line ws (map printed row)) = Some (map readback row).
Proof.
  intros NE (L & F & (p & r & -> & FO)) T. unfold read_row, row_line.
  rewrite (cut_join ws) by (apply fills_zip; [apply rjust_length|exact NE|exact T]).
  rewrite (map_strip_zip rjust ws) by (apply strip_rjust || now rewrite map_length).
  inversion F as [|? ? Fp Fr]; subst.
  pose proof (strip_printed_nonempty p Fp FO) as N1.
  pose proof (all_some_unhighlight (p :: r) F) as A.
  cbn [map] in *. destruct (strip (printed p)) as [|x xs] eqn:E; [congruence|]. exact A.
Qed.

(* a row line is not the border: it does not start with '=' *)
Lemma rjust_hd w c d : c <> [] -> hd d (rjust w c) = sp \/ hd d (rjust w c) = hd d c.
Proof.
  intros H. unfold rjust. destruct (w - length c) as [|k]; cbn; [right; reflexivity|left; reflexivity].
Qed.

Lemma join_hd sep a r d : a <> [] -> hd d (join sep (a :: r)) = hd d a.
Proof. intros H. destruct a as [|x xs]; [congruence|]. destruct r; reflexivity. Qed.

Lemma printed_hd p : cell_ok p -> first_ok p -> printed p <> [] /\ hd sp (printed p) <> eqc.
Proof.
  destruct p as [t f]. unfold first_ok, printed, highlight; cbn [fst snd]. intros _ [H1 H2].
  destruct f.
  - split; discriminate.
  - destruct t as [|c r]; [exfalso; apply H1; reflexivity|]. split; [discriminate|].
    cbn. eapply H2; reflexivity.
Qed.

Lemma row_line_not_border ws row :
  ws <> [] -> Forall (fun w => 0 < w) ws -> row_ok (length ws) row ->
  str_eqb (row_line ws (map printed row)) (sep_row ws) = false.
Proof.
  intros NE P (L & F & (p & r & -> & FO)). destruct ws as [|w ws]; [congruence|].
  inversion F as [|? ? Fp Fr]; subst. inversion P as [|? ? Hw Pr]; subst.
  destruct (printed_hd p Fp FO) as [N1 N2].
  unfold row_line, sep_row. cbn [map zip_with].
  assert (R : rjust w (printed p) <> []).
  { unfold rjust. destruct (printed p); [congruence|]. intros X. apply app_eq_nil in X. destruct X; discriminate. }
  assert (H : hd sp (join col_sep (rjust w (printed p) :: zip_with rjust ws (map printed r))) <> eqc).
  { rewrite join_hd by exact R. destruct (rjust_hd w (printed p) sp N1) as [E|E]; rewrite E; [discriminate|exact N2]. }
  assert (G : hd sp (join col_sep (repeat eqc w :: map (repeat eqc) ws)) = eqc).
  { rewrite join_hd; destruct w; try lia; [reflexivity|discriminate]. }
  destruct (join col_sep (rjust w (printed p) :: _)) as [|x xs] eqn:E1.
  - destruct (join col_sep (repeat eqc w :: _)) as [|y ys] eqn:E2; [cbn in G; discriminate|reflexivity].
  - destruct (join col_sep (repeat eqc w :: _)) as [|y ys] eqn:E2; [reflexivity|].
    cbn in H, G. subst y. now apply str_eqb_hd.
Qed.

Lemma until_border_rows b body :
  Forall (fun l => str_eqb l b = false) body ->
  until_border b (body ++ [b; []]) = Some (body, [[]]).
Proof.
  induction body as [|l r IH]; intros F; cbn.
  - now rewrite str_eqb_refl.
  - inversion F as [|? ? Hl Fr]; subst. rewrite Hl, IH by exact Fr. reflexivity.
Qed.

(* ---------- no newline inside the lines ---------- *)

Lemma join_nonl cs : Forall (fun c => ~ In nl c) cs -> ~ In nl (join col_sep cs).
Proof.
  induction cs as [|a r IH]; intros F; [cbn; tauto|]. inversion F as [|? ? Fa Fr]; subst.
  destruct r as [|b r]; [exact Fa|]. rewrite join_cons. intros X.
  apply in_app_or in X. destruct X as [X|X]; [auto|].
  apply in_app_or in X. destruct X as [X|X]; [|now apply IH].
  cbn in X. destruct X as [X|[X|[]]]; discriminate.
Qed.

Lemma repeat_nonl c n : c <> nl -> ~ In nl (repeat c n).
Proof. intros H X. apply repeat_spec in X. congruence. Qed.

Lemma zip_nonl (f : nat -> str -> str) ws : forall row,
  (forall w c, ~ In nl c -> ~ In nl (f w c)) -> Forall (fun c => ~ In nl c) row ->
  Forall (fun c => ~ In nl c) (zip_with f ws row).
Proof.
  induction ws as [|w r IH]; intros [|c cs] Hf F; cbn; try constructor.
  - inversion F; subst. now apply Hf.
  - inversion F; subst. now apply IH.
Qed.

Lemma rjust_nonl w c : ~ In nl c -> ~ In nl (rjust w c).
Proof.
  unfold rjust. intros H X. apply in_app_or in X. destruct X as [X|X]; [|auto].
  revert X. apply repeat_nonl. discriminate.
Qed.

Lemma center_nonl w c : ~ In nl c -> ~ In nl (center w c).
Proof.
  unfold center. intros H X. apply in_app_or in X. destruct X as [X|X].
  - revert X. apply repeat_nonl. discriminate.
  - apply in_app_or in X. destruct X as [X|X]; [auto|]. revert X. apply repeat_nonl. discriminate.
Qed.

(* ---------- the round trip ---------- *)

Theorem table_roundtrip indent headers rows :
  headers <> [] -> Forall header_ok headers ->
  Forall (row_ok (length headers)) rows ->
  parse_simple_table indent (tabularize headers (map (map printed) rows) indent)
  = Some (map strip headers, map (map readback) rows).
Proof.
  intros NE HO RO. unfold parse_simple_table, tabularize.
  set (prows := map (map printed) rows).
  set (ws := widths headers prows).
  (* widths *)
  assert (FR : Forall (fun row => length row = length (map (@length N) headers)) prows).
  { unfold prows. apply Forall_map. eapply Forall_impl; [|exact RO].
    intros row (L & _ & _). now rewrite !map_length. }
  destruct (widths_fold prows (map (@length N) headers) FR) as (WL & WM & WF).
  fold (widths headers prows) in WL, WM, WF. fold ws in WL, WM, WF.
  rewrite map_length in WL.
  assert (WNE : ws <> []) by (intros X; rewrite X in WL; destruct headers; [congruence|discriminate]).
  assert (WP : Forall (fun w => 0 < w) ws).
  { clear - WM HO. revert WM. generalize ws. induction HO as [|h hs [Hh _] HO IH]; intros ws0 WM;
      inversion WM; subst; constructor.
    - destruct h; [congruence|]. cbn in *. lia.
    - now apply IH. }
  assert (HF : fits headers ws).
  { clear - WM. revert WM. generalize ws. induction headers as [|h hs IH]; intros ws0 WM;
      inversion WM; subst; constructor; [lia|now apply IH]. }
  (* lines *)
  assert (NL : Forall (fun l => ~ In nl l) (table_lines headers prows)).
  { unfold table_lines. fold ws.
    assert (S : ~ In nl (sep_row ws)).
    { unfold sep_row. apply join_nonl. apply Forall_map. apply Forall_forall. intros w _.
      apply repeat_nonl. discriminate. }
    repeat constructor; try exact S.
    - unfold header_line. apply join_nonl. apply zip_nonl; [apply center_nonl|].
      eapply Forall_impl; [|exact HO]. intros h [_ H]; exact H.
    - apply Forall_app. split; [|repeat constructor; [exact S|cbn; tauto]].
      unfold prows. rewrite map_map. apply Forall_map. eapply Forall_impl; [|exact RO].
      intros row (_ & F & _). unfold row_line. apply join_nonl. apply zip_nonl; [apply rjust_nonl|].
      apply Forall_map. eapply Forall_impl; [|exact F]. intros p; apply printed_nonl. }
  rewrite split_unlines; [|apply repeat_nonl; discriminate|exact NL|unfold table_lines; discriminate].
  rewrite unindent. unfold table_lines. fold ws. cbn [app].
  rewrite border_widths_sep; [|exact WNE|exact WP|pose proof (join_length_ge ws WP); lia].
  rewrite str_eqb_refl. cbn [negb].
  unfold header_line at 1.
  rewrite (cut_join ws) by (apply fills_zip; [apply center_length|exact WNE|exact HF]).
  rewrite until_border_rows.
  2:{ unfold prows. rewrite map_map. apply Forall_map. eapply Forall_impl; [|exact RO].
      intros row R. apply row_line_not_border; [exact WNE|exact WP|]. now rewrite WL. }
  unfold prows at 1. rewrite !map_map.
  rewrite (all_some_map_some _ (map readback)).
  - rewrite (map_strip_zip center ws) by (apply strip_center || auto). reflexivity.
  - intros row Hr. rewrite Forall_forall in RO, WF.
    apply read_row_line; [exact WNE|rewrite WL; now apply RO|].
    apply WF. unfold prows. now apply in_map.
Qed.

(* C12: failure marks in rendered reports.
   Abstract model of valjean/javert/table_repr.py (one function per result kind
   and verbosity), representation.py (Table / FullTable / Full representers),
   templates.py (TableTemplate.__getitem__, join).
   The string level (RstTable.format_columns / tabularize / highlight and the
   reader of the emitted simple tables) is in C12/Rst.v.

   Results are abstract: what the representers read from a result object
   (verdict = bool(result), per-dataset per-bin oracles in C order, the
   formatted cells of each bin, counts, label rows).  Cells are opaque. *)
From Coq Require Import List ZArith Bool Arith Lia.
From VV Require Import Lib.Base Lib.Pyslice C09.Model.
Import ListNotations.

(* ---------- cells ---------- *)
Inductive cell :=
| CI (id : nat)               (* a formatted input (value, error, t, bin label, name ...) *)
| CB (b : bool)               (* str(bool): the oracle columns *)
| CPct (num den : nat)        (* percent_fmt(num, den) *)
| CJoin (ids : list nat)      (* ', '.join(...) of inputs *)
| CK (k : nat).               (* literal of table_repr.py: 0 'Metadata:' 1 'OK'
                                 2 'Failed metadata:' 3 'total' *)

(* the join of a single text is that text *)
Definition cjoin (ids : list nat) : cell :=
  match ids with [x] => CI x | _ => CJoin ids end.

Definition cell_eqb (a b : cell) : bool :=
  match a, b with
  | CI x, CI y => Nat.eqb x y
  | CB x, CB y => Bool.eqb x y
  | CPct a1 a2, CPct b1 b2 => Nat.eqb a1 b1 && Nat.eqb a2 b2
  | CJoin x, CJoin y => list_eqb Nat.eqb x y
  | CK x, CK y => Nat.eqb x y
  | _, _ => false
  end.

(* ---------- templates ---------- *)
Record table := mk_table {
  cols : list (list cell);      (* column-major, flattened in C order *)
  mask : list (list bool)       (* highlights, same layout *)
}.

Inductive template :=
| Text (ko : bool)              (* TextTemplate; ko = contains a :hl: mark *)
| Table (t : table).

Definition table_mark (t : table) : bool := existsb (existsb (fun b => b)) (mask t).
Definition tmark (t : template) : bool :=
  match t with Text ko => ko | Table tb => table_mark tb end.
Definition has_mark (ts : list template) : bool := existsb tmark ts.

(* a table is well formed when every column and every mask column has n rows *)
Definition table_wf (n : nat) (t : table) : Prop :=
  length (cols t) = length (mask t)
  /\ Forall (fun c => length c = n) (cols t)
  /\ Forall (fun m => length m = n) (mask t).

(* rows of a table: cell and flag of every column at index i *)
Definition dcell : cell * bool := (CK 0, false).
Definition zipcols (t : table) : list (list (cell * bool)) :=
  map (fun p => combine (fst p) (snd p)) (combine (cols t) (mask t)).
Definition row_at (t : table) (i : nat) : list (cell * bool) :=
  map (fun c => nth i c dcell) (zipcols t).
Definition nrows (t : table) : nat :=
  match cols t with c :: _ => length c | [] => 0 end.

(* ---------- verbosity ---------- *)
Inductive verb := Silent | Summary | Default | Intermediate | FullDetails | Development.
Definition vval (v : verb) : nat :=
  match v with Silent => 0 | Summary => 1 | Default => 2 | Intermediate => 3
             | FullDetails => 4 | Development => 5 end.
Definition verb_eqb (a b : verb) : bool := Nat.eqb (vval a) (vval b).
(* Verbosity(verbosity.value - 1), only used for non-silent levels *)
Definition vpred (v : verb) : verb :=
  match v with Silent => Silent | Summary => Silent | Default => Summary
             | Intermediate => Default | FullDetails => Intermediate
             | Development => FullDetails end.

(* ---------- helpers ---------- *)
Definition falses {X} (l : list X) : list bool := map (fun _ => false) l.
Definition plain (cs : list (list cell)) : list (list bool) := map falses cs.

(* a[np.where(keep)] on flattened arrays *)
Definition pick {X} (keep : list bool) (l : list X) : list X :=
  map snd (filter (fun p => fst p) (combine keep l)).

Fixpoint andl (a b : list bool) : list bool :=
  match a, b with
  | x :: r, y :: s => (x && y) :: andl r s
  | _, _ => []
  end.

(* ---------- dataset tests: equal, approx equal, Student ---------- *)
Record dset := mk_dset {
  dcells : list (list cell);    (* value [, error, t] columns of this dataset *)
  dorac  : list bool            (* its oracle, one per bin *)
}.

Record dres := mk_dres {
  d_scalar  : bool;             (* dsref.shape == () *)
  d_nb      : nat;              (* number of bins (dsref.size) *)
  d_labels  : list (list cell); (* repr_bins: one column per non-trivial dimension *)
  d_ref     : list (list cell); (* reference value [, error] columns *)
  d_sets    : list dset;
  d_verdict : bool              (* bool(result) *)
}.

Definition ds_cols (d : dset) : list (list cell) := dcells d ++ [map CB (dorac d)].
Definition ds_mask (d : dset) : list (list bool) := plain (dcells d) ++ [map negb (dorac d)].

(* repr_equal / repr_approx_equal / repr_student *)
Definition full_table (r : dres) : table :=
  {| cols := d_labels r ++ d_ref r ++ flat_map ds_cols (d_sets r);
     mask := plain (d_labels r) ++ plain (d_ref r) ++ flat_map ds_mask (d_sets r) |}.

(* falses_ind: 1 where every dataset passes *)
Definition all_ok (r : dres) : list bool :=
  fold_left andl (map dorac (d_sets r)) (repeat true (d_nb r)).
Definition failing (r : dres) : list bool := map negb (all_ok r).

Definition pick_dset (keep : list bool) (d : dset) : dset :=
  {| dcells := map (pick keep) (dcells d); dorac := pick keep (dorac d) |}.

(* the table of repr_student_intermediate: rows of the bins where some dataset fails *)
Definition interm_table (r : dres) : table :=
  let keep := failing r in
  full_table {| d_scalar := d_scalar r; d_nb := length (filter (fun b => b) keep);
                d_labels := map (pick keep) (d_labels r);
                d_ref := map (pick keep) (d_ref r);
                d_sets := map (pick_dset keep) (d_sets r);
                d_verdict := d_verdict r |}.

Definition summary (verdict : bool) : list template := [Text (negb verdict)].

Definition repr_equal (r : dres) (v : verb) : list template :=
  if d_verdict r then
    (if negb (verb_eqb v FullDetails) then [] else [Table (full_table r)])
  else if vval v <? vval Default then summary (d_verdict r)
  else [Table (full_table r)].

Definition repr_approx (r : dres) (v : verb) : list template :=
  if verb_eqb v Silent && d_verdict r then []
  else if verb_eqb v Summary then summary (d_verdict r)
  else [Table (full_table r)].

Definition repr_student_intermediate (r : dres) : list template :=
  if d_verdict r then summary (d_verdict r)
  else if d_scalar r then [Table (full_table r)]
  else [Table (interm_table r)].

Definition repr_student (r : dres) (v : verb) : list template :=
  match v with
  | Silent => []
  | Summary => summary (d_verdict r)
  | Default | Intermediate => repr_student_intermediate r
  | _ => [Table (full_table r)]
  end.

(* ---------- Bonferroni / Holm-Bonferroni ---------- *)
Record bres := mk_bres {
  b_info    : list (list cell); (* the 5 (Bonferroni) / 6 (Holm) plain columns, one row per dataset *)
  b_orac    : list bool;        (* result.oracles() *)
  b_verdict : bool;
  b_first   : dres              (* first_test_res (a Student result) *)
}.

Definition corr_table (b : bres) : table :=
  {| cols := b_info b ++ [map CB (b_orac b)];
     mask := plain (b_info b) ++ [map negb (b_orac b)] |}.

Definition repr_bonferroni (b : bres) (v : verb) : list template :=
  if verb_eqb v Silent && b_verdict b then []
  else if verb_eqb v Summary then summary (b_verdict b)
  else [Table (corr_table b)].

Definition repr_holm (b : bres) (v : verb) : list template :=
  match v with
  | Silent => if b_verdict b then [] else summary (b_verdict b)
  | Summary => summary (b_verdict b)
  | _ => [Table (corr_table b)]
  end.

(* ---------- metadata ---------- *)
Record mres := mk_mres {
  m_keys    : list nat;                    (* one id per metadata key *)
  m_samples : list (list (cell * bool));   (* per sample, per key: (str(value), comparison) *)
  m_verdict : bool
}.

(* key i is a failed comparison when some sample differs *)
Definition m_ok (m : mres) : list bool :=
  fold_left andl (map (map snd) (m_samples m)) (repeat true (length (m_keys m))).
Definition m_bad (m : mres) : list bool := map negb (m_ok m).

Definition meta_table (keys : list nat) (samples : list (list (cell * bool))) : table :=
  {| cols := map CI keys :: map (map fst) samples;
     mask := falses keys :: map (map (fun p => negb (snd p))) samples |}.

Definition repr_metadata_default (m : mres) : list template :=
  if m_verdict m then
    [Table {| cols := [[CK 0]; [CK 1]]; mask := [[false]; [false]] |}]
  else
    [Table {| cols := [[CK 2]; [cjoin (pick (m_bad m) (m_keys m))]];
              mask := [[false]; [true]] |}].

Definition repr_metadata_intermediate (m : mres) : list template :=
  if negb (existsb (fun b => b) (m_bad m)) then summary (m_verdict m)
  else [Table (meta_table (pick (m_bad m) (m_keys m))
                          (map (pick (m_bad m)) (m_samples m)))].

Definition repr_metadata (m : mres) (v : verb) : list template :=
  match v with
  | Silent => []
  | Summary => summary (m_verdict m)
  | Default => repr_metadata_default m
  | Intermediate => repr_metadata_intermediate m
  | _ => [Table (meta_table (m_keys m) (m_samples m))]
  end.

(* ---------- statistics of tasks / tests ---------- *)
Record sres := mk_sres {
  s_ok      : nat * nat;          (* (name id, count) of status_ok *)
  s_others  : list (nat * nat);   (* the other statuses of the enum, in order *)
  s_verdict : bool
}.

Definition nonzero (p : nat * nat) : bool := negb (Nat.eqb (snd p) 0).
Definition s_total (s : sres) : nat :=
  snd (s_ok s) + fold_right (fun p a => snd p + a) 0 (s_others s).

Definition stats_table (s : sres) : table :=
  let n := s_total s in
  let okrow := if nonzero (s_ok s) then [(s_ok s, false)] else [] in
  let bad := map (fun p => (p, true)) (filter nonzero (s_others s)) in
  let rows := okrow ++ bad in
  let hl := map snd rows ++ [negb (s_verdict s) && negb (existsb snd rows)] in
  {| cols := [ map (fun r => CI (fst (fst r))) rows ++ [CK 3];
               map (fun r => CPct (snd (fst r)) n) rows ++ [CPct n n] ];
     mask := [hl; hl] |}.

Definition repr_stats (s : sres) (v : verb) : list template :=
  if verb_eqb v Silent && s_verdict s then []
  else [Table (stats_table s); Text false].

(* ---------- statistics of tests by labels ---------- *)
Record lrow := mk_lrow { l_labs : list nat; l_okn : nat; l_kon : nat; l_tot : nat }.
Record lres := mk_lres {
  l_nlab    : nat;              (* len(by_labels) *)
  l_rows    : list lrow;
  l_missing : bool;             (* nb_missing_labels() != 0 *)
  l_verdict : bool
}.

Definition l_orac (r : lrow) : bool := Nat.eqb (l_okn r) (l_tot r).

Definition labels_table (nlab : nat) (rows : list lrow) : table :=
  let hl := map (fun r => negb (l_orac r)) rows in
  {| cols := map (fun i => map (fun r => CI (nth i (l_labs r) 0)) rows) (seq 0 nlab)
             ++ [map (fun r => CPct (l_okn r) (l_tot r)) rows;
                 map (fun r => CPct (l_kon r) (l_tot r)) rows];
     mask := repeat hl (nlab + 2) |}.

Definition missing_text (l : lres) : list template :=
  if l_missing l then [Text false] else [].

Definition repr_bylabels (l : lres) (v : verb) : list template :=
  if verb_eqb v Silent && l_verdict l then []
  else if verb_eqb v Summary then
    let bad := filter (fun r => negb (l_orac r)) (l_rows l) in
    (match bad with
     | [] => [Text false]
     | _ => [Table (labels_table (l_nlab l) bad)]
     end) ++ missing_text l
  else Table (labels_table (l_nlab l) (l_rows l)) :: missing_text l.

(* ---------- all kinds ---------- *)
Inductive result :=
| REqual (r : dres) | RApprox (r : dres) | RStudent (r : dres)
| RBonf (b : bres) | RHolm (b : bres)
| RMeta (m : mres)
| RStatsTasks (s : sres) | RStatsTests (s : sres)
| RByLabels (l : lres)
| RFailed.

Definition verdict (r : result) : bool :=
  match r with
  | REqual d | RApprox d | RStudent d => d_verdict d
  | RBonf b | RHolm b => b_verdict b
  | RMeta m => m_verdict m
  | RStatsTasks s | RStatsTests s => s_verdict s
  | RByLabels l => l_verdict l
  | RFailed => false
  end.

(* table_repr.repr_<class>(result, verbosity) *)
Definition render_table (r : result) (v : verb) : list template :=
  match r with
  | REqual d => repr_equal d v
  | RApprox d => repr_approx d v
  | RStudent d => repr_student d v
  | RBonf b => repr_bonferroni b v
  | RHolm b => repr_holm b v
  | RMeta m => repr_metadata m v
  | RStatsTasks s | RStatsTests s => repr_stats s v
  | RByLabels l => repr_bylabels l v
  | RFailed => [Text true]
  end.

(* representers; Full = FullTable for the table and text templates (plots are
   not modelled) *)
Inductive representer := RepTable | RepFullTable | RepFull.

Definition first_verb (verdict : bool) (v : verb) : verb := if verdict then vpred v else v.

Definition render (rep : representer) (r : result) (v : verb) : list template :=
  match rep, r with
  | RepTable, _ => render_table r v
  | _, RBonf b =>
      if verb_eqb v Silent then render_table r v
      else render_table r v ++ render_table (RStudent (b_first b)) (first_verb (b_verdict b) v)
  | _, RHolm b =>
      if verb_eqb v Silent then render_table r v
      else render_table r v ++ render_table (RStudent (b_first b)) (first_verb (b_verdict b) v)
  | _, _ => render_table r v
  end.

(* ---------- well-formed results (what the result classes guarantee) ---------- *)
Definition dset_wf (n : nat) (d : dset) : Prop :=
  Forall (fun c => length c = n) (dcells d) /\ length (dorac d) = n.

Definition dres_wf (r : dres) : Prop :=
  Forall (fun c => length c = d_nb r) (d_labels r)
  /\ Forall (fun c => length c = d_nb r) (d_ref r)
  /\ Forall (dset_wf (d_nb r)) (d_sets r)
  /\ d_verdict r = forallb (fun d => forallb (fun b => b) (dorac d)) (d_sets r).

Definition bres_wf (b : bres) : Prop :=
  Forall (fun c => length c = length (b_orac b)) (b_info b)
  /\ b_verdict b = forallb (fun x => x) (b_orac b)
  /\ dres_wf (b_first b).

Definition mres_wf (m : mres) : Prop :=
  Forall (fun s => length s = length (m_keys m)) (m_samples m)
  /\ m_verdict m = forallb (forallb snd) (m_samples m).

(* a status other than status_ok with a non-null count makes the result false
   (whatever the verdict of an empty summary is) *)
Definition sres_wf (s : sres) : Prop :=
  existsb nonzero (s_others s) = true -> s_verdict s = false.

Definition lres_wf (l : lres) : Prop :=
  l_verdict l = forallb l_orac (l_rows l).

Definition result_wf (r : result) : Prop :=
  match r with
  | REqual d | RApprox d | RStudent d => dres_wf d
  | RBonf b | RHolm b => bres_wf b
  | RMeta m => mres_wf m
  | RStatsTasks s | RStatsTests s => sres_wf s
  | RByLabels l => lres_wf l
  | RFailed => True
  end.

(* ---------- TableTemplate: __getitem__ and join ---------- *)
Record ttab := mk_ttab {
  t_headers : list nat;         (* header ids *)
  t_shape   : list nat;         (* common shape of the columns *)
  t_cols    : list (list cell);
  t_hl      : list (list bool)
}.

(* exception classes: 0 IndexError (too many indices), 1 ValueError (headers differ) *)
Definition tt_getitem (t : ttab) (idx : list (option Z * option Z)) : res ttab :=
  if length (t_shape t) <? length idx then Raise 0
  else
    let ni := norm_idx (t_shape t) idx in
    Ok {| t_headers := t_headers t;
          t_shape := map (fun se => snd se - fst se) ni ++ skipn (length idx) (t_shape t);
          t_cols := map (slice_nd (t_shape t) ni) (t_cols t);
          t_hl := map (slice_nd (t_shape t) ni) (t_hl t) |}.

Fixpoint map2 {X Y Z} (f : X -> Y -> Z) (a : list X) (b : list Y) : list Z :=
  match a, b with
  | x :: r, y :: s => f x y :: map2 f r s
  | _, _ => []
  end.

Definition tt_join1 (t o : ttab) : res ttab :=
  if negb (list_eqb Nat.eqb (t_headers t) (t_headers o)) then Raise 1
  else
    let cs := map2 (@app cell) (t_cols t) (t_cols o) in
    Ok {| t_headers := t_headers t;
          t_shape := [match cs with c :: _ => length c | [] => 0 end];
          t_cols := cs;
          t_hl := map2 (@app bool) (t_hl t) (t_hl o) |}.

Fixpoint tt_join (t : ttab) (others : list ttab) : res ttab :=
  match others with
  | [] => Ok t
  | o :: r => match tt_join1 t o with Ok t' => tt_join t' r | Raise e => Raise e end
  end.

Definition ttab_wf (t : ttab) : Prop :=
  length (t_cols t) = length (t_hl t)
  /\ Forall (fun c => length c = prod (t_shape t)) (t_cols t)
  /\ Forall (fun m => length m = prod (t_shape t)) (t_hl t).

(* every element with its own flag *)
Definition paired (t : ttab) : list (list (cell * bool)) := map2 (@combine cell bool) (t_cols t) (t_hl t).

(* ---------- what the cases files evaluate ---------- *)
Definition table_eqb (a b : table) : bool :=
  list_eqb (list_eqb cell_eqb) (cols a) (cols b)
  && list_eqb (list_eqb Bool.eqb) (mask a) (mask b).

Definition template_eqb (a b : template) : bool :=
  match a, b with
  | Text x, Text y => Bool.eqb x y
  | Table x, Table y => table_eqb x y
  | _, _ => false
  end.

Inductive top := TGet (idx : list (option Z * option Z)) | TJoin (others : list ttab).

Definition ttab_eqb (a b : ttab) : bool :=
  list_eqb Nat.eqb (t_headers a) (t_headers b)
  && list_eqb (list_eqb cell_eqb) (t_cols a) (t_cols b)
  && list_eqb (list_eqb Bool.eqb) (t_hl a) (t_hl b).

Definition run_top (t : ttab) (o : top) : res ttab :=
  match o with TGet idx => tt_getitem t idx | TJoin os => tt_join t os end.

(* shapes are compared through the flattened contents only: the rendering reads
   the columns in C order, whatever their shape *)
Definition check_top (c : ttab * top * res ttab) : bool :=
  let '(t, o, impl) := c in
  match run_top t o, impl with
  | Ok m, Ok i => ttab_eqb m i
  | Raise a, Raise b => Nat.eqb a b
  | _, _ => false
  end.

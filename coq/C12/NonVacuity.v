(* the hypotheses of the C12 theorems are met by concrete non-trivial data, and
   witnesses of what the statement "mark iff the result is false" cannot cover *)
From Coq Require Import List ZArith NArith Arith Bool Lia.
From VV Require Import Lib.Base Lib.Pyslice C09.Model C12.Model C12.Rst C12.Proofs C12.ProofsRows
  C12.ProofsTab C12.ProofsRst.
Import ListNotations.

(* a Student result on 3 bins, 2 datasets; bin 1 fails for the second dataset *)
Definition r3 : dres :=
  mk_dres false 3 [[CI 1; CI 2; CI 3]] [[CI 10; CI 11; CI 12]; [CI 20; CI 21; CI 22]]
    [mk_dset [[CI 30; CI 31; CI 32]] [true; true; true];
     mk_dset [[CI 40; CI 41; CI 42]] [true; false; true]] false.

Example r3_wf : dres_wf r3.
Proof. repeat split; repeat constructor. Qed.

Example r3_failing : failing_bins r3 = [1].
Proof. reflexivity. Qed.

Example r3_intermediate :
  repr_student r3 Default
  = [Table (mk_table [[CI 2]; [CI 11]; [CI 21]; [CI 31]; [CB true]; [CI 41]; [CB false]]
                     [[false]; [false]; [false]; [false]; [false]; [false]; [true]])].
Proof. reflexivity. Qed.

(* a passing Bonferroni result whose first (Student) test is false: the FullTable
   rendering at DEFAULT shows the KO of the Student summary (the known finding) *)
Definition b3 : bres := mk_bres [[CI 50; CI 51]] [true; true] true r3.

Example b3_wf : result_wf (RBonf b3).
Proof. split; [repeat constructor|]. split; [reflexivity|apply r3_wf]. Qed.

Example full_correction_mark_refuted :
  exists r v, result_wf r /\ v <> Silent /\ verdict r = true
              /\ has_mark (render RepFullTable r v) = true.
Proof. exists (RBonf b3), Default. split; [apply b3_wf|]. split; [discriminate|]. split; reflexivity. Qed.

(* statistics: an empty summary, whatever its verdict, is marked iff false *)
Example stats_empty_false : has_mark (repr_stats (mk_sres (1, 0) [(2, 0); (3, 0)] false) Default) = true.
Proof. reflexivity. Qed.
Example stats_empty_true : has_mark (repr_stats (mk_sres (1, 0) [(2, 0); (3, 0)] true) Default) = false.
Proof. reflexivity. Qed.

(* slicing a 2x3 table whose element (1, 0) is flagged *)
Definition t23 : ttab :=
  mk_ttab [1; 2] [2; 3] [[CI 0; CI 1; CI 2; CI 3; CI 4; CI 5]; [CI 10; CI 11; CI 12; CI 13; CI 14; CI 15]]
          [[false; false; false; false; false; false]; [false; false; false; true; false; false]].

Example t23_aligned : aligned t23.
Proof. repeat constructor. Qed.

Example t23_slice :
  match tt_getitem t23 [(Some 1%Z, None); (None, Some 2%Z)] with
  | Ok t => paired t = [[(CI 3, false); (CI 4, false)]; [(CI 13, true); (CI 14, false)]]
  | Raise _ => False
  end.
Proof. vm_compute. reflexivity. Qed.

(* what the unfixed __getitem__ did (highlights copied unsliced): the flag of
   element 13 ended up on nothing, and row 0 of the slice showed 10's flag *)
Example old_getitem_misaligned_refuted :
  let old_hl := t_hl t23 in
  match tt_getitem t23 [(Some 1%Z, None); (None, Some 2%Z)] with
  | Ok t => map2 (@combine cell bool) (t_cols t) old_hl <> paired t
  | Raise _ => False
  end.
Proof. vm_compute. discriminate. Qed.

(* a table satisfying the hypotheses of the round trip: "a b" / ":hl:`x`" *)
Definition hs : list str := [[104]%N; [105; 32; 106]%N].
Definition rows1 : list (list (str * bool)) :=
  [[([32; 97]%N, false); ([120]%N, true)]; [([98; 32; 99]%N, false); ([49; 46; 53]%N, false)]].

Example rows1_ok : Forall (row_ok (length hs)) rows1.
Proof.
  repeat constructor; cbn; try (intros X; repeat (destruct X as [X|X]; try discriminate); try contradiction);
    try discriminate; try reflexivity.
  all: try (eexists; eexists; split; [reflexivity|]; split; [discriminate|]; intros _ c r E; inversion E; discriminate).
  intros [E|[]]; discriminate.
Qed.

Example roundtrip_example :
  parse_simple_table 4 (tabularize hs (map (map printed) rows1) 4)
  = Some (hs, [[([97]%N, false); ([120]%N, true)]; [([98; 32; 99]%N, false); ([49; 46; 53]%N, false)]]).
Proof. vm_compute. reflexivity. Qed.

(* C12 proofs, part 3: TableTemplate.__getitem__ and join keep every element
   with its own highlight flag (columns and highlights stay aligned), for all
   slices and all sequences of joins. *)
From Coq Require Import List ZArith Bool Arith Lia.
From VV Require Import Lib.Base Lib.Pyslice C09.Model C12.Model.
Import ListNotations.

(* ---------- slicing commutes with map (it only moves elements) ---------- *)

Lemma chunks_map {X Y} (f : X -> Y) k n l :
  chunks k n (map f l) = map (map f) (chunks k n l).
Proof.
  revert l; induction n as [|n IH]; intros l; cbn; [reflexivity|].
  rewrite firstn_map, skipn_map, IH. reflexivity.
Qed.

Lemma sel_map {X Y} (g : X -> Y) l s e : sel (map g l) s e = map g (sel l s e).
Proof. unfold sel. now rewrite skipn_map, firstn_map. Qed.

Lemma slice_nd_map {X Y} (f : X -> Y) sh : forall idx l,
  slice_nd sh idx (map f l) = map f (slice_nd sh idx l).
Proof.
  induction sh as [|d sh IH]; intros idx l; [destruct idx; reflexivity|].
  destruct idx as [|[s e] idx]; [reflexivity|]. cbn [slice_nd].
  rewrite chunks_map, sel_map.
  induction (sel (chunks (prod sh) d l) s e) as [|c cs IHc]; cbn; [reflexivity|].
  rewrite map_app, IH, IHc. reflexivity.
Qed.

Lemma combine_fst_snd {X Y} (z : list (X * Y)) : combine (map fst z) (map snd z) = z.
Proof. induction z as [|[a b] r IH]; cbn; [reflexivity|]. now rewrite IH. Qed.

Lemma map_fst_combine {X Y} (a : list X) (b : list Y) :
  length a = length b -> map fst (combine a b) = a.
Proof. revert b; induction a as [|x r IH]; intros [|y s] H; cbn in *; try discriminate; [reflexivity|]. f_equal. apply IH. lia. Qed.

Lemma map_snd_combine {X Y} (a : list X) (b : list Y) :
  length a = length b -> map snd (combine a b) = b.
Proof. revert b; induction a as [|x r IH]; intros [|y s] H; cbn in *; try discriminate; [reflexivity|]. f_equal. apply IH. lia. Qed.

(* slicing a column and its flags = slicing the column of (element, flag) *)
Lemma slice_nd_combine {X Y} sh idx (c : list X) (m : list Y) :
  length c = length m ->
  combine (slice_nd sh idx c) (slice_nd sh idx m) = slice_nd sh idx (combine c m)
  /\ length (slice_nd sh idx c) = length (slice_nd sh idx m).
Proof.
  intros H.
  rewrite <- (map_fst_combine c m H) at 1 3. rewrite <- (map_snd_combine c m H) at 2 5.
  rewrite !slice_nd_map. split; [apply combine_fst_snd | now rewrite !map_length].
Qed.

(* ---------- aligned tables ---------- *)

(* every column has as many flags as elements *)
Definition aligned (t : ttab) : Prop :=
  Forall2 (fun (c : list cell) (m : list bool) => length c = length m) (t_cols t) (t_hl t).

Lemma ttab_wf_aligned t : ttab_wf t -> aligned t.
Proof.
  intros (L & C & M). unfold aligned. revert L C M.
  generalize (t_cols t) (t_hl t) (prod (t_shape t)).
  induction l as [|c cs IH]; intros [|m ms] n L C M; cbn in L; try discriminate; constructor.
  - inversion C; inversion M; subst. congruence.
  - inversion C; inversion M; subst. eapply IH; eauto.
Qed.

Theorem getitem_alignment t idx t' :
  aligned t -> tt_getitem t idx = Ok t' ->
  aligned t' /\
  paired t' = map (slice_nd (t_shape t) (norm_idx (t_shape t) idx)) (paired t) /\
  t_headers t' = t_headers t.
Proof.
  unfold tt_getitem, aligned, paired. intros A G.
  destruct (length (t_shape t) <? length idx); [discriminate|]. inversion G; subst t'; clear G.
  cbn [t_cols t_hl t_headers]. set (S := norm_idx (t_shape t) idx).
  split; [|split; [|reflexivity]].
  - induction A as [|c m cs ms H A IH]; cbn; constructor; [|exact IH].
    apply (slice_nd_combine (t_shape t) S c m H).
  - induction A as [|c m cs ms H A IH]; cbn; [reflexivity|]. f_equal; [|exact IH].
    apply (slice_nd_combine (t_shape t) S c m H).
Qed.

Lemma combine_app_eq' {X Y} (a a' : list X) (b b' : list Y) :
  length a = length b -> combine (a ++ a') (b ++ b') = combine a b ++ combine a' b'.
Proof.
  revert b; induction a as [|x r IH]; intros [|y s] H; cbn in *; try discriminate; [reflexivity|].
  f_equal. apply IH. lia.
Qed.

Theorem join1_alignment t o t' :
  aligned t -> aligned o -> tt_join1 t o = Ok t' ->
  aligned t' /\ paired t' = map2 (@app (cell * bool)) (paired t) (paired o)
  /\ t_headers t' = t_headers t.
Proof.
  unfold tt_join1, aligned, paired. intros A B J.
  destruct (negb (list_eqb Nat.eqb (t_headers t) (t_headers o))); [discriminate|].
  inversion J; subst t'; clear J. cbn [t_cols t_hl t_headers].
  split; [|split; [|reflexivity]].
  - revert B. generalize (t_cols o) (t_hl o).
    induction A as [|c m cs ms H A IH]; intros oc oh B; cbn; [constructor|].
    inversion B as [|c2 m2 cs2 ms2 H2 B2]; subst; cbn; constructor.
    + rewrite !app_length. lia.
    + apply IH, B2.
  - revert B. generalize (t_cols o) (t_hl o).
    induction A as [|c m cs ms H A IH]; intros oc oh B; cbn; [reflexivity|].
    inversion B as [|c2 m2 cs2 ms2 H2 B2]; subst; cbn; [reflexivity|]. f_equal.
    + now apply combine_app_eq'.
    + apply IH, B2.
Qed.

(* joining any number of tables: the pairs are appended column by column *)
Theorem join_alignment others : forall t t',
  aligned t -> Forall aligned others -> tt_join t others = Ok t' ->
  aligned t'
  /\ paired t' = fold_left (fun p o => map2 (@app (cell * bool)) p (paired o)) others (paired t)
  /\ t_headers t' = t_headers t.
Proof.
  induction others as [|o r IH]; intros t t' A F J; cbn in J.
  - inversion J; subst. repeat split; auto.
  - inversion F as [|? ? Ao Fr]; subst.
    destruct (tt_join1 t o) as [t1|e] eqn:E; [|discriminate].
    destruct (join1_alignment t o t1 A Ao E) as (A1 & P1 & H1).
    destruct (IH t1 t' A1 Fr J) as (A' & P' & H'). repeat split; auto.
    + cbn. now rewrite <- P1.
    + congruence.
Qed.

(* any sequence of slicings and joinings *)
Fixpoint run_tops (t : ttab) (ops : list top) : res ttab :=
  match ops with
  | [] => Ok t
  | o :: r => match run_top t o with Ok t' => run_tops t' r | Raise e => Raise e end
  end.

Definition top_aligned (o : top) : Prop :=
  match o with TGet _ => True | TJoin os => Forall aligned os end.

Theorem slice_join_alignment ops : forall t t',
  aligned t -> Forall top_aligned ops -> run_tops t ops = Ok t' ->
  aligned t' /\ t_headers t' = t_headers t.
Proof.
  induction ops as [|o r IH]; intros t t' A F R; cbn in R.
  - inversion R; subst; auto.
  - inversion F as [|? ? Fo Fr]; subst.
    destruct (run_top t o) as [t1|e] eqn:E; [|discriminate].
    assert (A1 : aligned t1 /\ t_headers t1 = t_headers t).
    { destruct o as [idx|os]; cbn in E.
      - destruct (getitem_alignment t idx t1 A E) as (X & _ & Y); auto.
      - destruct (join_alignment os t t1 A Fo E) as (X & _ & Y); auto. }
    destruct A1 as [A1 H1]. destruct (IH t1 t' A1 Fr R) as [A' H']. split; [exact A'|congruence].
Qed.

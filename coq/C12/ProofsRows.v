(* C12 proofs, part 2: in the detailed tables the rows are the bins (all of them
   / the failing ones), each shown with its own labels, values, errors and
   oracle, and the highlighted rows are exactly the failing bins. *)
From Coq Require Import List ZArith Bool Arith Lia Sorted.
From VV Require Import Lib.Base C12.Model C12.Proofs.
Import ListNotations.

(* ---------- the row a detailed table must show for bin i ---------- *)
Definition ds_row (i : nat) (d : dset) : list (cell * bool) :=
  map (fun c => (nth i c (CK 0), false)) (dcells d)
  ++ [(CB (nth i (dorac d) true), negb (nth i (dorac d) true))].

Definition bin_row (r : dres) (i : nat) : list (cell * bool) :=
  map (fun c => (nth i c (CK 0), false)) (d_labels r)
  ++ map (fun c => (nth i c (CK 0), false)) (d_ref r)
  ++ flat_map (ds_row i) (d_sets r).

(* bin i fails for some dataset *)
Definition bin_fails (r : dres) (i : nat) : bool :=
  existsb (fun d => negb (nth i (dorac d) true)) (d_sets r).

(* positions of the [true]s, in increasing order *)
Fixpoint positions (s : nat) (keep : list bool) : list nat :=
  match keep with
  | [] => []
  | k :: r => if k then s :: positions (S s) r else positions (S s) r
  end.

Definition failing_bins (r : dres) : list nat := positions 0 (failing r).

(* the shape part of well-formedness *)
Definition dres_shape (r : dres) : Prop :=
  Forall (fun c => length c = d_nb r) (d_labels r)
  /\ Forall (fun c => length c = d_nb r) (d_ref r)
  /\ Forall (dset_wf (d_nb r)) (d_sets r).

Lemma dres_wf_shape r : dres_wf r -> dres_shape r.
Proof. intros (A & B & C & _). now repeat split. Qed.

(* ---------- zipping columns with their masks ---------- *)

Lemma combine_app_eq {X Y} (a a' : list X) (b b' : list Y) :
  length a = length b -> combine (a ++ a') (b ++ b') = combine a b ++ combine a' b'.
Proof.
  revert b; induction a as [|x r IH]; intros [|y s] H; cbn in *; try discriminate; [reflexivity|].
  f_equal. apply IH. lia.
Qed.

Lemma plain_length cs : length (plain cs) = length cs.
Proof. unfold plain. apply map_length. Qed.

Lemma zip_plain cs :
  map (fun p => combine (fst p) (snd p)) (combine cs (plain cs))
  = map (fun c => combine c (falses c)) cs.
Proof. unfold plain. induction cs as [|c r IH]; cbn; [reflexivity|]. now rewrite IH. Qed.

Lemma ds_cols_mask_length d : length (ds_cols d) = length (ds_mask d).
Proof. unfold ds_cols, ds_mask. now rewrite !app_length, plain_length. Qed.

Lemma zip_sets sets :
  combine (flat_map ds_cols sets) (flat_map ds_mask sets)
  = flat_map (fun d => combine (ds_cols d) (ds_mask d)) sets.
Proof.
  induction sets as [|d r IH]; cbn; [reflexivity|].
  rewrite combine_app_eq by apply ds_cols_mask_length. now rewrite IH.
Qed.

Lemma nth_combine_falses (c : list cell) i :
  nth i (combine c (falses c)) dcell = (nth i c (CK 0), false).
Proof.
  revert i; induction c as [|x r IH]; intros [|i]; cbn; try reflexivity. apply IH.
Qed.

Lemma nth_oracle_col o i :
  i < length o ->
  nth i (combine (map CB o) (map negb o)) dcell = (CB (nth i o true), negb (nth i o true)).
Proof.
  revert i; induction o as [|b r IH]; intros [|i] H; cbn in *; try lia; [reflexivity|].
  apply IH. lia.
Qed.

Lemma row_ds i d n :
  dset_wf n d -> i < n ->
  map (fun c => nth i c dcell)
      (map (fun p => combine (fst p) (snd p)) (combine (ds_cols d) (ds_mask d)))
  = ds_row i d.
Proof.
  intros [_ Lo] Hi. unfold ds_cols, ds_mask, ds_row.
  rewrite combine_app_eq by (now rewrite plain_length).
  rewrite !map_app, zip_plain, !map_map. cbn. f_equal.
  - apply map_ext. intros c. apply nth_combine_falses.
  - rewrite nth_oracle_col by lia. reflexivity.
Qed.

Lemma row_ds' i d n :
  dset_wf n d -> i < n ->
  map (fun x : list cell * list bool => nth i (combine (fst x) (snd x)) dcell)
      (combine (ds_cols d) (ds_mask d))
  = ds_row i d.
Proof. intros W H. rewrite <- (row_ds i d n W H). now rewrite map_map. Qed.

Theorem full_table_rows r i :
  dres_shape r -> i < d_nb r -> row_at (full_table r) i = bin_row r i.
Proof.
  intros (_ & _ & S) Hi. unfold row_at, zipcols, full_table, bin_row. cbn [cols mask].
  rewrite combine_app_eq by (now rewrite plain_length).
  rewrite combine_app_eq by (now rewrite plain_length).
  rewrite zip_sets, !map_app, !zip_plain, !map_map. f_equal; [|f_equal].
  - apply map_ext. intros c. apply nth_combine_falses.
  - apply map_ext. intros c. apply nth_combine_falses.
  - induction (d_sets r) as [|d ds IH]; cbn; [reflexivity|].
    inversion S as [|? ? Sd Sr]; subst. rewrite !map_app.
    rewrite (row_ds' i d (d_nb r) Sd Hi). f_equal. apply IH, Sr.
Qed.

(* a row is highlighted exactly when its bin fails for some dataset *)
Theorem bin_row_highlighted r i :
  existsb snd (bin_row r i) = bin_fails r i.
Proof.
  unfold bin_row, bin_fails. rewrite !existsb_app, !existsb_map. cbn.
  rewrite !existsb_false. cbn. rewrite existsb_flat_map. apply existsb_ext. intros d.
  unfold ds_row. rewrite existsb_app, existsb_map. cbn. now rewrite existsb_false, orb_false_r.
Qed.

(* ---------- positions and pick ---------- *)

Lemma positions_ge s keep : Forall (fun i => s <= i) (positions s keep).
Proof.
  revert s; induction keep as [|k r IH]; intros s; cbn; [constructor|].
  assert (F : Forall (fun i => s <= i) (positions (S s) r)).
  { eapply Forall_impl; [|apply IH]. cbn; intros; lia. }
  destruct k; [constructor; [lia|exact F] | exact F].
Qed.

Lemma positions_sorted s keep : StronglySorted lt (positions s keep).
Proof.
  revert s; induction keep as [|k r IH]; intros s; cbn; [constructor|].
  destruct k; [|apply IH]. constructor; [apply IH|].
  eapply Forall_impl; [|apply positions_ge]. cbn; intros; lia.
Qed.

Lemma positions_In s keep i :
  In i (positions s keep) <-> s <= i /\ i - s < length keep /\ nth (i - s) keep false = true.
Proof.
  revert s; induction keep as [|k r IH]; intros s; cbn [positions length].
  - split; [intros []|]. intros (_ & H & _). cbn in H. lia.
  - assert (R : In i (positions (S s) r) <->
                s <= i /\ i - s < S (length r) /\ nth (i - s) (k :: r) false = true /\ i <> s).
    { rewrite IH. split.
      - intros (A & B & C). replace (i - s) with (S (i - S s)) by lia. cbn. repeat split; auto; lia.
      - intros (A & B & C & D). replace (i - s) with (S (i - S s)) in C by lia. cbn in C.
        repeat split; auto; lia. }
    destruct k; cbn [In]; rewrite R.
    + split.
      * intros [E | H]; [subst i; rewrite Nat.sub_diag; cbn; repeat split; lia | tauto].
      * intros (A & B & C). destruct (Nat.eq_dec i s); [left; congruence | right; tauto].
    + split; [tauto|]. intros (A & B & C). repeat split; auto.
      intros E; subst i. rewrite Nat.sub_diag in C. cbn in C. discriminate.
Qed.

Lemma pick_positions {X} (d : X) : forall keep l s,
  length keep = length l ->
  pick keep l = map (fun i => nth (i - s) l d) (positions s keep).
Proof.
  induction keep as [|k r IH]; intros [|x xs] s H; cbn in H; try discriminate; [reflexivity|].
  rewrite pick_cons. cbn [positions].
  assert (T : pick r xs = map (fun i => nth (i - s) (x :: xs) d) (positions (S s) r)).
  { rewrite (IH xs (S s)) by lia. apply map_ext_in. intros i Hi.
    pose proof (positions_ge (S s) r) as G. rewrite Forall_forall in G. specialize (G i Hi).
    replace (i - s) with (S (i - S s)) by lia. reflexivity. }
  destruct k; cbn [map]; [|exact T]. rewrite Nat.sub_diag. cbn. now rewrite T.
Qed.

Lemma positions_length keep s : length (positions s keep) = length (filter (fun b => b) keep).
Proof. revert s; induction keep as [|k r IH]; intros s; cbn; [reflexivity|]. destruct k; cbn; now rewrite IH. Qed.

Lemma pick_length {X} keep (l : list X) :
  length keep = length l -> length (pick keep l) = length (filter (fun b : bool => b) keep).
Proof.
  intros H. destruct l as [|x xs].
  - destruct keep; [reflexivity|discriminate].
  - rewrite (pick_positions x keep (x :: xs) 0 H), map_length. apply positions_length.
Qed.

Lemma pick_nth {X} (d : X) keep l k :
  length keep = length l -> k < length (positions 0 keep) ->
  nth k (pick keep l) d = nth (nth k (positions 0 keep) 0) l d.
Proof.
  intros H Hk. rewrite (pick_positions d keep l 0 H).
  rewrite (nth_indep _ d (nth (0 - 0) l d)) by (now rewrite map_length).
  rewrite (map_nth (fun i => nth (i - 0) l d)). now rewrite Nat.sub_0_r.
Qed.

(* ---------- the intermediate Student table ---------- *)

Lemma failing_length r : dres_wf r -> length (failing r) = d_nb r.
Proof. intros W. unfold failing. rewrite map_length. apply all_ok_spec, W. Qed.

Definition picked (r : dres) : dres :=
  let keep := failing r in
  {| d_scalar := d_scalar r; d_nb := length (filter (fun b => b) keep);
     d_labels := map (pick keep) (d_labels r);
     d_ref := map (pick keep) (d_ref r);
     d_sets := map (pick_dset keep) (d_sets r);
     d_verdict := d_verdict r |}.

Lemma interm_is_full r : interm_table r = full_table (picked r).
Proof. reflexivity. Qed.

Lemma picked_shape r : dres_wf r -> dres_shape (picked r).
Proof.
  intros W. pose proof (failing_length r W) as L. destruct W as (A & B & C & _).
  unfold dres_shape, picked; cbn. repeat split.
  - apply Forall_map. eapply Forall_impl; [|exact A]. intros c Hc. apply pick_length. congruence.
  - apply Forall_map. eapply Forall_impl; [|exact B]. intros c Hc. apply pick_length. congruence.
  - apply Forall_map. eapply Forall_impl; [|exact C]. intros d [D1 D2]. split; cbn.
    + apply Forall_map. eapply Forall_impl; [|exact D1]. intros c Hc. apply pick_length. congruence.
    + apply pick_length. congruence.
Qed.

Lemma picked_row r k :
  dres_wf r -> k < length (failing_bins r) ->
  bin_row (picked r) k = bin_row r (nth k (failing_bins r) 0).
Proof.
  intros W Hk. pose proof (failing_length r W) as L. destruct W as (A & B & C & _).
  unfold failing_bins in *. unfold bin_row, picked; cbn [d_labels d_ref d_sets].
  rewrite !map_map. f_equal; [|f_equal].
  - apply map_ext_in. intros c Hc. rewrite Forall_forall in A. f_equal.
    apply pick_nth; [rewrite (A c Hc); exact L | exact Hk].
  - apply map_ext_in. intros c Hc. rewrite Forall_forall in B. f_equal.
    apply pick_nth; [rewrite (B c Hc); exact L | exact Hk].
  - rewrite flat_map_concat_map, map_map, <- flat_map_concat_map.
    induction (d_sets r) as [|d ds IH]; cbn; [reflexivity|].
    inversion C as [|? ? [D1 D2] Cr]; subst. f_equal; [|apply IH, Cr].
    unfold ds_row; cbn [pick_dset dcells dorac]. rewrite map_map.
    f_equal.
    + apply map_ext_in. intros c Hc. rewrite Forall_forall in D1. f_equal.
      apply pick_nth; [rewrite (D1 c Hc); exact L | exact Hk].
    + rewrite (pick_nth true) by (congruence || exact Hk). reflexivity.
Qed.

Theorem interm_table_rows r k :
  dres_wf r -> k < length (failing_bins r) ->
  row_at (interm_table r) k = bin_row r (nth k (failing_bins r) 0).
Proof.
  intros W Hk. rewrite interm_is_full.
  rewrite full_table_rows; [now apply picked_row | now apply picked_shape |].
  cbn [picked d_nb]. unfold failing_bins in Hk. now rewrite positions_length in Hk.
Qed.

(* the failing bins are exactly the bins where some dataset fails, in order *)
Theorem failing_bins_spec r :
  dres_wf r ->
  StronglySorted lt (failing_bins r) /\
  forall i, In i (failing_bins r) <-> i < d_nb r /\ bin_fails r i = true.
Proof.
  intros W. split; [apply positions_sorted|]. intros i.
  unfold failing_bins. rewrite positions_In, Nat.sub_0_r, (failing_length r W).
  destruct (all_ok_spec r W) as [La Na]. unfold failing, bin_fails.
  split.
  - intros (_ & Hi & Hn). split; [exact Hi|].
    rewrite (nth_indep _ false (negb true)) in Hn by (rewrite map_length; lia).
    rewrite map_nth, Na in Hn by exact Hi. now rewrite existsb_negb_forallb.
  - intros (Hi & Hf). repeat split; [lia | exact Hi |].
    rewrite (nth_indep _ false (negb true)) by (rewrite map_length; lia).
    rewrite map_nth, Na by exact Hi. now rewrite <- existsb_negb_forallb.
Qed.

(* every column of the two tables has one element per (failing) bin *)
Lemma full_table_wf r : dres_shape r -> table_wf (d_nb r) (full_table r).
Proof.
  intros (A & B & C). unfold table_wf, full_table; cbn. repeat split.
  - rewrite !app_length, !plain_length. f_equal. f_equal.
    induction (d_sets r) as [|d ds IH]; cbn; [reflexivity|].
    inversion C; subst. rewrite !app_length, ds_cols_mask_length. f_equal. now apply IH.
  - apply Forall_app; split; [exact A|]. apply Forall_app; split; [exact B|].
    induction (d_sets r) as [|d ds IH]; cbn; [constructor|].
    inversion C as [|? ? [D1 D2] Cr]; subst. apply Forall_app; split; [|now apply IH].
    unfold ds_cols. apply Forall_app; split; [exact D1|]. constructor; [|constructor].
    now rewrite map_length.
  - unfold plain. apply Forall_app; split.
    { apply Forall_map. eapply Forall_impl; [|exact A]. intros c Hc. unfold falses. now rewrite map_length. }
    apply Forall_app; split.
    { apply Forall_map. eapply Forall_impl; [|exact B]. intros c Hc. unfold falses. now rewrite map_length. }
    induction (d_sets r) as [|d ds IH]; cbn; [constructor|].
    inversion C as [|? ? [D1 D2] Cr]; subst. apply Forall_app; split; [|now apply IH].
    unfold ds_mask, plain. apply Forall_app; split.
    + apply Forall_map. eapply Forall_impl; [|exact D1]. intros c Hc. unfold falses. now rewrite map_length.
    + constructor; [|constructor]. now rewrite map_length.
Qed.

Theorem interm_table_wf r :
  dres_wf r -> table_wf (length (failing_bins r)) (interm_table r).
Proof.
  intros W. rewrite interm_is_full. unfold failing_bins. rewrite positions_length.
  apply (full_table_wf (picked r)), picked_shape, W.
Qed.

(* C12: what the generated cases files evaluate (comparison of the models with
   the observations of the implementation, inside Coq). *)
From Coq Require Import List ZArith NArith Bool.
From VV Require Import Lib.Base C12.Model C12.Rst.
Import ListNotations.

(* one result, all its renderings: (representer, verbosity, observed templates) *)
Definition check_result (c : result * list (representer * verb * list template)) : bool :=
  let '(r, obs) := c in
  forallb (fun o => let '(rep, v, ts) := o in list_eqb template_eqb (render rep r v) ts) obs.

Definition cell2_eqb (a b : str * bool) : bool := str_eqb (fst a) (fst b) && Bool.eqb (snd a) (snd b).

(* headers, formatted column values, highlights, str(RstTable) of the
   implementation (None: it raised ValueError), and whether the cells satisfy
   the hypotheses of the round-trip theorem (then the emitted table must read
   back as the stripped inputs with their flags) *)
Definition check_str_case
  (c : list str * list (list str) * list (list bool) * option str * bool) : bool :=
  let '(hs, cs, ms, impl, rb) := c in
  match rst_table_str hs cs ms, impl with
  | Raise _, None => true
  | Ok s, Some i =>
      str_eqb s i
      && (negb rb ||
          match format_rows cs ms, transpose [] cs, transpose false ms with
          | Ok rows, Ok rc, Ok rm =>
              match parse_simple_table 4 (tabularize hs rows 4) with
              | Some (hs', rows') =>
                  list_eqb str_eqb hs' (map strip hs)
                  && list_eqb (list_eqb cell2_eqb) rows'
                       (zip_with (zip_with (fun t f => (strip t, f))) rc rm)
              | None => false
              end
          | _, _, _ => false
          end)
  | _, _ => false
  end.

(* C12 proofs, part 1: a rendering carries a mark iff the result is false,
   for every kind of result and every non-silent verbosity. *)
From Coq Require Import List ZArith Bool Arith Lia.
From VV Require Import Lib.Base C12.Model.
Import ListNotations.

(* ---------- generic list facts ---------- *)

Lemma existsb_flat_map {X Y} (f : Y -> bool) (g : X -> list Y) l :
  existsb f (flat_map g l) = existsb (fun x => existsb f (g x)) l.
Proof. induction l as [|a r IH]; cbn; [reflexivity|]. now rewrite existsb_app, IH. Qed.

Lemma existsb_map {X Y} (f : Y -> bool) (g : X -> Y) l :
  existsb f (map g l) = existsb (fun x => f (g x)) l.
Proof. induction l as [|a r IH]; cbn; [reflexivity|]. now rewrite IH. Qed.

Lemma existsb_ext {X} (f g : X -> bool) l :
  (forall x, f x = g x) -> existsb f l = existsb g l.
Proof. intros H; induction l as [|a r IH]; cbn; [reflexivity|]. now rewrite H, IH. Qed.

Lemma existsb_negb_forallb {X} (f : X -> bool) l :
  existsb (fun x => negb (f x)) l = negb (forallb f l).
Proof. induction l as [|a r IH]; cbn; [reflexivity|]. rewrite IH. now destruct (f a). Qed.

Lemma forallb_map' {X Y} (f : Y -> bool) (g : X -> Y) l :
  forallb f (map g l) = forallb (fun x => f (g x)) l.
Proof. induction l as [|a r IH]; cbn; [reflexivity|]. now rewrite IH. Qed.

Lemma forallb_ext' {X} (f g : X -> bool) l :
  (forall x, f x = g x) -> forallb f l = forallb g l.
Proof. intros H. induction l as [|a r IH]; cbn; [reflexivity|]. now rewrite H, IH. Qed.

Lemma existsb_false {X} (l : list X) : existsb (fun _ => false) l = false.
Proof. induction l; cbn; auto. Qed.

Lemma existsb_repeat_S {X} (f : X -> bool) x n : existsb f (repeat x (S n)) = f x.
Proof. induction n as [|n IH]; cbn in *; [now rewrite orb_false_r|]. rewrite IH. now destruct (f x). Qed.

Lemma falses_no_mark {X} (l : list X) : existsb (fun b : bool => b) (falses l) = false.
Proof. unfold falses. rewrite existsb_map. apply existsb_false. Qed.

Lemma plain_no_mark cs : existsb (existsb (fun b : bool => b)) (plain cs) = false.
Proof.
  unfold plain. rewrite existsb_map. erewrite existsb_ext; [apply existsb_false|].
  intros; apply falses_no_mark.
Qed.

Lemma mark_negb_col o : existsb (fun b : bool => b) (map negb o) = negb (forallb (fun b => b) o).
Proof. rewrite existsb_map. apply (existsb_negb_forallb (fun b : bool => b)). Qed.

(* ---------- pick ---------- *)

Lemma pick_cons {X} k ks (x : X) xs :
  pick (k :: ks) (x :: xs) = if k then x :: pick ks xs else pick ks xs.
Proof. unfold pick. cbn. now destruct k. Qed.

Lemma pick_nil_l {X} (l : list X) : pick [] l = [].
Proof. reflexivity. Qed.

Lemma pick_nil_r {X} ks : pick ks (@nil X) = [].
Proof. unfold pick. now destruct ks. Qed.

Lemma pick_hit {X} (f : X -> bool) d : forall keep l i,
  i < length keep -> i < length l ->
  nth i keep false = true -> f (nth i l d) = true ->
  existsb f (pick keep l) = true.
Proof.
  induction keep as [|k ks IH]; intros [|x xs] i Hk Hl Hn Hf; cbn in Hk, Hl; try lia.
  rewrite pick_cons. destruct i as [|i]; cbn in Hn, Hf.
  - subst k. cbn. now rewrite Hf.
  - assert (E : existsb f (pick ks xs) = true) by (apply (IH xs i); auto; lia).
    destruct k; cbn; rewrite ?E; auto using orb_true_r.
Qed.

(* ---------- pointwise conjunction of oracle columns ---------- *)

Lemma andl_length a b : length (andl a b) = Nat.min (length a) (length b).
Proof. revert b; induction a as [|x r IH]; intros [|y s]; cbn; auto. Qed.

Lemma andl_nth a : forall b i, i < length a -> i < length b ->
  nth i (andl a b) true = nth i a true && nth i b true.
Proof.
  induction a as [|x r IH]; intros [|y s] i Ha Hb; cbn in *; try lia.
  destruct i; [reflexivity|]. apply IH; lia.
Qed.

Lemma fold_andl_spec n : forall ls init,
  length init = n -> Forall (fun l => length l = n) ls ->
  length (fold_left andl ls init) = n /\
  forall i, i < n ->
    nth i (fold_left andl ls init) true = nth i init true && forallb (fun l => nth i l true) ls.
Proof.
  induction ls as [|l ls IH]; intros init Hi Hl; cbn.
  - split; [exact Hi|]. intros; now rewrite andb_true_r.
  - inversion Hl as [|? ? Hl1 Hl2]; subst.
    assert (Hlen : length (andl init l) = length init) by (rewrite andl_length; lia).
    destruct (IH (andl init l) Hlen Hl2) as [L N]. split; [exact L|].
    intros i Hi'. rewrite N by exact Hi'. rewrite andl_nth by lia. now rewrite andb_assoc.
Qed.

Lemma nth_repeat_true i n : nth i (repeat true n) true = true.
Proof. revert i; induction n; intros [|i]; cbn; auto. Qed.

(* some column has a [false] at a position where the conjunction is false *)
Lemma existsb_nth_false (o : list bool) :
  forallb (fun b => b) o = false -> exists i, i < length o /\ nth i o true = false.
Proof.
  induction o as [|b r IH]; cbn; [discriminate|]. destruct b; cbn.
  - intros H. destruct (IH H) as [i [Hi Hn]]. exists (S i). split; [lia|exact Hn].
  - intros _. exists 0. split; [lia|reflexivity].
Qed.

(* ---------- dataset tables ---------- *)

Lemma ds_mask_mark d :
  existsb (existsb (fun b : bool => b)) (ds_mask d) = negb (forallb (fun b => b) (dorac d)).
Proof.
  unfold ds_mask. rewrite existsb_app, plain_no_mark. cbn. now rewrite mark_negb_col, orb_false_r.
Qed.

Lemma full_table_mark r :
  table_mark (full_table r) = negb (forallb (fun d => forallb (fun b => b) (dorac d)) (d_sets r)).
Proof.
  unfold table_mark, full_table; cbn. rewrite !existsb_app, !plain_no_mark. cbn.
  rewrite existsb_flat_map. rewrite <- existsb_negb_forallb.
  apply existsb_ext. intros d. apply ds_mask_mark.
Qed.

Lemma full_table_mark_wf r : dres_wf r -> table_mark (full_table r) = negb (d_verdict r).
Proof. intros (_ & _ & _ & V). rewrite full_table_mark. now rewrite V. Qed.

Lemma all_ok_spec r : dres_wf r ->
  length (all_ok r) = d_nb r /\
  forall i, i < d_nb r ->
    nth i (all_ok r) true = forallb (fun d => nth i (dorac d) true) (d_sets r).
Proof.
  intros (_ & _ & S & _). unfold all_ok.
  assert (F : Forall (fun l => length l = d_nb r) (map dorac (d_sets r))).
  { apply Forall_map. eapply Forall_impl; [|exact S]. intros d [_ H]; exact H. }
  destruct (fold_andl_spec (d_nb r) _ _ (repeat_length true (d_nb r)) F) as [L N].
  split; [exact L|]. intros i Hi. rewrite N by exact Hi. rewrite nth_repeat_true. cbn.
  now rewrite forallb_map'.
Qed.

Lemma interm_table_mark r :
  dres_wf r -> d_verdict r = false -> table_mark (interm_table r) = true.
Proof.
  intros W V. pose proof W as (_ & _ & S & E). rewrite V in E. symmetry in E.
  unfold interm_table. rewrite full_table_mark. cbn [d_sets].
  rewrite <- existsb_negb_forallb, existsb_map. cbn [pick_dset dorac].
  (* a dataset with a failing bin *)
  rewrite <- negb_true_iff, <- existsb_negb_forallb in E.
  apply existsb_exists in E. destruct E as (d & Hd & Hf). rewrite negb_true_iff in Hf.
  destruct (existsb_nth_false _ Hf) as (i & Hi & Hn).
  apply existsb_exists. exists d. split; [exact Hd|].
  rewrite <- (existsb_negb_forallb (fun b : bool => b)).
  rewrite Forall_forall in S. destruct (S d Hd) as [_ Ld].
  destruct (all_ok_spec r W) as [La Na].
  apply (pick_hit negb true (failing r) (dorac d) i).
  - unfold failing. rewrite map_length. lia.
  - exact Hi.
  - unfold failing. rewrite (nth_indep _ false (negb true)) by (rewrite map_length; lia).
    rewrite map_nth. rewrite Na by lia.
    assert (X : forallb (fun d0 => nth i (dorac d0) true) (d_sets r) = false).
    { apply not_true_is_false. intros T. rewrite forallb_forall in T. specialize (T d Hd). congruence. }
    now rewrite X.
  - now rewrite Hn.
Qed.

Lemma summary_mark b : has_mark (summary b) = negb b.
Proof. cbn. now rewrite orb_false_r. Qed.

Lemma one_table_mark t : has_mark [Table t] = table_mark t.
Proof. cbn. now rewrite orb_false_r. Qed.

Theorem mark_iff_false_equal r v :
  dres_wf r -> has_mark (repr_equal r v) = negb (d_verdict r).
Proof.
  intros W. unfold repr_equal. destruct (d_verdict r) eqn:V.
  - destruct (negb (verb_eqb v FullDetails)); [reflexivity|].
    rewrite one_table_mark, full_table_mark_wf by exact W. now rewrite V.
  - destruct (vval v <? vval Default); [reflexivity|].
    rewrite one_table_mark, full_table_mark_wf by exact W. now rewrite V.
Qed.

Theorem mark_iff_false_approx r v :
  dres_wf r -> v <> Silent -> has_mark (repr_approx r v) = negb (d_verdict r).
Proof.
  intros W NS. unfold repr_approx.
  assert (E : verb_eqb v Silent = false) by (destruct v; try reflexivity; congruence).
  rewrite E. cbn [andb]. destruct (verb_eqb v Summary); [apply summary_mark|].
  now rewrite one_table_mark, full_table_mark_wf.
Qed.

Theorem mark_iff_false_student r v :
  dres_wf r -> v <> Silent -> has_mark (repr_student r v) = negb (d_verdict r).
Proof.
  intros W NS.
  assert (I : has_mark (repr_student_intermediate r) = negb (d_verdict r)).
  { unfold repr_student_intermediate. destruct (d_verdict r) eqn:V; [reflexivity|].
    destruct (d_scalar r).
    - rewrite one_table_mark, full_table_mark_wf by exact W. now rewrite V.
    - rewrite one_table_mark. now apply interm_table_mark. }
  destruct v; cbn [repr_student]; try congruence; try exact I;
    try apply summary_mark; now rewrite one_table_mark, full_table_mark_wf.
Qed.

(* ---------- Bonferroni, Holm-Bonferroni ---------- *)

Lemma corr_table_mark b : bres_wf b -> table_mark (corr_table b) = negb (b_verdict b).
Proof.
  intros (_ & V & _). unfold table_mark, corr_table; cbn.
  rewrite existsb_app, plain_no_mark. cbn. now rewrite mark_negb_col, orb_false_r, V.
Qed.

Theorem mark_iff_false_bonferroni b v :
  bres_wf b -> v <> Silent -> has_mark (repr_bonferroni b v) = negb (b_verdict b).
Proof.
  intros W NS. unfold repr_bonferroni.
  assert (E : verb_eqb v Silent = false) by (destruct v; try reflexivity; congruence).
  rewrite E. cbn [andb]. destruct (verb_eqb v Summary); [apply summary_mark|].
  now rewrite one_table_mark, corr_table_mark.
Qed.

Theorem mark_iff_false_holm b v :
  bres_wf b -> has_mark (repr_holm b v) = negb (b_verdict b).
Proof.
  intros W. destruct v; cbn [repr_holm]; try apply summary_mark;
    try now rewrite one_table_mark, corr_table_mark.
  destruct (b_verdict b); reflexivity.
Qed.

(* ---------- metadata ---------- *)

Lemma meta_table_mark keys samples :
  table_mark (meta_table keys samples)
  = existsb (existsb (fun p : cell * bool => negb (snd p))) samples.
Proof.
  unfold table_mark, meta_table; cbn. rewrite falses_no_mark. cbn.
  rewrite existsb_map. apply existsb_ext. intros s. now rewrite existsb_map.
Qed.

Lemma m_ok_spec m : mres_wf m ->
  length (m_ok m) = length (m_keys m) /\
  forall i, i < length (m_keys m) ->
    nth i (m_ok m) true = forallb (fun s => snd (nth i s (CK 0, true))) (m_samples m).
Proof.
  intros (S & _). unfold m_ok. set (n := length (m_keys m)) in *.
  assert (F : Forall (fun l => length l = n) (map (map snd) (m_samples m))).
  { apply Forall_map. eapply Forall_impl; [|exact S]. intros s H; now rewrite map_length. }
  destruct (fold_andl_spec n _ _ (repeat_length true n) F) as [L N].
  split; [exact L|]. intros i Hi. rewrite N by exact Hi. rewrite nth_repeat_true. cbn.
  rewrite forallb_map'. apply forallb_ext'. intros s.
  change true with (snd (CK 0, true)) at 1. now rewrite map_nth.
Qed.

Lemma meta_bad_some m :
  mres_wf m -> existsb (fun b => b) (m_bad m) = true ->
  m_verdict m = false /\
  table_mark (meta_table (pick (m_bad m) (m_keys m)) (map (pick (m_bad m)) (m_samples m))) = true.
Proof.
  intros W B. pose proof W as (S & V). destruct (m_ok_spec m W) as [L N].
  unfold m_bad in B. rewrite existsb_map in B.
  rewrite (existsb_negb_forallb (fun b : bool => b)) in B. rewrite negb_true_iff in B.
  destruct (existsb_nth_false _ B) as (i & Hi & Hn). rewrite L in Hi.
  rewrite N in Hn by exact Hi.
  rewrite <- negb_true_iff, <- existsb_negb_forallb in Hn.
  apply existsb_exists in Hn. destruct Hn as (s & Hs & Hf). rewrite negb_true_iff in Hf.
  rewrite Forall_forall in S. pose proof (S s Hs) as Ls.
  split.
  - rewrite V. apply not_true_is_false. intros T. rewrite forallb_forall in T.
    specialize (T s Hs). rewrite forallb_forall in T.
    specialize (T (nth i s (CK 0, true))). rewrite Hf in T.
    assert (H : In (nth i s (CK 0, true)) s) by (apply nth_In; lia). specialize (T H). discriminate.
  - rewrite meta_table_mark, existsb_map. apply existsb_exists. exists s. split; [exact Hs|].
    apply (pick_hit (fun p : cell * bool => negb (snd p)) (CK 0, true) (m_bad m) s i).
    + unfold m_bad. rewrite map_length. lia.
    + lia.
    + unfold m_bad. rewrite (nth_indep _ false (negb true)) by (rewrite map_length; lia).
      rewrite map_nth. rewrite N by exact Hi.
      assert (X : forallb (fun s0 => snd (nth i s0 (CK 0, true))) (m_samples m) = false).
      { apply not_true_is_false. intros T. rewrite forallb_forall in T. specialize (T s Hs). congruence. }
      now rewrite X.
    + now rewrite Hf.
Qed.

Theorem mark_iff_false_metadata m v :
  mres_wf m -> v <> Silent -> has_mark (repr_metadata m v) = negb (m_verdict m).
Proof.
  intros W NS.
  assert (F : table_mark (meta_table (m_keys m) (m_samples m)) = negb (m_verdict m)).
  { destruct W as (_ & V). rewrite meta_table_mark, V. rewrite <- existsb_negb_forallb.
    apply existsb_ext. intros s. now rewrite <- existsb_negb_forallb. }
  destruct v; cbn [repr_metadata]; try congruence; try apply summary_mark;
    try (rewrite one_table_mark; exact F).
  - unfold repr_metadata_default. destruct (m_verdict m); reflexivity.
  - unfold repr_metadata_intermediate.
    destruct (existsb (fun b => b) (m_bad m)) eqn:B; cbn [negb]; [|apply summary_mark].
    destruct (meta_bad_some m W B) as [V T]. now rewrite one_table_mark, T, V.
Qed.

(* ---------- statistics of tasks / tests ---------- *)

Lemma bad_rows_flag (l : list (nat * nat)) :
  existsb (fun r : nat * nat * bool => snd r) (map (fun p => (p, true)) (filter nonzero l))
  = existsb nonzero l.
Proof. induction l as [|a r IH]; cbn [filter map existsb]; [reflexivity|]. destruct (nonzero a); cbn [map existsb snd orb]; [reflexivity | exact IH]. Qed.

Lemma stats_table_mark s :
  sres_wf s -> table_mark (stats_table s) = negb (s_verdict s).
Proof.
  intros W. unfold table_mark, stats_table. cbn [mask existsb].
  rewrite orb_false_r, orb_diag.
  set (rows := (if nonzero (s_ok s) then [(s_ok s, false)] else []) ++ _).
  rewrite existsb_app. cbn [existsb]. rewrite orb_false_r.
  rewrite existsb_map.
  assert (E : existsb (fun r : nat * nat * bool => snd r) rows = existsb nonzero (s_others s)).
  { unfold rows. rewrite existsb_app, bad_rows_flag. destruct (nonzero (s_ok s)); reflexivity. }
  change (existsb snd rows) with (existsb (fun r : nat * nat * bool => snd r) rows).
  rewrite E. unfold sres_wf in W.
  destruct (existsb nonzero (s_others s)); cbn.
  - now rewrite W.
  - now rewrite andb_true_r.
Qed.

Theorem mark_iff_false_stats s v :
  sres_wf s -> v <> Silent -> has_mark (repr_stats s v) = negb (s_verdict s).
Proof.
  intros W NS. unfold repr_stats.
  assert (E : verb_eqb v Silent = false) by (destruct v; try reflexivity; congruence).
  rewrite E. cbn [andb has_mark existsb tmark]. rewrite !orb_false_r. now apply stats_table_mark.
Qed.

(* ---------- statistics of tests by labels ---------- *)

Lemma labels_table_mark n rows :
  table_mark (labels_table n rows) = negb (forallb l_orac rows).
Proof.
  unfold table_mark, labels_table; cbn [mask]. rewrite Nat.add_comm. cbn [Nat.add].
  rewrite existsb_repeat_S, existsb_map. apply existsb_negb_forallb.
Qed.

Lemma missing_no_mark l : has_mark (missing_text l) = false.
Proof. unfold missing_text. destruct (l_missing l); reflexivity. Qed.

Lemma filter_negb_nil {X} (f : X -> bool) l :
  filter (fun x => negb (f x)) l = [] -> forallb f l = true.
Proof.
  induction l as [|a r IH]; cbn; [reflexivity|]. destruct (f a); cbn; [exact IH|discriminate].
Qed.

Lemma filter_negb_cons {X} (f : X -> bool) l a r :
  filter (fun x => negb (f x)) l = a :: r ->
  forallb f l = false /\ forallb f (a :: r) = false.
Proof.
  intros H. assert (Ha : In a (filter (fun x => negb (f x)) l)) by (rewrite H; left; reflexivity).
  apply filter_In in Ha. destruct Ha as [Hin Hf]. rewrite negb_true_iff in Hf. split.
  - apply not_true_is_false. intros T. rewrite forallb_forall in T. specialize (T a Hin). congruence.
  - cbn. now rewrite Hf.
Qed.

Theorem mark_iff_false_bylabels l v :
  lres_wf l -> v <> Silent -> has_mark (repr_bylabels l v) = negb (l_verdict l).
Proof.
  intros W NS. unfold lres_wf in W. unfold repr_bylabels.
  assert (E : verb_eqb v Silent = false) by (destruct v; try reflexivity; congruence).
  rewrite E. cbn [andb]. destruct (verb_eqb v Summary).
  - unfold has_mark. rewrite existsb_app. fold (has_mark (missing_text l)).
    rewrite missing_no_mark, orb_false_r.
    destruct (filter (fun r => negb (l_orac r)) (l_rows l)) as [|a r] eqn:F.
    + apply filter_negb_nil in F. rewrite W, F. reflexivity.
    + apply filter_negb_cons in F. destruct F as [F1 F2]. rewrite W, F1.
      cbn [existsb tmark]. rewrite labels_table_mark, F2. reflexivity.
  - cbn [has_mark existsb tmark]. fold (has_mark (missing_text l)).
    rewrite missing_no_mark, orb_false_r, labels_table_mark. now rewrite W.
Qed.

(* ---------- all kinds, Table representer ---------- *)

Theorem mark_iff_false r v :
  result_wf r -> v <> Silent -> has_mark (render_table r v) = negb (verdict r).
Proof.
  intros W NS. destruct r; cbn [render_table verdict result_wf] in *.
  - now apply mark_iff_false_equal.
  - now apply mark_iff_false_approx.
  - now apply mark_iff_false_student.
  - now apply mark_iff_false_bonferroni.
  - now apply mark_iff_false_holm.
  - now apply mark_iff_false_metadata.
  - now apply mark_iff_false_stats.
  - now apply mark_iff_false_stats.
  - now apply mark_iff_false_bylabels.
  - reflexivity.
Qed.

(* ---------- FullTable / Full representers ---------- *)

(* every kind but the two corrections is rendered as by the Table representer *)
Theorem render_full_other rep r v :
  (forall b, r <> RBonf b) -> (forall b, r <> RHolm b) -> render rep r v = render_table r v.
Proof.
  intros H1 H2. destruct rep; [reflexivity| |];
    destruct r; try reflexivity; try (exfalso; eapply H1; reflexivity);
    exfalso; eapply H2; reflexivity.
Qed.

Definition correction (r : result) : option bres :=
  match r with RBonf b | RHolm b => Some b | _ => None end.

(* a correction is rendered as itself followed by its first test, one level
   less verbose when the correction passes: the marks are those of the two *)
Theorem mark_full_correction rep r b v :
  rep <> RepTable -> correction r = Some b -> result_wf r -> v <> Silent ->
  has_mark (render rep r v)
  = negb (b_verdict b)
    || has_mark (render_table (RStudent (b_first b)) (first_verb (b_verdict b) v)).
Proof.
  intros NR C W NS.
  assert (E : verb_eqb v Silent = false) by (destruct v; try reflexivity; congruence).
  destruct r; cbn in C; try discriminate; inversion C; subst b0;
    (destruct rep; [congruence| |]); cbn [render]; rewrite E;
    unfold has_mark; rewrite existsb_app; fold (has_mark (render_table (RBonf b) v));
    fold (has_mark (render_table (RHolm b) v)); f_equal.
  all: try (apply (mark_iff_false (RBonf b)); assumption).
  all: try (apply (mark_iff_false (RHolm b)); assumption).
Qed.

(* hence: a false correction is always marked; a true one is marked exactly when
   its first test, rendered one level lower, is marked *)
Corollary mark_full_correction_false rep r b v :
  rep <> RepTable -> correction r = Some b -> result_wf r -> v <> Silent ->
  b_verdict b = false -> has_mark (render rep r v) = true.
Proof. intros. erewrite mark_full_correction by eassumption. now rewrite H3. Qed.

(* C12 proofs, part 1: a mark is shown iff the result is false *)
From Coq Require Import List ZArith Bool Arith Lia.
From VV Require Import Lib.Base C12.Model.
Import ListNotations.

Lemma mark_failed v : has_mark (render_table RFailed v) = negb (verdict RFailed).
Proof. reflexivity. Qed.

(* the hypotheses of the C19 theorems are met by concrete non-trivial data, and
   the unchanged tree's behaviour for the empty name violates the statement *)
From Coq Require Import String Ascii List ZArith Bool.
From VV Require Import Lib.Base C19.Model C19.Proofs.
Import ListNotations.
Local Open Scope string_scope.

Definition sh (o e : string) (k : Z) : ccmd :=
  mk_ccmd ["sh"; "-c"; "printf " ++ o ++ "; printf " ++ e ++ " >&2; exit " ++ (if Z.eqb k 0 then "0" else "k")]
          (Exited k o e).
Definition missing : ccmd := mk_ccmd ["/nonexistent/x"; "y z"] CannotStart.

Definition t1 : ctask := mk_task "t1" [sh "a" "b" 0; sh "c" "d" 3; sh "e" "f" 0].
Definition t2 : ctask := mk_task "t2" [sh "a" "b" 0; missing; sh "e" "f" 0].
Definition t3 : ctask := mk_task "a/b" [sh "a" "b" 0].
Definition t4 : ctask := mk_task "t4" [sh "x" "y" 0; sh "z" "" 0].

Example names_distinct : NoDup (map t_name [t1; t2; t3; t4]).
Proof. repeat constructor; cbn; intuition discriminate. Qed.

Example good_t1 : good_name "t1".
Proof. repeat split; discriminate. Qed.

(* second command fails: third not run, FAILED, codes [0; 3] *)
Example run_t1 :
  exists k, run cexec cecho (t_clis t1) tt (mk_cap [] []) = (Finished [0; 3]%Z FAILED, tt, k)
            /\ c_out k = ["a"; "c"].
Proof. eexists. split; vm_compute; reflexivity. Qed.

(* missing executable: the exception leaves run() *)
Example run_t2 : exists k, run cexec cecho (t_clis t2) tt (mk_cap [] []) = (Aborted, tt, k).
Proof. eexists. vm_compute. reflexivity. Qed.

Example worker_all :
  let s := model_run [t1; t2; t3; t4] in
  map (fun t => option_map e_status (env_get (w_env s) (t_name t))) [t1; t2; t3; t4]
  = [Some FAILED; Some FAILED; Some FAILED; Some DONE]
  /\ fs_get (w_fs s) ["R"; "t4"; "stdout"] = Some ["x"; "z"]
  /\ fs_get (w_fs s) ["R"; "t2"; "stdout"] = Some ["a"]
  /\ fs_get (w_fs s) ["R"; "a/b"; "stdout"] = None.
Proof. vm_compute. repeat split. Qed.

Example echo_example :
  echo_line ["echo"; "it's"; ""; "a b"] = "$ echo 'it'""'""'s' '' 'a b'" ++ newline.
Proof. vm_compute. reflexivity. Qed.

(* the unchanged tree: '' accepted, the capture files land in the root itself *)
Example empty_name_old_behaviour :
  let '(r, _, fs) := do_task cexec cecho sanitize_old croot "" [sh "a" "b" 0] tt [] in
  (exists u, r = Ok (u, DONE) /\ u_dir u = croot) /\ fs_get fs ["R"; "stdout"] = Some ["a"].
Proof. vm_compute. split; [eexists; split; reflexivity | reflexivity]. Qed.

Example empty_name_now_rejected :
  do_task cexec cecho sanitize croot "" [sh "a" "b" 0] tt [] = (Raise 1, tt, []).
Proof. reflexivity. Qed.

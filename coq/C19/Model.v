(* C19: external commands.
   Model of valjean/path.py (sanitize_filename), of the part of pathlib that
   valjean/cosette/run.py uses (Path(root, name), path / 'stdout'), of
   run.run (sequential calls, stop at the first non-zero code, echo line on
   stderr before every call), of RunTask.run_task.runner (output directory,
   capture files, environment update) and of the worker's treatment of a
   task result (exception -> FAILED, the loop goes on).

   Strings are byte strings (utf-8 of the Python str): '/' and NUL are single
   bytes that occur in no multi-byte sequence, so the byte-level tests agree
   with the character-level tests of the code. *)
From Coq Require Import String Ascii List ZArith Bool Arith Lia.
From VV Require Import Lib.Base.
Import ListNotations.
Local Open Scope string_scope.

(* ------------------------------------------------------------------ *)
(* strings *)

Fixpoint str_mem (c : ascii) (s : string) : bool :=
  match s with
  | EmptyString => false
  | String a r => Ascii.eqb a c || str_mem c r
  end.

(* s.split(c): never empty; "" -> [""] *)
Fixpoint split_on (c : ascii) (s : string) : list string :=
  match s with
  | EmptyString => [EmptyString]
  | String a r =>
      if Ascii.eqb a c then EmptyString :: split_on c r
      else match split_on c r with
           | h :: t => String a h :: t
           | [] => [String a EmptyString]      (* unreachable *)
           end
  end.

Fixpoint str_concat (l : list string) : string :=
  match l with
  | [] => EmptyString
  | s :: r => s ++ str_concat r
  end.

Fixpoint str_join (sep : string) (l : list string) : string :=
  match l with
  | [] => EmptyString
  | [s] => s
  | s :: r => s ++ sep ++ str_join sep r
  end.

Definition nul : ascii := Ascii.zero.
Definition slash : ascii := "/"%char.

(* ------------------------------------------------------------------ *)
(* valjean/path.py: sanitize_filename.  Raise 1 = ValueError *)

Definition sanitize (name : string) : res string :=
  if str_mem nul name then Raise 1
  else if str_mem slash name then Raise 1
  else if String.eqb name "" || String.eqb name "." || String.eqb name ".." then Raise 1
  else Ok name.

(* the unchanged tree accepted the empty name *)
Definition sanitize_old (name : string) : res string :=
  if str_mem nul name then Raise 1
  else if str_mem slash name then Raise 1
  else if String.eqb name "." || String.eqb name ".." then Raise 1
  else Ok name.

(* ------------------------------------------------------------------ *)
(* pathlib.PurePosixPath on component lists.  A path is the list of its
   components below "/" (all paths of the model are absolute); a relative
   string is parsed by splitting at '/', dropping empty and '.' components
   ('..' is kept: pathlib does not resolve it). *)

Definition path := list string.

Definition keep_component (c : string) : bool :=
  negb (String.eqb c "" || String.eqb c ".").

Definition parse_rel (s : string) : list string :=
  filter keep_component (split_on slash s).

Definition starts_with_slash (s : string) : bool :=
  match s with String a _ => Ascii.eqb a slash | EmptyString => false end.

(* Path(root, s)  (= root / s) *)
Definition path_join (root : path) (s : string) : path :=
  if starts_with_slash s then parse_rel s else (root ++ parse_rel s)%list.

Definition path_eqb (p q : path) : bool := list_eqb String.eqb p q.

Fixpoint is_prefix (p q : path) : bool :=
  match p, q with
  | [], _ => true
  | a :: p', b :: q' => String.eqb a b && is_prefix p' q'
  | _ :: _, [] => false
  end.

(* q is strictly below p *)
Definition strict_child (p q : path) : bool := is_prefix p q && negb (path_eqb p q).

(* ------------------------------------------------------------------ *)
(* shlex.quote and the echo line  '$ ' + ' '.join(quote(t) for t in cli) + '\n' *)

Definition safe_char (c : ascii) : bool :=
  let n := nat_of_ascii c in
  ((48 <=? n)%nat && (n <=? 57)%nat) || ((65 <=? n)%nat && (n <=? 90)%nat)
  || ((97 <=? n)%nat && (n <=? 122)%nat)
  || existsb (Nat.eqb n) [95; 64; 37; 43; 61; 58; 44; 46; 47; 45]%nat.

Fixpoint all_safe (s : string) : bool :=
  match s with
  | EmptyString => true
  | String a r => safe_char a && all_safe r
  end.

Definition squote : ascii := "'"%char.

Fixpoint escape_squotes (s : string) : string :=
  match s with
  | EmptyString => EmptyString
  | String a r =>
      if Ascii.eqb a squote then "'""'""'" ++ escape_squotes r
      else String a (escape_squotes r)
  end.

Definition shlex_quote (s : string) : string :=
  match s with
  | EmptyString => "''"
  | _ => if all_safe s then s else "'" ++ escape_squotes s ++ "'"
  end.

Definition newline : string := String (ascii_of_nat 10) EmptyString.

Definition echo_line (cli : list string) : string :=
  "$ " ++ str_join " " (map shlex_quote cli) ++ newline.

Local Close Scope string_scope.

(* ------------------------------------------------------------------ *)
(* capture files as lists of chunks, the file system as an association list *)

Definition fsys := list (path * list string).

Fixpoint fs_get (fs : fsys) (p : path) : option (list string) :=
  match fs with
  | [] => None
  | (q, c) :: r => if path_eqb q p then Some c else fs_get r p
  end.

Fixpoint fs_put (fs : fsys) (p : path) (c : list string) : fsys :=
  match fs with
  | [] => [(p, c)]
  | (q, d) :: r => if path_eqb q p then (q, c) :: r else (q, d) :: fs_put r p c
  end.

Inductive status := DONE | FAILED.

Definition status_eqb (a b : status) : bool :=
  match a, b with DONE, DONE | FAILED, FAILED => true | _, _ => false end.

(* what subprocess.call does with one command line *)
Inductive outcome :=
| Exited (code : Z) (out err : string)     (* ran; wrote out/err; returned code *)
| CannotStart.                             (* call() raised (OSError, ...) *)

Record cap := mk_cap { c_out : list string; c_err : list string }.

Inductive run_res :=
| Finished (codes : list Z) (st : status)  (* run() returned (results, status, _) *)
| Aborted.                                 (* an exception left run() *)

Section Run.
Variables cmd world : Type.
Variable exec : cmd -> world -> outcome * world.   (* subprocess.call, the outside world *)
Variable echo : cmd -> string.                     (* the line printed on stderr before the call *)

(* run.run: the loop over clis.  [k] = what the capture files hold so far. *)
Fixpoint run (clis : list cmd) (w : world) (k : cap) : run_res * world * cap :=
  match clis with
  | [] => (Finished [] DONE, w, k)
  | c :: rest =>
      let k1 := mk_cap (c_out k) (c_err k ++ [echo c]) in
      match exec c w with
      | (CannotStart, w1) => (Aborted, w1, k1)
      | (Exited code o e, w1) =>
          let k2 := mk_cap (c_out k1 ++ [o]) (c_err k1 ++ [e]) in
          if Z.eqb code 0 then
            match run rest w1 k2 with
            | (Finished codes st, w2, k3) => (Finished (code :: codes) st, w2, k3)
            | (Aborted, w2, k3) => (Aborted, w2, k3)
            end
          else (Finished [code] FAILED, w1, k2)
      end
  end.

(* the part of the environment update the property talks about *)
Record update := mk_update { u_codes : list Z; u_dir : path; u_stdout : path; u_stderr : path }.

(* RunTask.run_task.runner / PythonTask.do.   Raise 1: ValueError of
   sanitize_filename, nothing touched; Raise 2: an exception left run(), the
   capture files hold what was written until then. *)
Definition do_task (sanit : string -> res string) (root : path) (name : string)
           (clis : list cmd) (w : world) (fs : fsys)
  : res (update * status) * world * fsys :=
  match sanit name with
  | Raise c => (Raise c, w, fs)
  | Ok n =>
      let dir := path_join root n in
      let pout := dir ++ ["stdout"%string] in
      let perr := dir ++ ["stderr"%string] in
      match run clis w (mk_cap [] []) with
      | (r, w1, k) =>
          let fs1 := fs_put (fs_put fs pout (c_out k)) perr (c_err k) in
          match r with
          | Finished codes st => (Ok (mk_update codes dir pout perr, st), w1, fs1)
          | Aborted => (Raise 2, w1, fs1)
          end
      end
  end.

(* ---- the worker (QueueScheduling.WorkerThread.run) on independent tasks ---- *)
Record task := mk_task { t_name : string; t_clis : list cmd }.

(* entry of the environment for one task *)
Record entry := mk_entry { e_status : status; e_update : option update }.

Definition env := list (string * entry).

Fixpoint env_get (e : env) (n : string) : option entry :=
  match e with
  | [] => None
  | (m, x) :: r => if String.eqb m n then Some x else env_get r n
  end.

Fixpoint env_set (e : env) (n : string) (x : entry) : env :=
  match e with
  | [] => [(n, x)]
  | (m, y) :: r => if String.eqb m n then (m, x) :: r else (m, y) :: env_set r n x
  end.

Record wstate := mk_w { w_world : world; w_fs : fsys; w_env : env }.

(* one iteration of the worker loop: an exception of do() is caught and the
   task is marked FAILED; otherwise status and update are stored *)
Definition worker_step (sanit : string -> res string) (root : path) (s : wstate) (t : task) : wstate :=
  match do_task sanit root (t_name t) (t_clis t) (w_world s) (w_fs s) with
  | (Raise _, w1, fs1) => mk_w w1 fs1 (env_set (w_env s) (t_name t) (mk_entry FAILED None))
  | (Ok (u, st), w1, fs1) => mk_w w1 fs1 (env_set (w_env s) (t_name t) (mk_entry st (Some u)))
  end.

Definition worker (sanit : string -> res string) (root : path) (ts : list task) (s : wstate) : wstate :=
  fold_left (worker_step sanit root) ts s.

(* the same loop, also returning the entry every task has right after its turn
   (what a caller of do() sees); used by the cases files *)
Fixpoint worker_trace (sanit : string -> res string) (root : path) (ts : list task) (s : wstate)
  : list (option entry) * wstate :=
  match ts with
  | [] => ([], s)
  | t :: r =>
      let s1 := worker_step sanit root s t in
      let er := worker_trace sanit root r s1 in
      (env_get (w_env s1) (t_name t) :: fst er, snd er)
  end.

End Run.

Arguments run {cmd world}.
Arguments do_task {cmd world}.
Arguments worker_step {cmd world}.
Arguments worker {cmd world}.
Arguments worker_trace {cmd world}.
Arguments mk_task {cmd}.
Arguments t_name {cmd}.
Arguments t_clis {cmd}.
Arguments mk_w {world}.
Arguments w_world {world}.
Arguments w_fs {world}.
Arguments w_env {world}.

(* ------------------------------------------------------------------ *)
(* what a cases file evaluates.  A command of a case carries the outcome the
   harness arranged for it (sh -c 'printf ..; printf .. >&2; exit k', or an
   executable that does not exist); the world is trivial. *)

Record ccmd := mk_ccmd { cc_cli : list string; cc_outcome : outcome }.

Definition cexec (c : ccmd) (w : unit) : outcome * unit := (cc_outcome c, w).
Definition cecho (c : ccmd) : string := echo_line (cc_cli c).

Definition croot : path := ["R"%string].

(* observation of the implementation for one task:
   status as seen in the environment / from do() (an exception counts as
   FAILED), return codes if an update was produced, directory (components,
   root replaced by "R"), and every file below the root with its content *)
Record obs := mk_obs {
  o_status : status;
  o_codes : option (list Z);
  o_dir : option path;
}.

Definition files := list (path * string).

Fixpoint files_get (fs : files) (p : path) : option string :=
  match fs with
  | [] => None
  | (q, c) :: r => if path_eqb q p then Some c else files_get r p
  end.

Definition flatten_fs (fs : fsys) : files := map (fun pc => (fst pc, str_concat (snd pc))) fs.

Definition files_eqb (a b : files) : bool :=
  Nat.eqb (length a) (length b)
  && forallb (fun pc => option_eqb String.eqb (files_get b (fst pc)) (Some (snd pc))) a.

(* return codes and directory are compared when the implementation produced an
   update; a raising implementation is a FAILED task without update *)
Definition entry_matches (m : option entry) (o : obs) : bool :=
  match m with
  | None => false
  | Some x =>
      status_eqb (e_status x) (o_status o)
      && match e_update x, o_codes o with
         | Some u, Some codes => list_eqb Z.eqb (u_codes u) codes
         | None, None => true
         | Some u, None => false
         | None, Some _ => match o_status o with FAILED => true | DONE => false end
         end
      && match e_update x, o_dir o with
         | Some u, Some d => path_eqb (u_dir u) d
         | _, _ => true
         end
  end.

(* a case: the tasks handed to one worker in this order, the observation per
   task and the files found below the root afterwards *)
Definition ctask := task ccmd.

Definition model_run (ts : list ctask) : wstate unit :=
  worker cexec cecho sanitize croot ts (mk_w tt [] []).

Definition model_trace (ts : list ctask) : list (option entry) * wstate unit :=
  worker_trace cexec cecho sanitize croot ts (mk_w tt [] []).

Definition check_case (c : list ctask * list obs * files) : bool :=
  let '(ts, os, fl) := c in
  let es := model_trace ts in
  Nat.eqb (length ts) (length os)
  && forallb (fun eo => entry_matches (fst eo) (snd eo)) (combine (fst es) os)
  && files_eqb (flatten_fs (w_fs (snd es))) fl.

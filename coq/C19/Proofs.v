(* C19: proofs over the model of run.run / RunTask / sanitize_filename *)
From Coq Require Import String Ascii List ZArith Bool Arith Lia.
From VV Require Import Lib.Base C19.Model.
Import ListNotations.

(* ------------------------------------------------------------------ *)
(* strings and paths *)

Lemma path_eqb_eq p q : path_eqb p q = true <-> p = q.
Proof. apply list_eqb_spec. intros a b. apply String.eqb_eq. Qed.

Lemma path_eqb_refl p : path_eqb p p = true.
Proof. apply path_eqb_eq. reflexivity. Qed.

Lemma path_eqb_neq p q : p <> q -> path_eqb p q = false.
Proof. intros H. destruct (path_eqb p q) eqn:E; [|reflexivity]. apply path_eqb_eq in E. contradiction. Qed.

Lemma split_on_no_sep c s : str_mem c s = false -> split_on c s = [s].
Proof.
  induction s as [|a r IH]; cbn; [reflexivity|].
  intros H. apply orb_false_iff in H as [Ha Hr]. rewrite Ha, (IH Hr). reflexivity.
Qed.

Lemma is_prefix_app p q : is_prefix p (p ++ q) = true.
Proof. induction p as [|a p IH]; cbn; [reflexivity|]. now rewrite String.eqb_refl, IH. Qed.

(* what sanitize_filename accepts *)
Definition good_name (n : string) : Prop :=
  str_mem nul n = false /\ str_mem slash n = false /\
  n <> ""%string /\ n <> "."%string /\ n <> ".."%string.

Lemma sanitize_ok name n : sanitize name = Ok n <-> (n = name /\ good_name name).
Proof.
  unfold sanitize, good_name.
  destruct (str_mem nul name) eqn:E0; [split; [discriminate | intros (_ & H & _); discriminate]|].
  destruct (str_mem slash name) eqn:E1; [split; [discriminate | intros (_ & _ & H & _); discriminate]|].
  destruct (String.eqb name "") eqn:E2.
  { apply String.eqb_eq in E2. cbn. split; [discriminate | intros (_ & _ & _ & H & _); contradiction]. }
  destruct (String.eqb name ".") eqn:E3.
  { apply String.eqb_eq in E3. cbn. split; [discriminate | intros (_ & _ & _ & _ & H & _); contradiction]. }
  destruct (String.eqb name "..") eqn:E4.
  { apply String.eqb_eq in E4. cbn. split; [discriminate | intros (_ & _ & _ & _ & _ & H); contradiction]. }
  cbn. apply String.eqb_neq in E2, E3, E4.
  split; [intros H; inversion H; subst; repeat split; auto | intros [-> _]; reflexivity].
Qed.

Lemma sanitize_raise name c : sanitize name = Raise c -> ~ good_name name.
Proof.
  intros H G. destruct (sanitize name) eqn:E; [discriminate|].
  assert (sanitize name = Ok name) by (apply sanitize_ok; auto). congruence.
Qed.

Lemma good_name_parse n : good_name n -> parse_rel n = [n].
Proof.
  intros (_ & Hs & He & Hd & _). unfold parse_rel. rewrite split_on_no_sep by exact Hs.
  cbn. unfold keep_component.
  apply String.eqb_neq in He, Hd. rewrite He, Hd. reflexivity.
Qed.

Lemma good_name_join root n : good_name n -> path_join root n = root ++ [n].
Proof.
  intros G. unfold path_join. rewrite good_name_parse by exact G.
  destruct n as [|a r]; [reflexivity|]. cbn.
  destruct G as (_ & Hs & _). cbn in Hs. apply orb_false_iff in Hs as [Ha _]. now rewrite Ha.
Qed.

(* the output directory of an accepted name: a single non-empty component
   below the root, different for different names *)
Lemma dir_strict_child root n : good_name n -> strict_child root (path_join root n) = true.
Proof.
  intros G. rewrite good_name_join by exact G. unfold strict_child.
  rewrite is_prefix_app. cbn. rewrite path_eqb_neq; [reflexivity|].
  intros H. apply (f_equal (@length _)) in H. rewrite app_length in H. cbn in H. lia.
Qed.

Lemma dir_injective root a b :
  good_name a -> good_name b -> path_join root a = path_join root b -> a = b.
Proof.
  intros Ga Gb. rewrite !good_name_join by assumption. intros H.
  apply app_inv_head in H. now inversion H.
Qed.

(* files of the model below one directory *)
Lemma child_neq (dir : path) a b (x y : string) : a <> b -> dir ++ [a] ++ [x] <> dir ++ [b] ++ [y].
Proof. intros Hab H. apply app_inv_head in H. inversion H. contradiction. Qed.

Lemma file_not_dir (dir : path) (a b x : string) : dir ++ [a] ++ [x] <> dir ++ [b].
Proof. intros H. apply app_inv_head in H. inversion H. Qed.

(* ------------------------------------------------------------------ *)
(* the file map *)

Lemma fs_get_put_same fs p c : fs_get (fs_put fs p c) p = Some c.
Proof.
  induction fs as [|[q d] r IH]; cbn; [now rewrite path_eqb_refl|].
  destruct (path_eqb q p) eqn:E; cbn; rewrite E; [reflexivity | exact IH].
Qed.

Lemma fs_get_put_other fs p c q : p <> q -> fs_get (fs_put fs p c) q = fs_get fs q.
Proof.
  intros Hpq. induction fs as [|[x d] r IH]; cbn.
  - now rewrite path_eqb_neq.
  - destruct (path_eqb x p) eqn:E; cbn.
    + apply path_eqb_eq in E. subst x. now rewrite path_eqb_neq.
    + rewrite IH. reflexivity.
Qed.

Lemma env_get_set_same (e : env) n x : env_get (env_set e n x) n = Some x.
Proof.
  induction e as [|[m y] r IH]; cbn; [now rewrite String.eqb_refl|].
  destruct (String.eqb m n) eqn:E; cbn; rewrite E; [reflexivity | exact IH].
Qed.

Lemma env_get_set_other (e : env) n x m : n <> m -> env_get (env_set e n x) m = env_get e m.
Proof.
  intros Hnm. induction e as [|[k y] r IH]; cbn.
  - apply String.eqb_neq in Hnm. now rewrite Hnm.
  - destruct (String.eqb k n) eqn:E; cbn.
    + apply String.eqb_eq in E. subst k. apply String.eqb_neq in Hnm. now rewrite Hnm.
    + rewrite IH. reflexivity.
Qed.

(* ------------------------------------------------------------------ *)
(* run *)

Section RunProofs.
Variables cmd world : Type.
Variable exec : cmd -> world -> outcome * world.
Variable echo : cmd -> string.

Notation run := (run exec echo).

(* specification vocabulary, independent of [run]: executing a list of
   commands unconditionally, one after the other *)
Fixpoint exec_seq (cs : list cmd) (w : world) : list outcome * world :=
  match cs with
  | [] => ([], w)
  | c :: r => let ow := exec c w in
              let rw := exec_seq r (snd ow) in
              (fst ow :: fst rw, snd rw)
  end.

Definition ok0 (o : outcome) : bool :=
  match o with Exited c _ _ => Z.eqb c 0 | CannotStart => false end.

Definition started (o : outcome) : bool :=
  match o with Exited _ _ _ => true | CannotStart => false end.

(* number of commands that get executed: all up to and including the first
   one that does not exit with status zero *)
Fixpoint through_first_failure (os : list outcome) : nat :=
  match os with
  | [] => 0
  | o :: r => if ok0 o then S (through_first_failure r) else 1
  end.

Definition n_ran (clis : list cmd) (w : world) : nat :=
  through_first_failure (fst (exec_seq clis w)).
Definition ran (clis : list cmd) (w : world) : list cmd := firstn (n_ran clis w) clis.
Definition ran_outcomes (clis : list cmd) (w : world) : list outcome := fst (exec_seq (ran clis w) w).
Definition world_after (clis : list cmd) (w : world) : world := snd (exec_seq (ran clis w) w).

Definition codes_of (os : list outcome) : list Z :=
  flat_map (fun o => match o with Exited c _ _ => [c] | CannotStart => [] end) os.
Definition out_chunks (os : list outcome) : list string :=
  flat_map (fun o => match o with Exited _ o _ => [o] | CannotStart => [] end) os.
Definition err_chunks (cs : list cmd) (os : list outcome) : list string :=
  flat_map (fun co => echo (fst co) :: match snd co with Exited _ _ e => [e] | CannotStart => [] end)
           (combine cs os).

Definition result_of (os : list outcome) : run_res :=
  if forallb started os
  then Finished (codes_of os) (if forallb ok0 os then DONE else FAILED)
  else Aborted.

(* [run] computes exactly this *)
Theorem run_eq clis : forall w k,
  run clis w k
  = (result_of (ran_outcomes clis w), world_after clis w,
     mk_cap (c_out k ++ out_chunks (ran_outcomes clis w))
            (c_err k ++ err_chunks (ran clis w) (ran_outcomes clis w))).
Proof.
  induction clis as [|c rest IH]; intros w k.
  - cbn. rewrite !app_nil_r. destruct k; reflexivity.
  - unfold ran_outcomes, world_after, ran, n_ran. cbn [run exec_seq fst snd].
    destruct (exec c w) as [o w1] eqn:E. cbn [fst snd through_first_failure].
    destruct o as [code o e|].
    + cbn [ok0]. destruct (Z.eqb code 0) eqn:Ec.
      * cbn [firstn exec_seq]. rewrite E. cbn [fst snd].
        rewrite IH. unfold ran_outcomes, world_after, ran, n_ran.
        set (os := fst (exec_seq (firstn _ rest) w1)).
        unfold result_of. cbn [forallb started ok0 andb c_out c_err codes_of flat_map app].
        rewrite Ec. cbn [andb].
        unfold out_chunks, err_chunks. cbn [combine flat_map fst snd app].
        rewrite <- !app_assoc. cbn [app].
        destruct (forallb started os); reflexivity.
      * cbn [firstn exec_seq]. rewrite E. cbn [fst snd].
        unfold result_of. cbn. rewrite Ec. cbn. rewrite <- !app_assoc. reflexivity.
    + cbn [ok0 firstn exec_seq]. rewrite E. cbn. rewrite app_nil_r. reflexivity.
Qed.

(* the commands that ran are a prefix of the list; their outcomes are the
   corresponding prefix of the outcomes *)
Lemma exec_seq_firstn n : forall clis w,
  fst (exec_seq (firstn n clis) w) = firstn n (fst (exec_seq clis w)).
Proof.
  induction n as [|n IH]; intros [|c r] w; cbn; try reflexivity. now rewrite IH.
Qed.

Lemma exec_seq_length clis : forall w, length (fst (exec_seq clis w)) = length clis.
Proof. induction clis as [|c r IH]; intros w; cbn; [reflexivity|]. now rewrite IH. Qed.

Lemma ran_outcomes_prefix clis w :
  ran_outcomes clis w = firstn (n_ran clis w) (fst (exec_seq clis w)).
Proof. apply exec_seq_firstn. Qed.

Lemma tff_le os : through_first_failure os <= length os.
Proof. induction os as [|o r IH]; cbn; [lia|]. destruct (ok0 o); lia. Qed.

Lemma n_ran_le clis w : n_ran clis w <= length clis.
Proof. unfold n_ran. rewrite <- (exec_seq_length clis w). apply tff_le. Qed.

Lemma ran_is_prefix clis w : exists rest, clis = ran clis w ++ rest.
Proof. exists (skipn (n_ran clis w) clis). unfold ran. now rewrite firstn_skipn. Qed.

(* shape of the executed prefix: "exit 0" outcomes, followed either by nothing
   (then everything was executed) or by exactly one outcome that is not "exit 0" *)
Lemma tff_split os :
  exists pre tl, firstn (through_first_failure os) os = pre ++ tl /\
    forallb ok0 pre = true /\
    ((tl = [] /\ through_first_failure os = length os) \/ (exists o, tl = [o] /\ ok0 o = false)).
Proof.
  induction os as [|o r IH]; cbn.
  - exists [], []. cbn. auto.
  - destruct (ok0 o) eqn:Eo.
    + destruct IH as (pre & tl & H1 & H2 & H3). exists (o :: pre), tl. cbn. rewrite H1, Eo, H2.
      repeat split. destruct H3 as [[-> Hn]|H3]; [left; auto | right; exact H3].
    + exists [], [o]. cbn. repeat split. right. exists o. auto.
Qed.

Lemma forallb_app {X} (f : X -> bool) a b : forallb f (a ++ b) = forallb f a && forallb f b.
Proof. induction a as [|x a IH]; cbn; [reflexivity|]. now rewrite IH, andb_assoc. Qed.

Lemma codes_of_started os :
  forallb started os = true -> map Some (codes_of os)
  = map (fun o => match o with Exited c _ _ => Some c | CannotStart => None end) os.
Proof.
  unfold codes_of.
  induction os as [|o r IH]; cbn; [reflexivity|]. destruct o; cbn; [|discriminate].
  intros H. now rewrite IH.
Qed.

Lemma codes_of_length os : forallb started os = true -> length (codes_of os) = length os.
Proof.
  unfold codes_of.
  induction os as [|o r IH]; cbn; [reflexivity|]. destruct o; cbn; [|discriminate].
  intros H. now rewrite IH.
Qed.

Lemma ok0_codes os :
  forallb started os = true -> (forallb ok0 os = true <-> Forall (fun c => c = 0%Z) (codes_of os)).
Proof.
  unfold codes_of.
  induction os as [|o r IH]; cbn; [intros _; split; auto|].
  destruct o as [c o e|]; cbn; [|discriminate]. intros H. specialize (IH H).
  rewrite andb_true_iff, Z.eqb_eq. split.
  - intros [Hc Hr]. constructor; [exact Hc | now apply IH].
  - intros HF. inversion HF; subst. split; [reflexivity | now apply IH].
Qed.

Lemma ran_outcomes_length clis w : length (ran_outcomes clis w) = n_ran clis w.
Proof.
  unfold ran_outcomes. rewrite exec_seq_length. unfold ran.
  rewrite firstn_length. pose proof (n_ran_le clis w). lia.
Qed.

(* ---- C19, first sentence ---- *)

Lemma codes_of_app a b : codes_of (a ++ b) = codes_of a ++ codes_of b.
Proof. unfold codes_of. apply flat_map_app. Qed.

Lemma ran_all clis w : n_ran clis w = length clis -> ran clis w = clis.
Proof. unfold ran. intros ->. apply firstn_all. Qed.

(* everything [run] returns when it returns normally, in one statement *)
Lemma run_finished clis w k codes st w' k' :
  run clis w k = (Finished codes st, w', k') ->
  forallb started (ran_outcomes clis w) = true /\
  codes = codes_of (ran_outcomes clis w) /\
  st = (if forallb ok0 (ran_outcomes clis w) then DONE else FAILED) /\
  w' = world_after clis w /\
  k' = mk_cap (c_out k ++ out_chunks (ran_outcomes clis w))
              (c_err k ++ err_chunks (ran clis w) (ran_outcomes clis w)).
Proof.
  rewrite run_eq. unfold result_of.
  destruct (forallb started (ran_outcomes clis w)) eqn:Es; [|discriminate].
  intros H. inversion H; subst. auto.
Qed.

Lemma run_aborted clis w k w' k' :
  run clis w k = (Aborted, w', k') ->
  forallb started (ran_outcomes clis w) = false /\
  w' = world_after clis w /\
  k' = mk_cap (c_out k ++ out_chunks (ran_outcomes clis w))
              (c_err k ++ err_chunks (ran clis w) (ran_outcomes clis w)).
Proof.
  rewrite run_eq. unfold result_of.
  destruct (forallb started (ran_outcomes clis w)) eqn:Es; [discriminate|].
  intros H. inversion H; subst. auto.
Qed.

(* ---- C19: return codes are those of the commands actually run, which are
   the prefix of the command list that ends with the first command whose
   status is not zero (the whole list when there is none) ---- *)
Theorem executed_is_prefix_through_first_failure clis w k codes st w' k' :
  run clis w k = (Finished codes st, w', k') ->
  (exists rest, clis = ran clis w ++ rest) /\
  w' = snd (exec_seq (ran clis w) w) /\
  map Some codes = map (fun o => match o with Exited c _ _ => Some c | CannotStart => None end)
                       (fst (exec_seq (ran clis w) w)) /\
  exists zeros tl, codes = zeros ++ tl /\ Forall (fun c => c = 0%Z) zeros /\
    ((tl = [] /\ ran clis w = clis /\ st = DONE)
     \/ (exists c, tl = [c] /\ c <> 0%Z /\ st = FAILED)).
Proof.
  intros H. apply run_finished in H as (Es & -> & -> & -> & _).
  split; [apply ran_is_prefix|]. split; [reflexivity|].
  split; [apply codes_of_started, Es|].
  pose proof (tff_split (fst (exec_seq clis w))) as (pre & tl & H1 & H2 & H3).
  fold (n_ran clis w) in H1, H3. rewrite <- ran_outcomes_prefix in H1.
  rewrite H1 in Es |- *. rewrite forallb_app in Es |- *. apply andb_true_iff in Es as [Esp Est].
  exists (codes_of pre), (codes_of tl). rewrite codes_of_app. split; [reflexivity|].
  split; [apply ok0_codes; assumption|]. rewrite H2. cbn [andb].
  destruct H3 as [[-> Hn]|(o & -> & Ho)].
  - left. cbn. rewrite exec_seq_length in Hn. auto using ran_all.
  - right. destruct o as [c o e|]; [|discriminate]. exists c. cbn. cbn in Ho. rewrite Ho.
    repeat split. now apply Z.eqb_neq.
Qed.

(* ---- C19, first sentence: DONE exactly when every command was run and
   exited with status zero; FAILED otherwise ---- *)
Theorem done_iff_all_zero clis w k codes st w' k' :
  run clis w k = (Finished codes st, w', k') ->
  (st = DONE <-> (length codes = length clis /\ Forall (fun c => c = 0%Z) codes))
  /\ (st = FAILED <-> ~ (length codes = length clis /\ Forall (fun c => c = 0%Z) codes)).
Proof.
  intros H. pose proof (executed_is_prefix_through_first_failure _ _ _ _ _ _ _ H)
    as (_ & _ & _ & zeros & tl & -> & Hz & Hcase).
  apply run_finished in H as (Es & Hc & _).
  pose proof (codes_of_length _ Es) as Hl. rewrite <- Hc, ran_outcomes_length in Hl.
  destruct Hcase as [(-> & Hr & ->)|(c & -> & Hc0 & ->)].
  - assert (A : length (zeros ++ []) = length clis /\ Forall (fun c => c = 0%Z) (zeros ++ [])).
    { rewrite app_nil_r in *. split; [|exact Hz].
      rewrite Hl. unfold ran in Hr. apply (f_equal (@length _)) in Hr.
      rewrite firstn_length in Hr. pose proof (n_ran_le clis w). lia. }
    split; split; auto; try discriminate. intros N. contradiction.
  - assert (A : ~ (length (zeros ++ [c]) = length clis /\ Forall (fun c => c = 0%Z) (zeros ++ [c]))).
    { intros [_ HF]. apply Forall_app in HF as [_ HF]. inversion HF; subst. contradiction. }
    split; split; auto; try discriminate. intros N. contradiction.
Qed.

(* the same, in terms of what the commands do: DONE iff every command of the
   list, run in sequence, exits with status zero *)
Theorem done_iff_every_command_exits_zero clis w k codes st w' k' :
  run clis w k = (Finished codes st, w', k') ->
  (st = DONE <-> forallb ok0 (fst (exec_seq clis w)) = true).
Proof.
  intros H. apply run_finished in H as (_ & _ & -> & _).
  pose proof (tff_split (fst (exec_seq clis w))) as (pre & tl & H1 & H2 & H3).
  fold (n_ran clis w) in H1, H3. rewrite <- ran_outcomes_prefix in H1.
  rewrite H1, forallb_app, H2. cbn [andb].
  destruct H3 as [[-> Hn]|(o & -> & Ho)].
  - cbn. split; [intros _|reflexivity]. rewrite app_nil_r in H1. rewrite <- H2, <- H1.
    rewrite ran_outcomes_prefix, Hn. now rewrite firstn_all.
  - cbn. rewrite Ho. cbn. split; [discriminate|]. intros Hall. exfalso.
    assert (Hin : In o (fst (exec_seq clis w))).
    { rewrite ran_outcomes_prefix in H1. eapply In_firstn. rewrite H1. apply in_or_app. right. now left. }
    rewrite forallb_forall in Hall. apply Hall in Hin. congruence.
Qed.

Lemma ok0_started l : forallb ok0 l = true -> forallb started l = true.
Proof.
  induction l as [|o r IH]; cbn; [reflexivity|]. rewrite !andb_true_iff. intros [Ho Hr].
  split; [destruct o; [reflexivity | discriminate] | now apply IH].
Qed.

(* ---- a command that cannot be started: the exception leaves run() exactly
   when the last command executed is one that could not be started; the
   commands before it all exited with zero, the ones after it are not run ---- *)
Theorem aborted_iff_cannot_start clis w k :
  (exists w' k', run clis w k = (Aborted, w', k'))
  <-> exists pre, ran_outcomes clis w = pre ++ [CannotStart] /\ forallb ok0 pre = true.
Proof.
  rewrite run_eq. unfold result_of.
  pose proof (tff_split (fst (exec_seq clis w))) as (pre & tl & H1 & H2 & H3).
  fold (n_ran clis w) in H1, H3. rewrite <- ran_outcomes_prefix in H1.
  rewrite H1, forallb_app, (ok0_started _ H2). cbn [andb].
  destruct H3 as [[-> Hn]|(o & -> & Ho)].
  - cbn. split; [intros (? & ? & H); discriminate|].
    intros (pre' & E & _). rewrite app_nil_r in E. exfalso.
    assert (forallb ok0 (pre' ++ [CannotStart]) = true) by (rewrite <- E; exact H2).
    rewrite forallb_app in H. cbn in H. now rewrite andb_false_r in H.
  - destruct o as [c o e|]; cbn.
    + split; [intros (? & ? & H); discriminate|].
      intros (pre' & E & _). apply app_inj_tail in E as [_ E]. discriminate.
    + split; [|intros _; eauto]. intros _. exists pre. auto.
Qed.

End RunProofs.

Arguments exec_seq {cmd world}.
Arguments ran {cmd world}.
Arguments n_ran {cmd world}.
Arguments ran_outcomes {cmd world}.
Arguments world_after {cmd world}.
Arguments err_chunks {cmd}.

(* ------------------------------------------------------------------ *)
(* the task and the worker *)

Section TaskProofs.
Variables cmd world : Type.
Variable exec : cmd -> world -> outcome * world.
Variable echo : cmd -> string.
Variable root : path.

Notation do_task := (do_task exec echo sanitize root).
Notation worker_step := (worker_step exec echo sanitize root).
Notation worker := (worker exec echo sanitize root).
Notation ran_outcomes := (ran_outcomes exec).
Notation ran := (ran exec).

Definition dir_of (name : string) : path := root ++ [name].
Definition stdout_of (name : string) : path := root ++ [name] ++ ["stdout"%string].
Definition stderr_of (name : string) : path := root ++ [name] ++ ["stderr"%string].

Definition task_result (name : string) (os : list outcome) : res (update * status) :=
  match result_of os with
  | Finished codes st =>
      Ok (mk_update codes (dir_of name) (stdout_of name) (stderr_of name), st)
  | Aborted => Raise 2
  end.

(* a name that sanitize_filename refuses: the exception leaves do() before
   anything is touched *)
Lemma do_task_bad_name name clis w fs :
  ~ good_name name -> do_task name clis w fs = (Raise 1, w, fs).
Proof.
  intros N. unfold Model.do_task. destruct (sanitize name) as [n|c] eqn:E.
  - apply sanitize_ok in E as [_ G]. contradiction.
  - unfold sanitize in E.
    repeat match type of E with (if ?b then _ else _) = _ => destruct b end; inversion E; reflexivity.
Qed.

(* an accepted name *)
Lemma do_task_good_name name clis w fs :
  good_name name ->
  exists fs',
  do_task name clis w fs = (task_result name (ran_outcomes clis w), world_after exec clis w, fs') /\
  fs_get fs' (stdout_of name) = Some (out_chunks (ran_outcomes clis w)) /\
  fs_get fs' (stderr_of name) = Some (err_chunks echo (ran clis w) (ran_outcomes clis w)) /\
  (forall p, p <> stdout_of name -> p <> stderr_of name -> fs_get fs' p = fs_get fs p).
Proof.
  intros G. unfold Model.do_task.
  assert (E : sanitize name = Ok name) by (apply sanitize_ok; auto). rewrite E.
  rewrite good_name_join by exact G. rewrite run_eq. cbn [c_out c_err app].
  unfold task_result, dir_of, stdout_of, stderr_of.
  assert (Hne : root ++ [name] ++ ["stdout"%string] <> root ++ [name] ++ ["stderr"%string]).
  { intros H. apply app_inv_head in H. inversion H. }
  rewrite <- !app_assoc. cbn [app].
  eexists. split.
  - destruct (result_of (ran_outcomes clis w)); reflexivity.
  - split; [|split].
    + rewrite fs_get_put_other by (intros H; apply Hne; now symmetry). apply fs_get_put_same.
    + apply fs_get_put_same.
    + intros p H1 H2. rewrite !fs_get_put_other by (intros H; subst; contradiction). reflexivity.
Qed.

(* ---- C19: the captured output files contain what the executed commands
   wrote, in order; on stderr every command is preceded by its echo line ---- *)
Theorem outputs_in_order name clis w fs r w' fs' :
  good_name name ->
  do_task name clis w fs = (r, w', fs') ->
  fs_get fs' (stdout_of name) = Some (out_chunks (ran_outcomes clis w)) /\
  fs_get fs' (stderr_of name) = Some (err_chunks echo (ran clis w) (ran_outcomes clis w)) /\
  (forall p, p <> stdout_of name -> p <> stderr_of name -> fs_get fs' p = fs_get fs p).
Proof.
  intros G H. destruct (do_task_good_name name clis w fs G) as (fs2 & E & H1 & H2 & H3).
  rewrite E in H. inversion H; subst. auto.
Qed.

(* ---- C19: the directory belongs to the task ---- *)
Theorem dir_belongs_to_task name n :
  sanitize name = Ok n ->
  n = name /\ good_name name /\
  path_join root n = dir_of name /\
  strict_child root (path_join root n) = true /\
  (forall name' n', sanitize name' = Ok n' -> path_join root n' = path_join root n -> name' = name) /\
  (forall name', good_name name' -> name' <> name ->
     forall f g : string, root ++ [name'] ++ [f] <> root ++ [name] ++ [g]
                          /\ root ++ [name'] ++ [f] <> dir_of name).
Proof.
  intros H. apply sanitize_ok in H as [-> G].
  split; [reflexivity|]. split; [exact G|].
  split; [apply good_name_join, G|]. split; [apply dir_strict_child, G|]. split.
  - intros name' n' H' E. apply sanitize_ok in H' as [-> G']. eapply dir_injective; eauto.
  - intros name' G' Hne f g. split; [apply child_neq, Hne | apply file_not_dir].
Qed.

(* status and update a task ends up with in the environment *)
Definition entry_of (r : res (update * status)) : entry :=
  match r with
  | Raise _ => mk_entry FAILED None
  | Ok (u, st) => mk_entry st (Some u)
  end.

Lemma worker_step_env s t :
  w_env (worker_step s t)
  = env_set (w_env s) (t_name t)
            (entry_of (fst (fst (do_task (t_name t) (t_clis t) (w_world s) (w_fs s))))).
Proof.
  unfold Model.worker_step.
  destruct (do_task (t_name t) (t_clis t) (w_world s) (w_fs s)) as [[r w1] fs1].
  destruct r as [[u st]|c]; reflexivity.
Qed.

Lemma worker_step_fs s t :
  w_fs (worker_step s t) = snd (do_task (t_name t) (t_clis t) (w_world s) (w_fs s)).
Proof.
  unfold Model.worker_step.
  destruct (do_task (t_name t) (t_clis t) (w_world s) (w_fs s)) as [[r w1] fs1].
  destruct r as [[u st]|c]; reflexivity.
Qed.

(* a task leaves the entries and the files of differently named tasks alone *)
Lemma worker_step_other_env s t n :
  t_name t <> n -> env_get (w_env (worker_step s t)) n = env_get (w_env s) n.
Proof. intros H. rewrite worker_step_env. now apply env_get_set_other. Qed.

Lemma worker_step_other_fs s t n f :
  t_name t <> n -> fs_get (w_fs (worker_step s t)) (root ++ [n] ++ [f]) = fs_get (w_fs s) (root ++ [n] ++ [f]).
Proof.
  intros H. rewrite worker_step_fs.
  destruct (do_task (t_name t) (t_clis t) (w_world s) (w_fs s)) as [[r w1] fs1] eqn:E. cbn.
  assert (D : good_name (t_name t) \/ ~ good_name (t_name t)).
  { destruct (sanitize (t_name t)) eqn:Es; [left; now apply sanitize_ok in Es | right; eapply sanitize_raise, Es]. }
  destruct D as [G|N].
  - destruct (outputs_in_order _ _ _ _ _ _ _ G E) as (_ & _ & H3).
    apply H3; unfold stdout_of, stderr_of; apply child_neq; auto.
  - rewrite do_task_bad_name in E by exact N. now inversion E.
Qed.

Lemma worker_others ts : forall s n f,
  (forall t, In t ts -> t_name t <> n) ->
  env_get (w_env (worker ts s)) n = env_get (w_env s) n /\
  fs_get (w_fs (worker ts s)) (root ++ [n] ++ [f]) = fs_get (w_fs s) (root ++ [n] ++ [f]).
Proof.
  unfold Model.worker.
  induction ts as [|t r IH]; intros s n f H; cbn [fold_left]; [auto|].
  destruct (IH (worker_step s t) n f) as [H1 H2]; [intros u Hu; apply H; now right|].
  rewrite H1, H2. split; [apply worker_step_other_env | apply worker_step_other_fs]; apply H; now left.
Qed.

(* the traced loop of the cases files is the same loop *)
Lemma worker_trace_final ts : forall s,
  snd (worker_trace exec echo sanitize root ts s) = worker ts s
  /\ length (fst (worker_trace exec echo sanitize root ts s)) = length ts.
Proof.
  unfold Model.worker. induction ts as [|t r IH]; intros s; cbn; [auto|].
  destruct (IH (worker_step s t)) as [H1 H2]. rewrite H1, H2. auto.
Qed.

Lemma worker_app a b s : worker (a ++ b) s = worker b (worker a s).
Proof. apply fold_left_app. Qed.

(* what the whole run of the worker leaves for one of its tasks: exactly what
   that task produced when its turn came, whatever the other tasks did *)
Theorem worker_task_spec pre t post s :
  NoDup (map t_name (pre ++ t :: post)) ->
  let s1 := worker pre s in
  let final := worker (pre ++ t :: post) s in
  let r := do_task (t_name t) (t_clis t) (w_world s1) (w_fs s1) in
  env_get (w_env final) (t_name t) = Some (entry_of (fst (fst r))) /\
  forall f, fs_get (w_fs final) (root ++ [t_name t] ++ [f]) = fs_get (snd r) (root ++ [t_name t] ++ [f]).
Proof.
  intros ND. cbn zeta. rewrite worker_app. cbn [Model.worker fold_left].
  fold (worker post (worker_step (worker pre s) t)).
  assert (Hpost : forall u, In u post -> t_name u <> t_name t).
  { intros u Hu E. rewrite map_app in ND. apply NoDup_remove_2 in ND. apply ND.
    apply in_or_app. right. rewrite <- E. now apply in_map. }
  split.
  - destruct (worker_others post (worker_step (worker pre s) t) (t_name t) ""%string Hpost) as [H1 _].
    rewrite H1, worker_step_env. apply env_get_set_same.
  - intros f. destruct (worker_others post (worker_step (worker pre s) t) (t_name t) f Hpost) as [_ H2].
    rewrite H2, worker_step_fs. reflexivity.
Qed.

(* ---- C19: DONE exactly when the name is usable and every command exited
   with zero; in every other case (non-zero status, a command that cannot be
   started, a refused name) the task is FAILED and the other tasks of the run
   are processed all the same ---- *)
Theorem cannot_start_fails_task pre t post s :
  NoDup (map t_name (pre ++ t :: post)) ->
  let s1 := worker pre s in
  let final := worker (pre ++ t :: post) s in
  exists x, env_get (w_env final) (t_name t) = Some x /\
    (e_status x = DONE <->
       good_name (t_name t) /\ forallb ok0 (fst (exec_seq exec (t_clis t) (w_world s1))) = true) /\
    (e_status x = FAILED <->
       ~ (good_name (t_name t) /\ forallb ok0 (fst (exec_seq exec (t_clis t) (w_world s1))) = true)) /\
    ((exists p, ran_outcomes (t_clis t) (w_world s1) = p ++ [CannotStart]) ->
       e_status x = FAILED /\ e_update x = None).
Proof.
  intros ND. cbn zeta.
  destruct (worker_task_spec pre t post s ND) as [H _]. cbn zeta in H.
  eexists. split; [exact H|]. clear H.
  set (s1 := worker pre s).
  assert (D : good_name (t_name t) \/ ~ good_name (t_name t)).
  { destruct (sanitize (t_name t)) eqn:Es; [left; now apply sanitize_ok in Es | right; eapply sanitize_raise, Es]. }
  destruct D as [G|N].
  - destruct (do_task_good_name (t_name t) (t_clis t) (w_world s1) (w_fs s1) G) as (fs' & E & _).
    rewrite E. cbn [fst]. unfold task_result.
    destruct (run exec echo (t_clis t) (w_world s1) (mk_cap [] [])) as [[rr w'] k'] eqn:Er.
    pose proof Er as Er2. rewrite run_eq in Er2. inversion Er2 as [[Hr Hw Hk]]. clear Er2 Hw Hk.
    destruct rr as [codes st|].
    + pose proof (done_iff_every_command_exits_zero _ _ _ _ _ _ _ _ _ _ _ Er) as Hd.
      rewrite Hr. cbn [entry_of e_status e_update].
      split; [|split].
      * rewrite Hd. tauto.
      * destruct st.
        -- split; [discriminate|]. intros Hn. exfalso. apply Hn. split; [exact G | now apply Hd].
        -- split; [|reflexivity]. intros _ [_ Hall]. apply Hd in Hall. discriminate.
      * intros (p & Hp). exfalso. apply run_finished in Er as (Es & _).
        rewrite Hp, forallb_app in Es. cbn in Es. now rewrite andb_false_r in Es.
    + rewrite Hr. cbn [entry_of e_status e_update].
      assert (Hnz : forallb ok0 (fst (exec_seq exec (t_clis t) (w_world s1))) = false).
      { destruct (forallb ok0 (fst (exec_seq exec (t_clis t) (w_world s1)))) eqn:Ef; [|reflexivity].
        exfalso. apply run_aborted in Er as (Es & _).
        assert (forallb ok0 (ran_outcomes (t_clis t) (w_world s1)) = true).
        { rewrite ran_outcomes_prefix. revert Ef. generalize (n_ran exec (t_clis t) (w_world s1)).
          generalize (fst (exec_seq exec (t_clis t) (w_world s1))).
          induction l as [|o r IH]; intros [|n]; cbn; auto.
          rewrite !andb_true_iff. intros [Ho Hr']. split; [exact Ho | now apply IH]. }
        apply ok0_started in H. congruence. }
      rewrite Hnz. split; [|split]; try (split; [discriminate | intros [_ ?]; discriminate]).
      * split; [intros _ [_ ?]; discriminate | reflexivity].
      * auto.
  - rewrite do_task_bad_name by exact N. cbn.
    split; [|split]; try (split; [discriminate | tauto]).
    + split; [tauto | reflexivity].
    + auto.
Qed.

(* ---- C19: the files of a task hold the output of that task's commands, in
   order, after the whole run: no other task writes there ---- *)
Theorem worker_outputs_isolated pre t post s :
  NoDup (map t_name (pre ++ t :: post)) -> good_name (t_name t) ->
  let s1 := worker pre s in
  let final := worker (pre ++ t :: post) s in
  let os := ran_outcomes (t_clis t) (w_world s1) in
  fs_get (w_fs final) (stdout_of (t_name t)) = Some (out_chunks os) /\
  fs_get (w_fs final) (stderr_of (t_name t)) = Some (err_chunks echo (ran (t_clis t) (w_world s1)) os).
Proof.
  intros ND G. cbn zeta.
  destruct (worker_task_spec pre t post s ND) as [_ H]. cbn zeta in H.
  unfold stdout_of, stderr_of. rewrite !H.
  destruct (do_task (t_name t) (t_clis t) (w_world (worker pre s)) (w_fs (worker pre s)))
    as [[r w'] fs'] eqn:E. cbn [snd].
  destruct (outputs_in_order _ _ _ _ _ _ _ G E) as (H1 & H2 & _). auto.
Qed.

End TaskProofs.

(* ---- the unchanged tree: the empty name was accepted and its "directory"
   is the output root itself ---- *)
Lemma empty_name_refuted (root : path) :
  sanitize_old ""%string = Ok ""%string /\ path_join root ""%string = root
  /\ strict_child root (path_join root ""%string) = false.
Proof.
  split; [reflexivity|]. unfold path_join, parse_rel. cbn. rewrite app_nil_r.
  split; [reflexivity|]. unfold strict_child. now rewrite path_eqb_refl, andb_false_r.
Qed.

(* C19 composed with the scheduler model (Sched/Model.v, C02): what RunTask.do
   returns in the model of C19 is an outcome (has_upd, ok) of the scheduler
   model; through the schedule-independent specification of the final statuses
   a command that cannot be started makes its task FAILED (or SKIPPED when a
   hard dependency failed), never the run: every complete run gives every task
   the status of the specification. *)
From Coq Require Import String List ZArith Bool Arith Lia.
From VV Require Import Sched.Model Sched.Defs Sched.ProofsC02.
From VV Require Import Lib.Base C19.Model C19.Proofs.
Import ListNotations.

(* the worker's check_result/publish view of do(): an exception is (false, false) *)
Definition oc_of (r : res (update * C19.Model.status)) : Sched.Model.outcome :=
  match r with
  | Raise _ => mkO false false
  | Ok (_, C19.Model.DONE) => mkO true true
  | Ok (_, C19.Model.FAILED) => mkO true false
  end.

Section Compose.
Variables cmd world : Type.
Variable exec : cmd -> world -> C19.Model.outcome * world.
Variable echo : cmd -> string.
Variable root : path.

(* the tasks of the graph, and the world / capture files each of them finds
   when its do() starts (whatever the schedule made them) *)
Variable tasks : nat -> task cmd.
Variable worlds : nat -> world.
Variable fss : nat -> fsys.

Definition do_result (t : nat) : res (update * C19.Model.status) :=
  fst (fst (do_task exec echo sanitize root (t_name (tasks t)) (t_clis (tasks t)) (worlds t) (fss t))).

Definition all_exit_zero (t : nat) : Prop :=
  forallb (ok0) (fst (exec_seq exec (t_clis (tasks t)) (worlds t))) = true.

Definition cannot_start (t : nat) : Prop :=
  exists p, ran_outcomes exec (t_clis (tasks t)) (worlds t) = p ++ [CannotStart].

Lemma good_or_not n : good_name n \/ ~ good_name n.
Proof.
  destruct (sanitize n) eqn:E; [left; now apply sanitize_ok in E | right; eapply sanitize_raise, E].
Qed.

(* ok = "do() returned DONE" <-> usable name and every command exits with zero *)
Lemma ok_iff t :
  ok (oc_of (do_result t)) = true <-> good_name (t_name (tasks t)) /\ all_exit_zero t.
Proof.
  unfold do_result, all_exit_zero. destruct (good_or_not (t_name (tasks t))) as [G|N].
  - destruct (do_task_good_name _ _ exec echo root (t_name (tasks t)) (t_clis (tasks t)) (worlds t) (fss t) G)
      as (fs' & E & _).
    rewrite E. cbn [fst]. unfold task_result.
    destruct (C19.Model.run exec echo (t_clis (tasks t)) (worlds t) (mk_cap [] [])) as [[rr w'] k'] eqn:Er.
    pose proof Er as Er2. rewrite run_eq in Er2. inversion Er2 as [[Hr Hw Hk]]. clear Er2 Hw Hk.
    rewrite Hr. destruct rr as [codes st|].
    + pose proof (done_iff_every_command_exits_zero _ _ _ _ _ _ _ _ _ _ _ Er) as Hd.
      destruct st; cbn.
      * split; [intros _; split; [exact G | now apply Hd] | reflexivity].
      * split; [discriminate|]. intros [_ Hall]. apply Hd in Hall. discriminate.
    + cbn. split; [discriminate|]. intros [_ Hall]. exfalso.
      apply run_aborted in Er as (Es & _).
      assert (H : forallb ok0 (ran_outcomes exec (t_clis (tasks t)) (worlds t)) = true).
      { rewrite ran_outcomes_prefix. revert Hall. generalize (n_ran exec (t_clis (tasks t)) (worlds t)).
        generalize (fst (exec_seq exec (t_clis (tasks t)) (worlds t))).
        induction l as [|o r IH]; intros [|n]; cbn; auto.
        rewrite !andb_true_iff. intros [Ho Hr']. split; [exact Ho | now apply IH]. }
      apply ok0_started in H. congruence.
  - rewrite do_task_bad_name by exact N. cbn. split; [discriminate | tauto].
Qed.

(* a command that cannot be started: do() raises, i.e. outcome (false, false) *)
Lemma cannot_start_outcome t : cannot_start t -> oc_of (do_result t) = mkO false false.
Proof.
  intros (p & Hp). unfold do_result. destruct (good_or_not (t_name (tasks t))) as [G|N].
  - destruct (do_task_good_name _ _ exec echo root (t_name (tasks t)) (t_clis (tasks t)) (worlds t) (fss t) G)
      as (fs' & E & _).
    rewrite E. cbn [fst]. unfold task_result, result_of. rewrite Hp, forallb_app. cbn.
    now rewrite andb_false_r.
  - now rewrite do_task_bad_name by exact N.
Qed.

(* ---- C19 through the scheduler: every complete run, any number of workers,
   any interleaving ---- *)
Theorem cannot_start_fails_task_not_run (c : cfg) :
  wf_cfg c -> (forall t, t < ntasks c -> oc c t = oc_of (do_result t)) ->
  forall st0 clk s, reachable c (fun _ => no_entry) st0 clk s -> mp s = MReturned ->
  forall t, t < ntasks c ->
    (* the run gives the task its status of the specification *)
    est (Sched.Model.env s t) = spec_status c t /\
    (* DONE exactly when no hard dependency failed, the name is usable and all commands exit with zero *)
    (est (Sched.Model.env s t) = Some Sched.Model.DONE <->
       spec_status c t <> Some SKIPPED /\ good_name (t_name (tasks t)) /\ all_exit_zero t) /\
    (* a command that cannot be started: the task is FAILED (SKIPPED if it was not run at all) *)
    (cannot_start t ->
       (est (Sched.Model.env s t) = Some Sched.Model.FAILED \/ est (Sched.Model.env s t) = Some SKIPPED) /\
       (spec_status c t <> Some SKIPPED -> est (Sched.Model.env s t) = Some Sched.Model.FAILED)).
Proof.
  intros Hwf Hoc st0 clk s R M t Ht.
  destruct (final_statuses c st0 clk s Hwf R M t Ht) as [E _].
  destruct (spec_rule c t Hwf Ht) as [_ Hrule].
  split; [exact E|]. rewrite E. split.
  - split.
    + intros Hd. assert (N : spec_status c t <> Some SKIPPED) by (rewrite Hd; discriminate).
      split; [exact N|]. apply ok_iff. rewrite <- Hoc by exact Ht.
      specialize (Hrule N). rewrite Hrule in Hd. destruct (ok (oc c t)); [reflexivity | discriminate].
    + intros (N & G & Z). rewrite (Hrule N). rewrite Hoc by exact Ht.
      assert (ok (oc_of (do_result t)) = true) by (apply ok_iff; auto). now rewrite H.
  - intros Hcs. pose proof (cannot_start_outcome t Hcs) as Ho.
    assert (Hf : spec_status c t <> Some SKIPPED -> spec_status c t = Some Sched.Model.FAILED).
    { intros N. rewrite (Hrule N), Hoc, Ho by exact Ht. reflexivity. }
    split; [|exact Hf].
    destruct (spec_status c t) as [[]|] eqn:Es; try (right; reflexivity);
      left; apply Hf; discriminate.
Qed.

End Compose.

(* C19: the other command-running tasks (valjean/cosette/code.py): CheckoutTask
   (git clone, then git checkout) and BuildTask (cmake configure, then cmake
   --build).  Each step is one call run([cli], stdout=log, stderr=log) of the
   function modelled in C19/Model.v; the task returns after the first step
   whose code is not zero.  Calling run on one-command lists one after the
   other and stopping at the first non-zero code is run on the whole list, so
   the model is [run] on the list of the steps; both streams go to ONE log file
   <log-root>/<name>.log, the directory is <output-root>/<name>. *)
From Coq Require Import String Ascii List ZArith Bool Arith Lia.
From VV Require Import Lib.Base C19.Model C19.Proofs.
Import ListNotations.

Section CodeTasks.
Variables cmd world : Type.
Variable exec : cmd -> world -> outcome * world.
Variable echo : cmd -> string.

(* the steps one after the other, each through run([cli]) *)
Fixpoint run_steps (steps : list cmd) (w : world) (k : cap) : run_res * world * cap :=
  match steps with
  | [] => (Finished [] DONE, w, k)
  | c :: rest =>
      match run exec echo [c] w k with
      | (Finished codes st, w1, k1) =>
          match st with
          | DONE => match run_steps rest w1 k1 with
                    | (Finished codes' st', w2, k2) => (Finished (codes ++ codes') st', w2, k2)
                    | (Aborted, w2, k2) => (Aborted, w2, k2)
                    end
          | FAILED => (Finished codes FAILED, w1, k1)
          end
      | (Aborted, w1, k1) => (Aborted, w1, k1)
      end
  end.

Lemma run_steps_is_run steps : forall w k, run_steps steps w k = run exec echo steps w k.
Proof.
  induction steps as [|c rest IH]; intros w k; [reflexivity|].
  cbn [run_steps run]. destruct (exec c w) as [[code o e|] w1]; [|reflexivity].
  destruct (Z.eqb code 0) eqn:E; cbn; [|reflexivity].
  rewrite IH. destruct (run exec echo rest w1 _) as [[[codes st|] w2] k2]; reflexivity.
Qed.

(* what the single log file holds: per executed command its echo line, what it
   wrote on stdout, what it wrote on stderr *)
Fixpoint log_of (steps : list cmd) (w : world) : list string :=
  match steps with
  | [] => []
  | c :: rest =>
      echo c :: match exec c w with
                | (CannotStart, _) => []
                | (Exited code o e, w1) => o :: e :: (if Z.eqb code 0 then log_of rest w1 else [])
                end
  end.

Definition log_chunks (cs : list cmd) (os : list outcome) : list string :=
  flat_map (fun co => echo (fst co) :: match snd co with Exited _ o e => [o; e] | CannotStart => [] end)
           (combine cs os).

(* the log holds the output of exactly the commands that were run, in order *)
Theorem log_in_order steps : forall w,
  log_of steps w = log_chunks (ran exec steps w) (ran_outcomes exec steps w).
Proof.
  induction steps as [|c rest IH]; intros w; [reflexivity|].
  unfold ran_outcomes, ran, n_ran. cbn [log_of exec_seq fst snd].
  destruct (exec c w) as [o w1] eqn:E. cbn [fst snd through_first_failure].
  destruct o as [code o e|].
  - cbn [ok0]. destruct (Z.eqb code 0) eqn:Ec.
    + cbn [firstn exec_seq]. rewrite E. cbn [fst snd]. unfold log_chunks. cbn [combine flat_map fst snd app].
      f_equal. f_equal. f_equal. rewrite IH. reflexivity.
    + cbn [firstn exec_seq]. rewrite E. reflexivity.
  - cbn [ok0 firstn exec_seq]. rewrite E. reflexivity.
Qed.

End CodeTasks.

Arguments run_steps {cmd world}.
Arguments log_of {cmd world}.

(* ---- what a cases file evaluates ---- *)
(* observation: status in the environment / from do() (an exception counts as
   FAILED), the content of <log-root>/<name>.log if it exists, whether
   <output-root>/<name> exists *)
Record code_obs := mk_code_obs { co_status : status; co_log : option string; co_dir : bool }.

Definition code_model (name : string) (steps : list ccmd) : code_obs :=
  match sanitize name with
  | Raise _ => mk_code_obs FAILED None false
  | Ok _ =>
      let log := Some (str_concat (log_of cexec cecho steps tt)) in
      match run_steps cexec cecho steps tt (mk_cap [] []) with
      | (Finished _ st, _, _) => mk_code_obs st log true
      | (Aborted, _, _) => mk_code_obs FAILED log true
      end
  end.

Definition check_code_case (c : string * list ccmd * code_obs) : bool :=
  let '(name, steps, o) := c in
  let m := code_model name steps in
  status_eqb (co_status m) (co_status o)
  && option_eqb String.eqb (co_log m) (co_log o)
  && Bool.eqb (co_dir m) (co_dir o).

(* The per-rank levels of C06 are ordered: for a finite alpha >= 0 and
   1 <= m < 2^53 bins,  level/m <= level/(m-k) <= alpha  for every rank k < m
   (binary64 division is correctly rounded and rounding is monotone).
   This discharges the side condition [levels_ok] of C06/Proofs.v. *)
From Coq Require Import ZArith Reals Bool List Lia Lra.
From Flocq Require Import Core.Core IEEE754.BinarySingleNaN.
From VV Require Import Lib.B64 C06.LibF C06.Model.
Import ListNotations.
Local Open Scope R_scope.

Notation fexp64 := (SpecFloat.fexp 53 1024).
Notation rnd64 := (round radix2 fexp64 (round_mode mode_NE)).

Local Instance valid_exp64 : Valid_exp fexp64 := fexp_correct 53 1024 P53.
Local Instance valid_rnd64 : Valid_rnd (round_mode mode_NE) := valid_rnd_N _.

Lemma xR_finite (x : b64) : is_finite x = true -> xR x = B2R x.
Proof. destruct x as [s|s| |s m e H]; cbn; try discriminate; reflexivity. Qed.

Lemma B2R_nonneg (x : b64) : Bsign x = false -> 0 <= B2R x.
Proof.
  destruct x as [s|s| |s m e H]; cbn -[F2R]; intros Hs; try lra.
  subst s. apply F2R_ge_0. cbn. lia.
Qed.

Lemma finite_not_nan (x : b64) : is_finite x = true -> B64.is_nan x = false.
Proof. destruct x; cbn; try discriminate; reflexivity. Qed.

Lemma fle_finite (x y : b64) :
  is_finite x = true -> is_finite y = true -> B2R x <= B2R y -> fle x y = true.
Proof.
  intros Fx Fy H. apply fle_R; auto using finite_not_nan.
  now rewrite !xR_finite.
Qed.

Lemma small_lt_bpow (x : R) (y : b64) :
  0 <= x <= B2R y -> Rabs x < bpow radix2 1024.
Proof.
  intros [H0 H1]. rewrite Rabs_pos_eq by exact H0.
  pose proof (B2R_lt_big y) as H. unfold big in H. lra.
Qed.

(* quotient of a non-negative finite number by a finite number >= 1 *)
Lemma fdiv_pos (x y : b64) :
  is_finite x = true -> 0 <= B2R x -> 1 <= B2R y ->
  is_finite (fdiv x y) = true /\
  B2R (fdiv x y) = rnd64 (B2R x / B2R y) /\
  0 <= B2R (fdiv x y) <= B2R x.
Proof.
  intros Fx Hx Hy.
  assert (Hq : 0 <= B2R x / B2R y <= B2R x).
  { assert (Hq0 : 0 <= B2R x / B2R y).
    { apply Rmult_le_pos; [exact Hx|]. left. apply Rinv_0_lt_compat. lra. }
    assert (Hxq : B2R x = B2R x / B2R y * B2R y) by (field; lra).
    split; [exact Hq0|]. set (q := B2R x / B2R y) in *. nra. }
  assert (Hr : 0 <= rnd64 (B2R x / B2R y) <= B2R x).
  { split.
    - rewrite <- (round_0 radix2 fexp64 (round_mode mode_NE)).
      apply round_le; [typeclasses eauto | typeclasses eauto | tauto].
    - apply round_le_generic; [typeclasses eauto | typeclasses eauto | | tauto].
      apply generic_format_B2R. }
  pose proof (Bdiv_correct 53 1024 P53 P1024 mode_NE x y) as H.
  assert (Hy0 : B2R y <> 0) by lra. specialize (H Hy0).
  rewrite Rlt_bool_true in H by (eapply small_lt_bpow; exact Hr).
  destruct H as [H1 [H2 _]]. unfold fdiv. rewrite H1, H2. tauto.
Qed.

(* small natural numbers are represented exactly *)
Lemma of_nat_exact (n : nat) :
  (Z.of_nat n < 2 ^ 53)%Z ->
  is_finite (of_nat n) = true /\ B2R (of_nat n) = INR n.
Proof.
  intros Hn.
  pose proof (binary_normalize_correct 53 1024 P53 P1024 mode_NE (Z.of_nat n) 0 false) as H.
  cbv zeta in H.
  assert (HF : F2R (Float radix2 (Z.of_nat n) 0) = INR n).
  { unfold F2R. cbn. rewrite Rmult_1_r. symmetry. apply INR_IZR_INZ. }
  rewrite HF in H.
  assert (Hg : generic_format radix2 fexp64 (INR n)).
  { apply (generic_format_FLT radix2 (3 - 1024 - 53) 53).
    apply (FLT_spec radix2 (3 - 1024 - 53) 53 (INR n) (Float radix2 (Z.of_nat n) 0)).
    - symmetry. exact HF.
    - cbn [Fnum]. rewrite Z.abs_eq by lia. exact Hn.
    - cbn. lia. }
  rewrite (round_generic radix2 fexp64 (round_mode mode_NE) (INR n) Hg) in H.
  rewrite Rlt_bool_true in H.
  - destruct H as [H1 [H2 _]]. unfold of_nat. tauto.
  - rewrite Rabs_pos_eq by apply pos_INR.
    rewrite INR_IZR_INZ. apply Rlt_trans with (IZR (2 ^ 53)).
    + now apply IZR_lt.
    + change (2 ^ 53)%Z with (radix2 ^ 53)%Z. rewrite IZR_Zpower by lia.
      apply bpow_lt. lia.
Qed.

Section Levels.
Variable alpha : b64.
Hypothesis alpha_finite : is_finite alpha = true.
Hypothesis alpha_nonneg : 0 <= B2R alpha.

Lemma ftwo_val : is_finite ftwo = true /\ B2R ftwo = 2.
Proof.
  destruct (of_nat_exact 2) as [H1 H2]; [cbn; lia|]. split; [exact H1|].
  unfold ftwo. rewrite H2. cbn. lra.
Qed.

Lemma level_props :
  is_finite (level alpha) = true /\ 0 <= B2R (level alpha) <= B2R alpha.
Proof.
  destruct ftwo_val as [F2 V2].
  destruct (fdiv_pos alpha ftwo alpha_finite alpha_nonneg) as [H1 [_ H3]]; [lra|].
  unfold level. tauto.
Qed.

Lemma level_div_props (n : nat) :
  (1 <= n)%nat -> (Z.of_nat n < 2 ^ 53)%Z ->
  is_finite (fdiv (level alpha) (of_nat n)) = true /\
  B2R (fdiv (level alpha) (of_nat n)) = rnd64 (B2R (level alpha) / INR n) /\
  0 <= B2R (fdiv (level alpha) (of_nat n)) <= B2R (level alpha).
Proof.
  intros Hn1 Hn2. destruct level_props as [FL [L0 L1]].
  destruct (of_nat_exact n Hn2) as [Fn Vn].
  assert (1 <= INR n) by (change 1 with (INR 1); now apply le_INR).
  destruct (fdiv_pos (level alpha) (of_nat n) FL L0) as [H1 [H2 H3]]; [lra|].
  rewrite Vn in H2. tauto.
Qed.

Lemma levels_ok_holds (m : nat) :
  (Z.of_nat m < 2 ^ 53)%Z -> levels_ok alpha m = true.
Proof.
  intros Hm. unfold levels_ok. apply forallb_forall. intros k Hk.
  apply in_seq in Hk. cbn in Hk.
  assert (Hmk : (1 <= m - k)%nat) by lia.
  assert (Hm1 : (1 <= m)%nat) by lia.
  assert (Hmk2 : (Z.of_nat (m - k) < 2 ^ 53)%Z) by lia.
  destruct level_props as [FL [L0 L1]].
  destruct (level_div_props m Hm1 Hm) as [Fa [Va Ba]].
  destruct (level_div_props (m - k) Hmk Hmk2) as [Fb [Vb Bb]].
  apply andb_true_iff. split.
  - unfold bonf_level, holm_level. apply fle_finite; auto.
    rewrite Va, Vb. apply round_le; [typeclasses eauto | typeclasses eauto |].
    assert (0 < INR (m - k)) by (apply lt_0_INR; lia).
    assert (INR (m - k) <= INR m) by (apply le_INR; lia).
    apply Rmult_le_compat_l; [exact L0|]. apply Rinv_le_contravar; lra.
  - unfold holm_level. apply fle_finite; auto. lra.
Qed.
End Levels.

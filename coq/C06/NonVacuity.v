(* C06: the theorems' hypotheses are met by concrete data; witnesses of the
   behaviour before the fix and of the property-internal conflict *)
From Coq Require Import List ZArith Bool Arith Lia Reals Lra.
From Flocq Require Import Core.Core IEEE754.BinarySingleNaN.
From VV Require Import Lib.Base Lib.B64 C06.LibF C06.Model C06.Proofs C06.Levels C06.Main.
Import ListNotations.

Definition a005 : b64 := of_bits 4587366580439587226.                       (* 0.05 *)
Definition ps4 : list b64 :=                                                  (* [0.0125; 0.5; 0.3; 0.00625] *)
  map of_bits [4578359381184846234; 4602678819172646912; 4599075939470750515; 4573855781557475738]%Z.

Example a005_finite : is_finite a005 = true.
Proof. reflexivity. Qed.

Example a005_nonneg : (0 <= B2R a005)%R.
Proof. apply B2R_nonneg. reflexivity. Qed.

Example ps4_small : (Z.of_nat (length ps4) < 2 ^ 53)%Z.
Proof. unfold ps4. rewrite map_length. cbn [length]. lia. Qed.

(* Holm flags nothing, Bonferroni flags the bin with p = 0.00625 = level/m:
   the inclusion "Bonferroni-flagged => Holm-flagged" fails exactly at p = level/m *)
Example bonf_subset_holm_full_refuted :
  exists alpha ps i,
    nth_error (bonf alpha ps) i = Some true /\ nth_error (map snd (holm alpha ps)) i = Some false.
Proof. exists a005, ps4, 3. split; vm_compute; reflexivity. Qed.

(* ... and there p = level/m indeed (the excluded case of the partial theorem) *)
Example boundary_is_excluded_case : feq (nth 3 ps4 fnan) (bonf_level a005 4) = true.
Proof. vm_compute. reflexivity. Qed.

(* a tie-free array with mixed flags: 0.0001 < 0.004 < 0.3 < 0.5 *)
Definition ps_mixed : list b64 :=
  map of_bits [4599075939470750515; 4547007122018943789; 4602678819172646912; 4571261708172110332]%Z.
Example mixed_flags :
  map snd (holm a005 ps_mixed) = [false; true; false; true] /\
  bonf a005 ps_mixed = [false; true; false; true] /\
  forallb (fun p => Nat.eqb (count_le ple ps_mixed p) (S (count_lt ple ps_mixed p))) ps_mixed = true.
Proof. split; [|split]; vm_compute; reflexivity. Qed.

(* before the fix the rules were [fle p lvl] and [flt p lvl]: a NaN p-value was accepted *)
Example nan_accepted_before_fix :
  fle fnan (bonf_level a005 3) = false /\ flt fnan (holm_level a005 3 2) = false.
Proof. split; reflexivity. Qed.

Example nan_rejected_now :
  bonf a005 (map of_bits [4607182418800017408; 9221120237041090560; 4607182418800017408]%Z)
  = [false; true; false].
Proof. vm_compute. reflexivity. Qed.

(* all p-values above alpha: hypothesis of the "passes bin by bin" theorem is satisfiable *)
Example all_above_alpha :
  forallb (flt a005) (map of_bits [4599075939470750515; 4602678819172646912]%Z) = true.
Proof. vm_compute. reflexivity. Qed.

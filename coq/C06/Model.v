(* C06: Bonferroni correction and Holm-Bonferroni method.
   Model of valjean/gavroche/stat_tests/bonferroni.py (after the fix that
   rejects bins whose p-value is NaN):
     TestBonferroni.__init__ / bonferroni_correction,
     TestHolmBonferroni.__init__ / holm_bonferroni_method,
     TestResult(Holm)Bonferroni.__bool__ / nb_rejected.
   p-value arrays are flat lists in C order (numpy flatten / reshape). *)
From Coq Require Import List ZArith Bool Arith.
From VV Require Import Lib.Base Lib.B64 C06.LibF.
Import ListNotations.

(* ---------- stable insertion sort of (key, original index) ---------- *)
Section Sort.
Context {A : Type} (leb : A -> A -> bool).

Fixpoint insert (x : A * nat) (l : list (A * nat)) : list (A * nat) :=
  match l with
  | [] => [x]
  | y :: r => if leb (fst x) (fst y) then x :: y :: r else y :: insert x r
  end.

Fixpoint isort (l : list (A * nat)) : list (A * nat) :=
  match l with
  | [] => []
  | x :: r => insert x (isort r)
  end.

Definition index (ps : list A) : list (A * nat) := combine ps (seq 0 (length ps)).

(* argsort: original indices in increasing order of the keys *)
Definition argsort (ps : list A) : list nat := map snd (isort (index ps)).

(* position of i in l (length l when absent) *)
Fixpoint index_of (i : nat) (l : list nat) : nat :=
  match l with
  | [] => 0
  | j :: r => if Nat.eqb i j then 0 else S (index_of i r)
  end.

(* rank (from 0) of the bin at original position i = inverse permutation *)
Definition rank (ps : list A) (i : nat) : nat := index_of i (argsort ps).

(* number of keys strictly before x / not after x in the pre-order *)
Definition count_lt (ps : list A) (x : A) : nat := length (filter (fun q => negb (leb x q)) ps).
Definition count_le (ps : list A) (x : A) : nat := length (filter (fun q => leb q x) ps).
End Sort.

(* ---------- the two corrections ---------- *)
(* stored level: alpha / 2 (two-sided) *)
Definition level (alpha : b64) : b64 := fdiv alpha ftwo.

(* Bonferroni: reject = (p <= level/m) | isnan(p) *)
Definition bonf_level (alpha : b64) (m : nat) : b64 := fdiv (level alpha) (of_nat m).
Definition bonf_rule (lvl p : b64) : bool := fle p lvl || B64.is_nan p.
Definition bonf (alpha : b64) (ps : list b64) : list bool :=
  map (bonf_rule (bonf_level alpha (length ps))) ps.

(* Holm: the bin of rank k (from 0) is compared with level/(m-k), strictly *)
Definition holm_level (alpha : b64) (m k : nat) : b64 := fdiv (level alpha) (of_nat (m - k)).
Definition holm_rule (lvl p : b64) : bool := flt p lvl || B64.is_nan p.
Definition holm (alpha : b64) (ps : list b64) : list (b64 * bool) :=
  let m := length ps in
  map (fun pi => let a := holm_level alpha m (rank ple ps (snd pi)) in
                 (a, holm_rule a (fst pi)))
      (index ps).

(* verdict and number of rejected hypotheses *)
Definition verdict (flags : list bool) : bool := negb (existsb (fun b => b) flags).
Definition nb_rejected (flags : list bool) : nat := length (filter (fun b => b) flags).

(* ---------- what a cases file evaluates ---------- *)
(* implementation observation for one p-value array (one compared dataset) *)
Record obs := mk_obs {
  o_blevel : Z;                 (* bonf_signi_level, bits *)
  o_bflags : list bool;         (* rejected_null_hyp, flattened in C order *)
  o_bnb : nat;
  o_halphas : list Z;           (* alphas_i, bits, flattened *)
  o_hflags : list bool;
  o_hnb : nat
}.

Definition triple := (b64 * b64 * bool)%type.
Definition peq (x y : b64) : bool := same_bits x y || feq x y.
Definition triple_eqb (t u : triple) : bool :=
  let '(p, a, f) := t in let '(q, b, g) := u in
  peq p q && same_bits a b && Bool.eqb f g.

Fixpoint remove1 (t : triple) (l : list triple) : option (list triple) :=
  match l with
  | [] => None
  | u :: r => if triple_eqb t u then Some r
              else match remove1 t r with Some r' => Some (u :: r') | None => None end
  end.

Fixpoint multiset_eqb (l1 l2 : list triple) : bool :=
  match l1 with
  | [] => match l2 with [] => true | _ => false end
  | t :: r => match remove1 t l2 with Some l2' => multiset_eqb r l2' | None => false end
  end.

Fixpoint zip3 (ps : list b64) (al : list b64) (fl : list bool) : list triple :=
  match ps, al, fl with
  | p :: ps', a :: al', f :: fl' => (p, a, f) :: zip3 ps' al' fl'
  | _, _, _ => []
  end.

(* Bonferroni is compared position by position.  Holm is compared as the
   multiset of (p-value, level, flag): identical positions when the p-values
   are distinct, any assignment of the ranks inside a group of tied p-values
   otherwise (numpy's default argsort is not stable). *)
Definition check_array (a : b64) (c : list Z * obs) : bool :=
  let '(psz, o) := c in
  let ps := map of_bits psz in
  let m := length ps in
  let bf := bonf a ps in
  let h := holm a ps in
  same_bits (bonf_level a m) (of_bits (o_blevel o))
  && list_eqb Bool.eqb bf (o_bflags o)
  && Nat.eqb (nb_rejected bf) (o_bnb o)
  && Nat.eqb (length (o_halphas o)) m && Nat.eqb (length (o_hflags o)) m
  && multiset_eqb (zip3 ps (map fst h) (map snd h))
                  (zip3 ps (map of_bits (o_halphas o)) (o_hflags o))
  && Nat.eqb (nb_rejected (map snd h)) (o_hnb o).

(* a case: alpha, one (p-values, observation) per compared dataset, bool(result)
   of the Bonferroni and of the Holm-Bonferroni result *)
Definition check_case (c : Z * list (list Z * obs) * bool * bool) : bool :=
  let '(alpha, arrs, bv, hv) := c in
  let a := of_bits alpha in
  forallb (check_array a) arrs
  && Bool.eqb (forallb (fun c => verdict (bonf a (map of_bits (fst c)))) arrs) bv
  && Bool.eqb (forallb (fun c => verdict (map snd (holm a (map of_bits (fst c))))) arrs) hv.

(* levels used by the theorems' side conditions, evaluated on every case:
   level/m <= level/(m-k) <= alpha for every rank k *)
Definition levels_ok (a : b64) (m : nat) : bool :=
  forallb (fun k => fle (bonf_level a m) (holm_level a m k) && fle (holm_level a m k) a)
          (seq 0 m).

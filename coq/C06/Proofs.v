(* C06 proofs: sorting/rank bookkeeping (generic in the key order), then the
   statements about the two corrections on binary64 p-values. *)
From Coq Require Import List ZArith Bool Arith Lia Permutation Sorted Morphisms Reals Lra.
From VV Require Import Lib.Base Lib.B64 C06.LibF C06.Model.
Import ListNotations.

(* ------------------------------------------------------------------ *)
Section SortProofs.
Context {A : Type} (leb : A -> A -> bool).
Hypothesis leb_total : forall x y, leb x y = true \/ leb y x = true.
Hypothesis leb_trans : forall x y z, leb x y = true -> leb y z = true -> leb x z = true.

Implicit Types (ps t : list A).

Definition le2 (x y : A * nat) : Prop := leb (fst x) (fst y) = true.
Definition le1 (x y : A) : Prop := leb x y = true.

Lemma leb_refl x : leb x x = true.
Proof. destruct (leb_total x x); assumption. Qed.

Lemma insert_perm x l : Permutation (insert leb x l) (x :: l).
Proof.
  induction l as [|y r IH]; cbn; [reflexivity|].
  destruct (leb (fst x) (fst y)); [reflexivity|].
  rewrite IH. apply perm_swap.
Qed.

Lemma isort_perm l : Permutation (isort leb l) l.
Proof.
  induction l as [|x r IH]; cbn; [constructor|].
  rewrite insert_perm. now constructor.
Qed.

Lemma insert_sorted x l : StronglySorted le2 l -> StronglySorted le2 (insert leb x l).
Proof.
  induction 1 as [|y r Hr IH Hy]; cbn.
  - constructor; constructor.
  - destruct (leb (fst x) (fst y)) eqn:E.
    + constructor; [constructor; assumption|].
      constructor; [exact E|].
      eapply Forall_impl; [|exact Hy]. intros z Hz. unfold le2 in *. eapply leb_trans; eauto.
    + constructor; [exact IH|].
      assert (Hyx : leb (fst y) (fst x) = true)
        by (destruct (leb_total (fst x) (fst y)); congruence).
      eapply Permutation_Forall; [symmetry; apply insert_perm|].
      constructor; assumption.
Qed.

Lemma isort_sorted l : StronglySorted le2 (isort leb l).
Proof. induction l; cbn; [constructor | now apply insert_sorted]. Qed.

(* ---- index ---- *)
Lemma combine_seq_fst (ps : list A) s : map fst (combine ps (seq s (length ps))) = ps.
Proof. revert s; induction ps as [|p r IH]; intros s; cbn; [reflexivity|]. now rewrite IH. Qed.

Lemma combine_seq_snd (ps : list A) s :
  map snd (combine ps (seq s (length ps))) = seq s (length ps).
Proof. revert s; induction ps as [|p r IH]; intros s; cbn; [reflexivity|]. now rewrite IH. Qed.

Lemma index_fst ps : map fst (index ps) = ps.
Proof. apply combine_seq_fst. Qed.
Lemma index_snd ps : map snd (index ps) = seq 0 (length ps).
Proof. apply combine_seq_snd. Qed.

Lemma nth_error_combine_seq (ps : list A) s i p :
  nth_error ps i = Some p -> nth_error (combine ps (seq s (length ps))) i = Some (p, s + i).
Proof.
  revert s i; induction ps as [|q r IH]; intros s [|i] H; cbn in *; try discriminate.
  - inversion H; subst. now rewrite Nat.add_0_r.
  - rewrite (IH (S s) i H). f_equal. f_equal. lia.
Qed.

Lemma nth_error_index ps i p : nth_error ps i = Some p -> nth_error (index ps) i = Some (p, i).
Proof. intros H. apply (nth_error_combine_seq ps 0 i p H). Qed.

Lemma In_combine_seq (ps : list A) s p i :
  In (p, i) (combine ps (seq s (length ps))) -> s <= i /\ nth_error ps (i - s) = Some p.
Proof.
  revert s; induction ps as [|q r IH]; intros s H; cbn in H; [contradiction|].
  destruct H as [H|H].
  - inversion H; subst. rewrite Nat.sub_diag. split; [lia | reflexivity].
  - apply IH in H. destruct H as [H1 H2]. split; [lia|].
    replace (i - s) with (S (i - S s)) by lia. exact H2.
Qed.

Lemma In_index ps p i : In (p, i) (index ps) -> nth_error ps i = Some p.
Proof. intros H. apply In_combine_seq in H. rewrite Nat.sub_0_r in H. tauto. Qed.

(* ---- argsort is a sorting permutation ---- *)
Lemma argsort_perm ps : Permutation (argsort leb ps) (seq 0 (length ps)).
Proof.
  unfold argsort. rewrite <- index_snd. apply Permutation_map, isort_perm.
Qed.

Lemma argsort_NoDup ps : NoDup (argsort leb ps).
Proof. eapply Permutation_NoDup; [symmetry; apply argsort_perm | apply seq_NoDup]. Qed.

Lemma argsort_length ps : length (argsort leb ps) = length ps.
Proof. rewrite (Permutation_length (argsort_perm ps)). apply seq_length. Qed.

Lemma sorted_entries ps p i : In (p, i) (isort leb (index ps)) -> nth_error ps i = Some p.
Proof. intros H. apply In_index. eapply Permutation_in; [apply isort_perm | exact H]. Qed.

Lemma argsort_keys ps d :
  map (fun i => nth i ps d) (argsort leb ps) = map fst (isort leb (index ps)).
Proof.
  unfold argsort. rewrite map_map. apply map_ext_in. intros [p i] H. cbn.
  apply sorted_entries in H. now apply nth_error_nth.
Qed.

Lemma StronglySorted_map_fst (l : list (A * nat)) :
  StronglySorted le2 l -> StronglySorted le1 (map fst l).
Proof.
  induction 1 as [|x r Hr IH Hx]; cbn; constructor; [exact IH|].
  apply Forall_map. exact Hx.
Qed.

Lemma argsort_sorted ps d :
  StronglySorted le1 (map (fun i => nth i ps d) (argsort leb ps)).
Proof. rewrite argsort_keys. apply StronglySorted_map_fst, isort_sorted. Qed.

Lemma argsort_nth ps k i :
  nth_error (argsort leb ps) k = Some i ->
  exists p, nth_error ps i = Some p /\ nth_error (isort leb (index ps)) k = Some (p, i).
Proof.
  unfold argsort. intros H. rewrite nth_error_map in H.
  destruct (nth_error (isort leb (index ps)) k) as [[p j]|] eqn:E; [|discriminate].
  cbn in H. inversion H; subst. exists p. split; [|reflexivity].
  eapply sorted_entries, nth_error_In, E.
Qed.

(* ---- rank = inverse permutation ---- *)
Lemma index_of_nth i l k :
  NoDup l -> nth_error l k = Some i -> index_of i l = k.
Proof.
  intros Hnd; revert k; induction Hnd as [|j r Hj Hr IH]; intros [|k] H; cbn in *; try discriminate.
  - inversion H; subst. now rewrite Nat.eqb_refl.
  - destruct (Nat.eqb_spec i j) as [->|_].
    + exfalso. apply Hj. eapply nth_error_In, H.
    + f_equal. apply IH, H.
Qed.

Lemma rank_argsort ps k i : nth_error (argsort leb ps) k = Some i -> rank leb ps i = k.
Proof. apply index_of_nth, argsort_NoDup. Qed.

Lemma rank_exists ps i :
  i < length ps -> nth_error (argsort leb ps) (rank leb ps i) = Some i.
Proof.
  intros Hi.
  assert (Hin : In i (argsort leb ps)).
  { eapply Permutation_in; [symmetry; apply argsort_perm|]. apply in_seq. lia. }
  apply In_nth_error in Hin. destruct Hin as [k Hk].
  now rewrite (rank_argsort _ _ _ Hk).
Qed.

Lemma rank_lt ps i : i < length ps -> rank leb ps i < length ps.
Proof.
  intros Hi. pose proof (rank_exists ps i Hi) as Hr.
  assert (H : nth_error (argsort leb ps) (rank leb ps i) <> None) by congruence.
  apply nth_error_Some in H. now rewrite argsort_length in H.
Qed.

(* ---- where a key can stand in a sorted list ---- *)
Lemma filter_none {X} (f : X -> bool) l : Forall (fun x => f x = false) l -> filter f l = [].
Proof. induction 1 as [|x r Hx _ IH]; cbn; [reflexivity|]. now rewrite Hx. Qed.

Lemma filter_length_perm {X} (f : X -> bool) l l' :
  Permutation l l' -> length (filter f l) = length (filter f l').
Proof.
  induction 1 as [|x l l' _ IH|x y l|l l' l'' _ IH1 _ IH2]; cbn.
  - reflexivity.
  - destruct (f x); cbn; congruence.
  - destruct (f x), (f y); reflexivity.
  - congruence.
Qed.

Lemma count_lt_perm l l' x : Permutation l l' -> count_lt leb l x = count_lt leb l' x.
Proof. apply filter_length_perm. Qed.
Lemma count_le_perm l l' x : Permutation l l' -> count_le leb l x = count_le leb l' x.
Proof. apply filter_length_perm. Qed.

Lemma sorted_position t :
  StronglySorted le1 t -> forall k p, nth_error t k = Some p ->
  count_lt leb t p <= k /\ k < count_le leb t p.
Proof.
  induction 1 as [|a r Hr IH Ha]; intros [|k] p H; cbn in H; try discriminate.
  - inversion H; subst. unfold count_lt, count_le. cbn. rewrite leb_refl. cbn.
    rewrite filter_none; [cbn; lia|].
    eapply Forall_impl; [|exact Ha]. intros q Hq. unfold le1 in Hq. now rewrite Hq.
  - destruct (IH k p H) as [H1 H2]. unfold count_lt, count_le in *. cbn.
    assert (Hap : leb a p = true).
    { rewrite Forall_forall in Ha. apply Ha. eapply nth_error_In, H. }
    rewrite Hap. cbn. destruct (negb (leb p a)); cbn; lia.
Qed.

Lemma rank_bounds ps k i :
  nth_error (argsort leb ps) k = Some i ->
  exists p, nth_error ps i = Some p /\ count_lt leb ps p <= k /\ k < count_le leb ps p.
Proof.
  intros H. destruct (argsort_nth _ _ _ H) as [p [Hp Hk]]. exists p. split; [exact Hp|].
  assert (Hperm : Permutation (map fst (isort leb (index ps))) ps).
  { rewrite <- (index_fst ps) at 2. apply Permutation_map, isort_perm. }
  rewrite <- (count_lt_perm _ _ p Hperm), <- (count_le_perm _ _ p Hperm).
  apply sorted_position.
  - apply StronglySorted_map_fst, isort_sorted.
  - rewrite nth_error_map, Hk. reflexivity.
Qed.

Lemma rank_tiefree ps i p :
  nth_error ps i = Some p -> count_le leb ps p = S (count_lt leb ps p) ->
  rank leb ps i = count_lt leb ps p.
Proof.
  intros Hp Ht.
  assert (Hi : i < length ps) by (apply nth_error_Some; congruence).
  pose proof (rank_exists ps i Hi) as Hr.
  destruct (rank_bounds _ _ _ Hr) as [q [Hq [H1 H2]]].
  assert (q = p) by congruence. subst q. lia.
Qed.
End SortProofs.

(* ------------------------------------------------------------------ *)
(* the corrections on binary64 *)

Lemma nth_error_holm alpha ps i p :
  nth_error ps i = Some p ->
  nth_error (holm alpha ps) i =
  Some (holm_level alpha (length ps) (rank ple ps i),
        holm_rule (holm_level alpha (length ps) (rank ple ps i)) p).
Proof.
  intros H. unfold holm. rewrite nth_error_map, (nth_error_index ps i p H). reflexivity.
Qed.

(* Bonferroni: the bin at position i is flagged iff p_i <= level/m, or p_i is NaN *)
Lemma bonf_flag_iff alpha ps i p :
  nth_error ps i = Some p ->
  nth_error (bonf alpha ps) i
  = Some (fle p (fdiv (fdiv alpha ftwo) (of_nat (length ps))) || B64.is_nan p).
Proof.
  intros H. unfold bonf. rewrite nth_error_map, H. reflexivity.
Qed.

Lemma bonf_length alpha ps : length (bonf alpha ps) = length ps.
Proof. unfold bonf. apply map_length. Qed.

Lemma holm_length alpha ps : length (holm alpha ps) = length ps.
Proof.
  unfold holm, index. rewrite map_length, combine_length, seq_length. apply Nat.min_id.
Qed.

(* Holm-Bonferroni: there is a permutation sigma of the positions that sorts the
   p-values increasingly (NaN last) such that the bin of rank k (from 0), which
   stands at position sigma(k), gets the level level/(m-k) and is flagged iff its
   p-value is below that level (or NaN); level and flag are reported at position
   sigma(k) of the output. *)
Lemma holm_flag_by_rank alpha ps :
  let m := length ps in
  exists sigma : list nat,
    Permutation sigma (seq 0 m) /\
    StronglySorted (fun x y => ple x y = true) (map (fun i => nth i ps fnan) sigma) /\
    forall k i, nth_error sigma k = Some i ->
      exists p, nth_error ps i = Some p /\
        count_lt ple ps p <= k < count_le ple ps p /\
        nth_error (holm alpha ps) i =
        Some (fdiv (fdiv alpha ftwo) (of_nat (m - k)),
              flt p (fdiv (fdiv alpha ftwo) (of_nat (m - k))) || B64.is_nan p).
Proof.
  intros m. exists (argsort ple ps). split; [|split].
  - apply argsort_perm.
  - apply (argsort_sorted ple ple_total ple_trans).
  - intros k i Hk.
    destruct (rank_bounds ple ple_total ple_trans _ _ _ Hk) as [p [Hp Hb]].
    exists p. split; [exact Hp|]. split; [exact Hb|].
    rewrite (nth_error_holm alpha ps i p Hp), (rank_argsort ple ps k i Hk). reflexivity.
Qed.

(* the sorting permutation is unique on tie-free bins: rank = number of strictly
   smaller p-values, whatever the position of the bin *)
Lemma holm_tiefree alpha ps i p :
  nth_error ps i = Some p ->
  count_le ple ps p = S (count_lt ple ps p) ->
  nth_error (holm alpha ps) i =
  Some (holm_level alpha (length ps) (count_lt ple ps p),
        holm_rule (holm_level alpha (length ps) (count_lt ple ps p)) p).
Proof.
  intros Hp Ht. rewrite (nth_error_holm alpha ps i p Hp).
  now rewrite (rank_tiefree ple ple_total ple_trans ps i p Hp Ht).
Qed.

(* flags follow the bins under any permutation (hence any reshaping) of the bins *)
Lemma flags_follow_bins alpha ps qs i j p :
  Permutation ps qs ->
  nth_error ps i = Some p -> nth_error qs j = Some p ->
  nth_error (bonf alpha ps) i = nth_error (bonf alpha qs) j /\
  (count_le ple ps p = S (count_lt ple ps p) ->
   nth_error (holm alpha ps) i = nth_error (holm alpha qs) j).
Proof.
  intros Hperm Hi Hj. split.
  - rewrite (bonf_flag_iff alpha ps i p Hi), (bonf_flag_iff alpha qs j p Hj).
    now rewrite (Permutation_length Hperm).
  - intros Ht.
    rewrite (holm_tiefree alpha ps i p Hi Ht).
    rewrite (holm_tiefree alpha qs j p Hj).
    + rewrite (Permutation_length Hperm), (count_lt_perm ple ps qs p Hperm). reflexivity.
    + now rewrite <- (count_lt_perm ple ps qs p Hperm), <- (count_le_perm ple ps qs p Hperm).
Qed.

(* verdict and count *)
Lemma verdict_iff_none_flagged flags :
  verdict flags = true <-> forall i, nth_error flags i <> Some true.
Proof.
  unfold verdict. rewrite negb_true_iff. split.
  - intros H i Hi. apply nth_error_In in Hi.
    assert (existsb (fun b => b) flags = true) by (apply existsb_exists; exists true; auto).
    congruence.
  - intros H. destruct (existsb (fun b => b) flags) eqn:E; [|reflexivity].
    apply existsb_exists in E. destruct E as [b [Hb ->]].
    apply In_nth_error in Hb. destruct Hb as [i Hi]. exfalso. exact (H i Hi).
Qed.

Lemma verdict_iff_nb_zero flags : verdict flags = true <-> nb_rejected flags = 0.
Proof.
  unfold verdict, nb_rejected. induction flags as [|b r IH]; cbn; [tauto|].
  destruct b; cbn; [split; [discriminate | lia] | exact IH].
Qed.

(* a bin without a defined p-value is never accepted *)
Lemma nan_never_accepted alpha ps i :
  nth_error ps i = Some fnan ->
  nth_error (bonf alpha ps) i = Some true /\
  (exists a, nth_error (holm alpha ps) i = Some (a, true)) /\
  verdict (bonf alpha ps) = false /\ verdict (map snd (holm alpha ps)) = false.
Proof.
  intros H.
  assert (Hb : nth_error (bonf alpha ps) i = Some true).
  { rewrite (bonf_flag_iff alpha ps i fnan H). f_equal; try apply orb_true_r. }
  assert (Hh : nth_error (holm alpha ps) i
               = Some (holm_level alpha (length ps) (rank ple ps i), true)).
  { rewrite (nth_error_holm alpha ps i fnan H). unfold holm_rule. do 2 f_equal; try apply orb_true_r. }
  split; [exact Hb|]. split; [eexists; exact Hh|]. split.
  - destruct (verdict (bonf alpha ps)) eqn:E; [|reflexivity].
    pose proof (proj1 (verdict_iff_none_flagged _) E) as E'. exfalso. exact (E' i Hb).
  - destruct (verdict (map snd (holm alpha ps))) eqn:E; [|reflexivity].
    pose proof (proj1 (verdict_iff_none_flagged _) E) as E'. exfalso. apply (E' i).
    rewrite nth_error_map, Hh. reflexivity.
Qed.

(* side condition on the levels: level/m <= level/(m-k) <= alpha for every rank *)
Lemma levels_ok_spec a m k :
  levels_ok a m = true -> k < m ->
  fle (bonf_level a m) (holm_level a m k) = true /\ fle (holm_level a m k) a = true.
Proof.
  unfold levels_ok. rewrite forallb_forall. intros H Hk.
  specialize (H k). rewrite in_seq in H. apply andb_true_iff. apply H. lia.
Qed.

(* every bin flagged by Bonferroni is flagged by Holm-Bonferroni -- except a bin
   whose p-value equals level/m exactly (there the two definitions disagree) *)
Lemma bonf_subset_holm_partial alpha ps i p :
  levels_ok alpha (length ps) = true ->
  nth_error ps i = Some p ->
  nth_error (bonf alpha ps) i = Some true ->
  feq p (bonf_level alpha (length ps)) = false ->
  exists a, nth_error (holm alpha ps) i = Some (a, true).
Proof.
  intros Hl Hp Hb Hne.
  assert (Hi : i < length ps) by (apply nth_error_Some; congruence).
  rewrite (bonf_flag_iff alpha ps i p Hp) in Hb. injection Hb as Hb'.
  rewrite (nth_error_holm alpha ps i p Hp). eexists. f_equal. f_equal.
  unfold holm_rule. apply orb_true_iff in Hb'. destruct Hb' as [Hle|Hn]; [|now rewrite Hn, orb_true_r].
  apply orb_true_iff. left.
  set (k := rank ple ps i).
  assert (Hk : k < length ps) by (apply rank_lt, Hi).
  destruct (levels_ok_spec alpha (length ps) k Hl Hk) as [Hmono _].
  change (fdiv (fdiv alpha ftwo) (of_nat (length ps))) with (bonf_level alpha (length ps)) in Hle.
  destruct (fle_true_not_nan _ _ Hle) as [Np Nl].
  destruct (fle_true_not_nan _ _ Hmono) as [_ Nh].
  apply fle_R in Hle; auto. apply fle_R in Hmono; auto.
  assert (Hne' : xR p <> xR (bonf_level alpha (length ps))).
  { intros E. apply feq_R in E; auto. congruence. }
  apply flt_R; auto. lra.
Qed.

(* a comparison whose p-values all exceed alpha (the p-value decision of the
   first test, which agrees with its bin-by-bin verdict: C05) passes both
   corrections at the same alpha *)
Lemma pass_implies_corrections_pass alpha ps :
  levels_ok alpha (length ps) = true ->
  (forall i p, nth_error ps i = Some p -> flt alpha p = true) ->
  verdict (bonf alpha ps) = true /\ verdict (map snd (holm alpha ps)) = true.
Proof.
  intros Hl Hall.
  assert (Hk : forall i, i < length ps -> rank ple ps i < length ps) by (intros; now apply rank_lt).
  split; apply verdict_iff_none_flagged; intros i Hi.
  - assert (Hlen : i < length ps).
    { rewrite <- (bonf_length alpha ps). apply nth_error_Some. congruence. }
    destruct (nth_error ps i) as [p|] eqn:Hp; [|apply nth_error_None in Hp; lia].
    rewrite (bonf_flag_iff alpha ps i p Hp) in Hi. injection Hi as Hi'.
    specialize (Hall i p Hp). destruct (flt_true_not_nan _ _ Hall) as [Na Np].
    rewrite Np, orb_false_r in Hi'.
    destruct (levels_ok_spec alpha (length ps) (rank ple ps i) Hl (Hk i Hlen)) as [H1 H2].
    destruct (fle_true_not_nan _ _ H1) as [Nb Nh].
    change (fdiv (fdiv alpha ftwo) (of_nat (length ps))) with (bonf_level alpha (length ps)) in Hi'.
    apply fle_R in Hi'; auto. apply fle_R in H1; auto. apply fle_R in H2; auto.
    apply flt_R in Hall; auto. lra.
  - rewrite nth_error_map in Hi.
    assert (Hlen : i < length ps).
    { rewrite <- (holm_length alpha ps). apply nth_error_Some.
      destruct (nth_error (holm alpha ps) i); [discriminate | discriminate]. }
    destruct (nth_error ps i) as [p|] eqn:Hp; [|apply nth_error_None in Hp; lia].
    rewrite (nth_error_holm alpha ps i p Hp) in Hi. cbn in Hi. injection Hi as Hi'.
    specialize (Hall i p Hp). destruct (flt_true_not_nan _ _ Hall) as [Na Np].
    unfold holm_rule in Hi'. rewrite Np, orb_false_r in Hi'.
    destruct (levels_ok_spec alpha (length ps) (rank ple ps i) Hl (Hk i Hlen)) as [H1 H2].
    destruct (fle_true_not_nan _ _ H2) as [Nh _].
    apply flt_R in Hi'; auto. apply fle_R in H2; auto. apply flt_R in Hall; auto. lra.
Qed.

(* Order facts on binary64 (Flocq BinarySingleNaN) used by C05, C06, C07.
   Non-NaN values are embedded in R ([xR]: finite values by B2R, the two
   infinities by +-2^1024) so that every comparison of the models becomes a
   comparison of reals.  Rests on Flocq's Bcompare_correct (hence on the
   standard library's axioms of the reals). *)
From Coq Require Import ZArith Reals Bool List Lia Lra.
From Flocq Require Import Core.Core IEEE754.BinarySingleNaN.
From VV Require Import Lib.B64.
Import ListNotations.
Local Open Scope R_scope.

Definition big : R := bpow radix2 1024.
Arguments big : simpl never.

Definition xR (x : b64) : R :=
  match x with
  | B754_infinity false => big
  | B754_infinity true => - big
  | _ => B2R x
  end.

Lemma big_pos : 0 < big.
Proof. apply bpow_gt_0. Qed.

Lemma B2R_lt_big (x : b64) : - big < B2R x < big.
Proof.
  pose proof (abs_B2R_lt_emax 53 1024 x) as H. apply Rabs_def2 in H.
  unfold big. lra.
Qed.

Lemma fcmp_nan_l y : fcmp fnan y = None.
Proof. destruct y as [s|s| |s m e H]; try destruct s; reflexivity. Qed.

Lemma fcmp_nan_r x : fcmp x fnan = None.
Proof. destruct x as [s|s| |s m e H]; try destruct s; reflexivity. Qed.

Lemma is_nan_true (x : b64) : B64.is_nan x = true -> x = fnan.
Proof. destruct x; cbn; intros H; try discriminate H; reflexivity. Qed.

Lemma fcmp_xR (x y : b64) :
  B64.is_nan x = false -> B64.is_nan y = false ->
  fcmp x y = Some (Rcompare (xR x) (xR y)).
Proof.
  intros Hx Hy. pose proof big_pos as Hb.
  destruct x as [sx|sx| |sx mx ex Bx]; try discriminate;
  destruct y as [sy|sy| |sy my ey By]; try discriminate.
  - (* zero zero *) apply (Bcompare_correct 53 1024); reflexivity.
  - (* zero inf *)
    destruct sy; cbn; f_equal; symmetry;
      [apply Rcompare_Gt | apply Rcompare_Lt]; lra.
  - apply (Bcompare_correct 53 1024); reflexivity.
  - destruct sx; cbn; f_equal; symmetry;
      [apply Rcompare_Lt | apply Rcompare_Gt]; lra.
  - destruct sx, sy; cbn; f_equal; symmetry;
      [apply Rcompare_Eq | apply Rcompare_Lt | apply Rcompare_Gt | apply Rcompare_Eq]; lra.
  - pose proof (B2R_lt_big (B754_finite sy my ey By)) as Hy'.
    destruct sx; cbn -[B2R]; unfold xR; f_equal; symmetry;
      [apply Rcompare_Lt | apply Rcompare_Gt]; cbn -[B2R big]; lra.
  - apply (Bcompare_correct 53 1024); reflexivity.
  - pose proof (B2R_lt_big (B754_finite sx mx ex Bx)) as Hx'.
    destruct sy; cbn -[B2R]; unfold xR; f_equal; symmetry;
      [apply Rcompare_Gt | apply Rcompare_Lt]; cbn -[B2R big]; lra.
  - apply (Bcompare_correct 53 1024); reflexivity.
Qed.

(* ---- comparisons with a NaN operand are false ---- *)
Lemma flt_nan_l y : flt fnan y = false.
Proof. unfold flt. now rewrite fcmp_nan_l. Qed.
Lemma flt_nan_r x : flt x fnan = false.
Proof. unfold flt. now rewrite fcmp_nan_r. Qed.
Lemma fle_nan_l y : fle fnan y = false.
Proof. unfold fle. now rewrite fcmp_nan_l. Qed.
Lemma fle_nan_r x : fle x fnan = false.
Proof. unfold fle. now rewrite fcmp_nan_r. Qed.
Lemma feq_nan_l y : feq fnan y = false.
Proof. unfold feq. now rewrite fcmp_nan_l. Qed.
Lemma feq_nan_r x : feq x fnan = false.
Proof. unfold feq. now rewrite fcmp_nan_r. Qed.

Lemma flt_true_not_nan x y : flt x y = true -> B64.is_nan x = false /\ B64.is_nan y = false.
Proof.
  intros H. split.
  - destruct (B64.is_nan x) eqn:E; [|reflexivity].
    apply is_nan_true in E; subst. now rewrite flt_nan_l in H.
  - destruct (B64.is_nan y) eqn:E; [|reflexivity].
    apply is_nan_true in E; subst. now rewrite flt_nan_r in H.
Qed.

Lemma fle_true_not_nan x y : fle x y = true -> B64.is_nan x = false /\ B64.is_nan y = false.
Proof.
  intros H. split.
  - destruct (B64.is_nan x) eqn:E; [|reflexivity].
    apply is_nan_true in E; subst. now rewrite fle_nan_l in H.
  - destruct (B64.is_nan y) eqn:E; [|reflexivity].
    apply is_nan_true in E; subst. now rewrite fle_nan_r in H.
Qed.

(* ---- comparisons of non-NaN values are comparisons of reals ---- *)
Section NonNan.
Variables x y : b64.
Hypothesis Hx : B64.is_nan x = false.
Hypothesis Hy : B64.is_nan y = false.

Lemma flt_R : flt x y = true <-> xR x < xR y.
Proof.
  unfold flt. rewrite (fcmp_xR x y Hx Hy).
  destruct (Rcompare_spec (xR x) (xR y)); split; intros; try discriminate; try lra; reflexivity.
Qed.

Lemma fle_R : fle x y = true <-> xR x <= xR y.
Proof.
  unfold fle. rewrite (fcmp_xR x y Hx Hy).
  destruct (Rcompare_spec (xR x) (xR y)); split; intros; try discriminate; try lra; reflexivity.
Qed.

Lemma feq_R : feq x y = true <-> xR x = xR y.
Proof.
  unfold feq. rewrite (fcmp_xR x y Hx Hy).
  destruct (Rcompare_spec (xR x) (xR y)); split; intros; try discriminate; try lra; reflexivity.
Qed.

Lemma flt_false_R : flt x y = false <-> xR y <= xR x.
Proof.
  destruct (flt x y) eqn:E.
  - apply flt_R in E. split; [discriminate | lra].
  - split; [intros _ | reflexivity].
    destruct (Rle_or_lt (xR y) (xR x)) as [H|H]; [exact H|].
    apply flt_R in H. congruence.
Qed.

Lemma fle_false_R : fle x y = false <-> xR y < xR x.
Proof.
  destruct (fle x y) eqn:E.
  - apply fle_R in E. split; [discriminate | lra].
  - split; [intros _ | reflexivity].
    destruct (Rlt_or_le (xR y) (xR x)) as [H|H]; [exact H|].
    apply fle_R in H. congruence.
Qed.
End NonNan.

(* |x| *)
Lemma is_nan_fabs x : B64.is_nan (fabs x) = B64.is_nan x.
Proof. destruct x; reflexivity. Qed.

Lemma xR_fabs x : xR (fabs x) = Rabs (xR x).
Proof.
  pose proof big_pos.
  destruct x as [s|s| |s m e Hb]; cbn -[B2R big].
  - cbn. now rewrite Rabs_R0.
  - destruct s; [rewrite Rabs_Ropp|]; rewrite Rabs_pos_eq; lra.
  - cbn. now rewrite Rabs_R0.
  - change (B2R (Babs (B754_finite s m e Hb)) = Rabs (B2R (B754_finite s m e Hb))).
    apply B2R_Babs.
Qed.

Lemma fabs_fneg x : fabs (fneg x) = fabs x.
Proof. apply Babs_Bopp. Qed.

(* the total pre-order "numeric, NaN last" realised by numpy's sort *)
Definition ple (x y : b64) : bool :=
  B64.is_nan y || (negb (B64.is_nan x) && fle x y).

Lemma ple_total x y : ple x y = true \/ ple y x = true.
Proof.
  unfold ple.
  destruct (B64.is_nan y) eqn:Ey; [left; reflexivity|].
  destruct (B64.is_nan x) eqn:Ex; [right; reflexivity|].
  cbn. destruct (Rle_or_lt (xR x) (xR y)) as [H|H].
  - left. now apply fle_R.
  - right. apply fle_R; auto. lra.
Qed.

Lemma ple_trans x y z : ple x y = true -> ple y z = true -> ple x z = true.
Proof.
  unfold ple.
  destruct (B64.is_nan z) eqn:Ez; [reflexivity|].
  destruct (B64.is_nan y) eqn:Ey; [cbn; intros _ H; discriminate H|].
  destruct (B64.is_nan x) eqn:Ex; [cbn; intros H; discriminate|].
  cbn. intros H1 H2. apply fle_R in H1; auto. apply fle_R in H2; auto.
  apply fle_R; auto. lra.
Qed.

Lemma ple_refl x : ple x x = true.
Proof. destruct (ple_total x x); assumption. Qed.

(* natural number -> binary64 (exact below 2^53, correctly rounded above) *)
Definition of_nat (n : nat) : b64 :=
  binary_normalize 53 1024 P53 P1024 mode_NE (Z.of_nat n) 0 false.
Definition ftwo : b64 := of_nat 2.

(* ---- NaN propagates through the arithmetic operations ---- *)
Lemma fsub_nan_l y : fsub fnan y = fnan. Proof. destruct y as [s|s| |s m e H]; reflexivity. Qed.
Lemma fsub_nan_r x : fsub x fnan = fnan. Proof. destruct x as [s|s| |s m e H]; reflexivity. Qed.
Lemma fadd_nan_l y : fadd fnan y = fnan. Proof. destruct y as [s|s| |s m e H]; reflexivity. Qed.
Lemma fadd_nan_r x : fadd x fnan = fnan. Proof. destruct x as [s|s| |s m e H]; reflexivity. Qed.
Lemma fmul_nan_l y : fmul fnan y = fnan. Proof. destruct y as [s|s| |s m e H]; reflexivity. Qed.
Lemma fmul_nan_r x : fmul x fnan = fnan. Proof. destruct x as [s|s| |s m e H]; reflexivity. Qed.
Lemma fdiv_nan_l y : fdiv fnan y = fnan. Proof. destruct y as [s|s| |s m e H]; reflexivity. Qed.
Lemma fdiv_nan_r x : fdiv x fnan = fnan. Proof. destruct x as [s|s| |s m e H]; reflexivity. Qed.
Lemma fsqrt_nan : fsqrt fnan = fnan. Proof. reflexivity. Qed.
Lemma fabs_nan : fabs fnan = fnan. Proof. reflexivity. Qed.

(* relative closeness for values computed along different evaluation orders:
   identical (canonical NaN, same infinity, same zero sign), or both finite and
   |x - y| <= 2^-40 max(|x|, |y|).  (Lib.B64.close also accepts inf ~ finite.) *)
Definition close2 (x y : b64) : bool :=
  same_bits x y
  || (is_finite x && is_finite y
      && fle (fabs (fsub x y))
             (fmul (of_bits 4427038433705197568)
                   (if fle (fabs x) (fabs y) then fabs y else fabs x))).

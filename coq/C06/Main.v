(* C06: final statements (side condition on the levels discharged by Levels.v) *)
From Coq Require Import List ZArith Bool Arith Lia Reals Lra.
From Flocq Require Import Core.Core IEEE754.BinarySingleNaN.
From VV Require Import Lib.Base Lib.B64 C06.LibF C06.Model C06.Proofs C06.Levels.
Import ListNotations.

(* the flag rules read on real numbers (xR: finite values by B2R, +-inf by +-2^1024) *)
Lemma flag_rules_on_reals (lvl p : b64) :
  B64.is_nan lvl = false ->
  (B64.is_nan p = true -> bonf_rule lvl p = true /\ holm_rule lvl p = true) /\
  (B64.is_nan p = false ->
     (bonf_rule lvl p = true <-> (xR p <= xR lvl)%R) /\
     (holm_rule lvl p = true <-> (xR p < xR lvl)%R)).
Proof.
  intros Nl. unfold bonf_rule, holm_rule. split.
  - intros ->. now rewrite !orb_true_r.
  - intros Np. rewrite Np, !orb_false_r. split; [now apply fle_R | now apply flt_R].
Qed.

Lemma bonf_subset_holm_partial' alpha ps i p :
  is_finite alpha = true -> (0 <= B2R alpha)%R -> (Z.of_nat (length ps) < 2 ^ 53)%Z ->
  nth_error ps i = Some p ->
  nth_error (bonf alpha ps) i = Some true ->
  feq p (bonf_level alpha (length ps)) = false ->
  exists a, nth_error (holm alpha ps) i = Some (a, true).
Proof.
  intros Fa Pa Hm. apply bonf_subset_holm_partial. now apply levels_ok_holds.
Qed.

Lemma pass_implies_corrections_pass' alpha ps :
  is_finite alpha = true -> (0 <= B2R alpha)%R -> (Z.of_nat (length ps) < 2 ^ 53)%Z ->
  (forall i p, nth_error ps i = Some p -> flt alpha p = true) ->
  verdict (bonf alpha ps) = true /\ verdict (map snd (holm alpha ps)) = true.
Proof.
  intros Fa Pa Hm. apply pass_implies_corrections_pass. now apply levels_ok_holds.
Qed.

Lemma verdict_spec flags :
  (verdict flags = true <-> forall i, nth_error flags i <> Some true) /\
  (verdict flags = true <-> nb_rejected flags = 0).
Proof. split; [apply verdict_iff_none_flagged | apply verdict_iff_nb_zero]. Qed.

(* C05: the Student statistic is symmetric in the two datasets up to its sign,
   bit for bit and for ALL binary64 inputs (NaN, infinities, overflow included):
       fabs (student_t v1 e1 v2 e2) = fabs (student_t v2 e2 v1 e1).
   Structural proof on Flocq's definitions: in round-to-nearest-even the sign of
   the operands never influences the magnitude of a result. *)
From Coq Require Import List ZArith Bool Lia.
From Flocq Require Import Core.Core IEEE754.BinarySingleNaN.
From Coq Require Floats.SpecFloat.
From VV Require Import Lib.B64 C06.LibF C05.Model.
Import SpecFloat(spec_float, S754_zero, S754_infinity, S754_nan, S754_finite, shr_fexp, shr_m, loc_Exact, SFdiv_core_binary).

Definition sf_abs (x : spec_float) : spec_float :=
  match x with
  | S754_zero _ => S754_zero false
  | S754_infinity _ => S754_infinity false
  | S754_nan => S754_nan
  | S754_finite _ m e => S754_finite false m e
  end.

(* equal up to the sign *)
Definition aeq (x y : b64) : Prop := sf_abs (B2SF x) = sf_abs (B2SF y).

Lemma B2SF_fabs (x : b64) : B2SF (fabs x) = sf_abs (B2SF x).
Proof. destruct x; reflexivity. Qed.

Lemma aeq_fabs x y : aeq x y -> fabs x = fabs y.
Proof. intros H. apply B2SF_inj. now rewrite !B2SF_fabs. Qed.

Lemma aeq_refl x : aeq x x.
Proof. reflexivity. Qed.

Lemma round_aux_sign s s' m e l :
  sf_abs (binary_round_aux 53 1024 mode_NE s m e l)
  = sf_abs (binary_round_aux 53 1024 mode_NE s' m e l).
Proof.
  unfold binary_round_aux.
  destruct (shr_fexp 53 1024 m e l) as [mrs e'].
  cbn [choice_mode].
  destruct (shr_fexp 53 1024 _ e' loc_Exact) as [mrs2 e2].
  destruct (shr_m mrs2); try reflexivity.
  unfold binary_fit_aux, binary_overflow. cbn [overflow_to_inf].
  destruct (Zle_bool e2 (1024 - 53)); reflexivity.
Qed.

Lemma normalize_opp M e sz :
  aeq (binary_normalize 53 1024 P53 P1024 mode_NE (- M) e sz)
      (binary_normalize 53 1024 P53 P1024 mode_NE M e sz).
Proof.
  unfold aeq. destruct M as [|p|p]; cbn [Z.opp binary_normalize]; [reflexivity| |];
    rewrite !B2SF_SF2B; unfold binary_round;
    destruct (shl_align_fexp 53 1024 p e) as [mz ez]; apply round_aux_sign.
Qed.

Lemma Fplus_naive_swap sx mx ex sy my ey ez :
  Fplus_naive sy my ey (negb sx) mx ex ez = (- Fplus_naive sx mx ex (negb sy) my ey ez)%Z.
Proof. unfold Fplus_naive. destruct sx, sy; cbn [cond_Zopp negb]; lia. Qed.

Lemma Fplus_naive_comm sx mx ex sy my ey ez :
  Fplus_naive sx mx ex sy my ey ez = Fplus_naive sy my ey sx mx ex ez.
Proof. unfold Fplus_naive. apply Z.add_comm. Qed.

(* a - b and b - a differ at most by the sign *)
Lemma aeq_fsub a b : aeq (fsub a b) (fsub b a).
Proof.
  unfold aeq, fsub.
  destruct a as [sa|sa| |sa ma ea Ha]; destruct b as [sb|sb| |sb mb eb Hb];
    unfold Bminus; cbv iota beta;
    try reflexivity; try (destruct sa, sb; reflexivity).
  cbv zeta. rewrite (Z.min_comm eb ea), Fplus_naive_swap. apply normalize_opp.
Qed.

Lemma fadd_comm x y : fadd x y = fadd y x.
Proof.
  unfold fadd.
  destruct x as [sx|sx| |sx mx ex Hx]; destruct y as [sy|sy| |sy my ey Hy];
    unfold Bplus; cbv iota beta;
    try reflexivity; try (destruct sx, sy; reflexivity).
  cbv zeta. now rewrite (Z.min_comm ey ex), Fplus_naive_comm.
Qed.

(* the magnitude of a quotient depends on the magnitude of the numerator only *)
Lemma aeq_fdiv x x' d : aeq x x' -> aeq (fdiv x d) (fdiv x' d).
Proof.
  unfold aeq, fdiv. intros H.
  destruct x as [sx|sx| |sx mx ex Hx]; destruct x' as [sx'|sx'| |sx' mx' ex' Hx'];
    cbn [B2SF sf_abs] in H; try discriminate H;
    destruct d as [sd|sd| |sd md ed Hd]; unfold Bdiv; cbv iota beta; try reflexivity.
  injection H as -> ->.
  rewrite !B2SF_SF2B.
  destruct (SFdiv_core_binary 53 1024 (Z.pos mx') ex' (Z.pos md) ed) as [[mz ez] lz].
  apply round_aux_sign.
Qed.

Lemma aeq_feq_zero x x' : aeq x x' -> feq x fzero = feq x' fzero.
Proof.
  unfold aeq. intros H.
  destruct x as [sx|sx| |sx mx ex Hx]; destruct x' as [sx'|sx'| |sx' mx' ex' Hx'];
    cbn [B2SF sf_abs] in H; try discriminate H; try reflexivity;
    try (destruct sx, sx'; reflexivity).
Qed.

Lemma patched_sym v1 e1 v2 e2 : patched v1 e1 v2 e2 = patched v2 e2 v1 e1.
Proof.
  unfold patched. cbn [evalB diff_value diff_error env_of].
  rewrite (fadd_comm (fmul e2 e2) (fmul e1 e1)).
  rewrite (aeq_feq_zero _ _ (aeq_fsub v2 v1)).
  rewrite (andb_comm (B64.is_nan v2) (B64.is_nan v1)).
  rewrite <- !andb_assoc. rewrite (andb_comm (B64.is_nan e2) (B64.is_nan e1)).
  reflexivity.
Qed.

Theorem abs_t_symmetric v1 e1 v2 e2 :
  fabs (student_t v1 e1 v2 e2) = fabs (student_t v2 e2 v1 e1).
Proof.
  unfold student_t. rewrite (patched_sym v2 e2 v1 e1).
  destruct (patched v1 e1 v2 e2); [reflexivity|].
  apply aeq_fabs. cbn [evalB t_expr diff_value diff_error env_of].
  rewrite (fadd_comm (fmul e2 e2) (fmul e1 e1)).
  apply aeq_fdiv, aeq_fsub.
Qed.

(* hence identical oracles and verdicts *)
Corollary oracle_symmetric thr v1 e1 v2 e2 :
  oracle thr (student_t v1 e1 v2 e2) = oracle thr (student_t v2 e2 v1 e1).
Proof. unfold oracle. now rewrite abs_t_symmetric. Qed.

(* whole comparisons: a bin is (v1, e1, v2, e2); swapping the two datasets in every bin
   leaves every oracle and the verdict unchanged *)
Definition bin4 : Type := (b64 * b64 * b64 * b64)%type.
Definition t_of (b : bin4) : b64 := let '(v1, e1, v2, e2) := b in student_t v1 e1 v2 e2.
Definition swap (b : bin4) : bin4 := let '(v1, e1, v2, e2) := b in (v2, e2, v1, e1).

Lemma forallb_map {A B} (f : B -> bool) (g : A -> B) l :
  forallb f (List.map g l) = forallb (fun x => f (g x)) l.
Proof. induction l as [|a r IH]; cbn; [reflexivity|]. now rewrite IH. Qed.

Lemma forallb_ext' {A} (f g : A -> bool) l : (forall x, f x = g x) -> forallb f l = forallb g l.
Proof. intros H. induction l as [|a r IH]; cbn; [reflexivity|]. now rewrite H, IH. Qed.

Corollary verdict_symmetric thr (dss : list (list bin4)) :
  List.map (List.map (fun b => oracle thr (t_of b))) dss
  = List.map (List.map (fun b => oracle thr (t_of (swap b)))) dss /\
  verdict thr (List.map (List.map t_of) dss)
  = verdict thr (List.map (List.map (fun b => t_of (swap b))) dss).
Proof.
  assert (H : forall b, oracle thr (t_of b) = oracle thr (t_of (swap b))).
  { intros [[[v1 e1] v2] e2]. apply oracle_symmetric. }
  split.
  - apply List.map_ext. intros ds. apply List.map_ext. exact H.
  - unfold verdict. rewrite !forallb_map. apply forallb_ext'. intros ds.
    rewrite !forallb_map. apply forallb_ext'. exact H.
Qed.

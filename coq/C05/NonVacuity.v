(* C05: hypotheses of the theorems are satisfiable; witness of the unfixed test_pvalue *)
From Coq Require Import List ZArith Bool Reals Lra.
From Flocq Require Import Core.Core IEEE754.BinarySingleNaN.
From VV Require Import Lib.Base Lib.B64 C06.LibF C05.Model C05.Proofs C05.Laws C05.Rounding C05.Symmetry C05.Monotone.
Import ListNotations.

Definition f53 := of_bits 4617653287933653811.    (* 5.3  *)
Definition f02 := of_bits 4596373779694328218.    (* 0.2  *)
Definition f525 := of_bits 4617596992938311680.   (* 5.25 *)
Definition f008 := of_bits 4590429028186199163.   (* 0.08 *)
Definition thr001 := of_bits 4612982670745833825. (* 2.5758293035489004 = |norm.ppf(0.005)| *)
Definition a001 := of_bits 4576918229304087675.   (* 0.01 *)
Definition p08 := of_bits 4605529106428615972.    (* 0.81644... = 2 norm.sf(0.2321...) *)

(* docstring example: 5.3 +- 0.2 vs 5.25 +- 0.08: t = 0.2321192, passes *)
Example doc_example :
  patched f53 f02 f525 f008 = false /\
  to_bits (student_t f53 f02 f525 f008) = 4597530994848721483%Z /\
  oracle thr001 (student_t f53 f02 f525 f008) = true /\
  verdict thr001 [[student_t f53 f02 f525 f008]] = true /\
  pdecision a001 p08 = true.
Proof. repeat split; vm_compute; reflexivity. Qed.

(* before the fix test_pvalue() was the constant False for ndf = None although the
   verdict and the p-value decision are both true *)
Example test_pvalue_ndf_none_refuted :
  test_pvalue_unfixed None a001 [p08] = None /\
  map (pdecision a001) [p08] = [true] /\
  verdict thr001 [[student_t f53 f02 f525 f008]] = true.
Proof. repeat split; vm_compute; reflexivity. Qed.

(* NaN on one side only: hypothesis satisfiable, statistic NaN *)
Example nan_one_side_example :
  B64.is_nan fnan <> B64.is_nan f525 /\ B64.is_nan (student_t fnan f02 f525 f008) = true.
Proof. split; [vm_compute; discriminate | vm_compute; reflexivity]. Qed.

(* 0/0 *)
Example zero_over_zero_example :
  feq (fsub f53 f53) fzero = true /\
  feq (fsqrt (fadd (fmul fzero fzero) (fmul fzero fzero))) fzero = true /\
  to_bits (student_t f53 fzero f53 fzero) = 0%Z.
Proof. repeat split; vm_compute; reflexivity. Qed.

(* the hypotheses on sf are satisfiable: sf x = 1/(2(1+x)) is strictly decreasing on
   [0, inf), with alpha = 1/(1+thr) *)
Example sf_hypotheses_satisfiable :
  let sf := fun x : R => (/ (2 * (1 + x)))%R in
  (forall x y, (0 <= x)%R -> (x < y)%R -> (sf y < sf x)%R) /\ (2 * sf 1 = / 2)%R.
Proof.
  cbv zeta. split.
  - intros x y Hx Hxy. apply Rinv_lt_contravar; [|lra].
    apply Rmult_lt_0_compat; lra.
  - field.
Qed.

(* every intermediate value of the docstring example is finite *)
Example doc_example_all_finite : all_finite (env_of f53 f02 f525 f008) t_expr = true.
Proof. vm_compute. reflexivity. Qed.

(* hypotheses of never_improves: shrinking the error 0.2 of the docstring example to 0 *)
Example never_improves_hypotheses :
  patched f53 fzero f525 f008 = false /\
  all_finite (env_of f53 fzero f525 f008) t_expr = true /\
  (Rabs (B2R fzero) <= Rabs (B2R f02))%R.
Proof.
  split; [vm_compute; reflexivity|]. split; [vm_compute; reflexivity|].
  change (B2R fzero) with 0%R. rewrite Rabs_R0. apply Rabs_pos.
Qed.

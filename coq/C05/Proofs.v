(* C05 proofs on binary64: verdict structure, NaN / 0-over-0 conventions, and the
   reading of the comparisons on real numbers. *)
From Coq Require Import List ZArith Bool Reals Lra.
From Flocq Require Import Core.Core IEEE754.BinarySingleNaN.
From VV Require Import Lib.Base Lib.B64 C06.LibF C05.Model.
Import ListNotations.

(* verdict <=> every bin of every compared dataset passes its oracle *)
Lemma verdict_iff_all_bins thr tss :
  verdict thr tss = true <->
  forall ts, In ts tss -> forall t, In t ts -> oracle thr t = true.
Proof.
  unfold verdict. rewrite forallb_forall. split.
  - intros H ts Hts. apply forallb_forall. now apply H.
  - intros H ts Hts. apply forallb_forall. now apply H.
Qed.

Lemma verdict_false_iff thr tss :
  verdict thr tss = false <-> exists ts t, In ts tss /\ In t ts /\ oracle thr t = false.
Proof.
  split.
  - intros H. unfold verdict in H.
    induction tss as [|ts r IH]; cbn in H; [discriminate|].
    apply andb_false_iff in H. destruct H as [H|H].
    + clear IH. induction ts as [|t q IHq]; cbn in H; [discriminate|].
      apply andb_false_iff in H. destruct H as [H|H].
      * exists (t :: q), t. cbn. auto.
      * destruct (IHq H) as [ts' [t' [H1 [H2 H3]]]].
        destruct H1 as [H1|H1].
        -- subst ts'. exists (t :: q), t'. cbn. auto.
        -- exists ts', t'. cbn. auto.
    + destruct (IH H) as [ts' [t' [H1 [H2 H3]]]]. exists ts', t'. cbn. auto.
  - intros [ts [t [H1 [H2 H3]]]].
    destruct (verdict thr tss) eqn:E; [|reflexivity].
    rewrite (proj1 (verdict_iff_all_bins thr tss) E ts H1 t H2) in H3. discriminate.
Qed.

(* the oracle |t| < thr on real numbers; an undefined statistic never passes *)
Lemma oracle_nan thr : oracle thr fnan = false.
Proof. unfold oracle. rewrite fabs_nan. apply flt_nan_l. Qed.

Lemma oracle_on_reals thr t :
  B64.is_nan t = false -> B64.is_nan thr = false ->
  (oracle thr t = true <-> (Rabs (xR t) < xR thr)%R).
Proof.
  intros Nt Nthr. unfold oracle. rewrite <- xR_fabs.
  apply flt_R; [now rewrite is_nan_fabs | exact Nthr].
Qed.

Lemma oracle_true_defined thr t : oracle thr t = true -> B64.is_nan t = false.
Proof.
  unfold oracle. intros H. apply flt_true_not_nan in H. now rewrite is_nan_fabs in H.
Qed.

Lemma pdecision_on_reals alpha p :
  B64.is_nan alpha = false ->
  (B64.is_nan p = true -> pdecision alpha p = false) /\
  (B64.is_nan p = false -> (pdecision alpha p = true <-> (xR alpha < xR p)%R)).
Proof.
  intros Na. unfold pdecision. split.
  - intros Hp. apply is_nan_true in Hp. subst. apply flt_nan_r.
  - intros Np. now apply flt_R.
Qed.

(* outside the three patched cases the statistic is the expression tree
   (v1 - v2) / sqrt(e1*e1 + e2*e2), every operation correctly rounded *)
Lemma t_spec v1 e1 v2 e2 :
  patched v1 e1 v2 e2 = false ->
  student_t v1 e1 v2 e2 = fdiv (fsub v1 v2) (fsqrt (fadd (fmul e1 e1) (fmul e2 e2))).
Proof. unfold student_t. intros ->. reflexivity. Qed.

Lemma patched_spec v1 e1 v2 e2 :
  patched v1 e1 v2 e2 = true <->
  (feq (fsub v1 v2) fzero = true /\ feq (fsqrt (fadd (fmul e1 e1) (fmul e2 e2))) fzero = true)
  \/ (feq (fsub v1 v2) fzero = true /\ B64.is_nan e1 = true /\ B64.is_nan e2 = true)
  \/ (B64.is_nan v1 = true /\ B64.is_nan v2 = true).
Proof.
  unfold patched. cbn [evalB diff_value diff_error env_of].
  rewrite !orb_true_iff, !andb_true_iff. tauto.
Qed.

Lemma patched_zero v1 e1 v2 e2 : patched v1 e1 v2 e2 = true -> student_t v1 e1 v2 e2 = fzero.
Proof. unfold student_t. intros ->. reflexivity. Qed.

(* documented conventions *)
Lemma both_nan_passes v1 e1 v2 e2 thr :
  B64.is_nan v1 = true -> B64.is_nan v2 = true ->
  student_t v1 e1 v2 e2 = fzero /\ oracle thr (student_t v1 e1 v2 e2) = flt fzero thr.
Proof.
  intros H1 H2.
  assert (E : student_t v1 e1 v2 e2 = fzero).
  { apply patched_zero, patched_spec. tauto. }
  rewrite E. split; reflexivity.
Qed.

Lemma zero_over_zero_passes v1 e1 v2 e2 thr :
  feq (fsub v1 v2) fzero = true ->
  feq (fsqrt (fadd (fmul e1 e1) (fmul e2 e2))) fzero = true ->
  student_t v1 e1 v2 e2 = fzero /\ oracle thr (student_t v1 e1 v2 e2) = flt fzero thr.
Proof.
  intros H1 H2.
  assert (E : student_t v1 e1 v2 e2 = fzero).
  { apply patched_zero, patched_spec. tauto. }
  rewrite E. split; reflexivity.
Qed.

(* a value undefined on one side only: the statistic is NaN and the bin fails,
   whatever the threshold *)
Lemma nan_one_side_t v1 e1 v2 e2 :
  B64.is_nan v1 <> B64.is_nan v2 -> student_t v1 e1 v2 e2 = fnan.
Proof.
  intros Hne.
  assert (Hd : fsub v1 v2 = fnan).
  { destruct (B64.is_nan v1) eqn:E1.
    - apply is_nan_true in E1. subst. apply fsub_nan_l.
    - destruct (B64.is_nan v2) eqn:E2; [|congruence].
      apply is_nan_true in E2. subst. apply fsub_nan_r. }
  assert (Hp : patched v1 e1 v2 e2 = false).
  { unfold patched. cbn [evalB diff_value diff_error env_of]. rewrite Hd, feq_nan_l. cbn.
    destruct (B64.is_nan v1), (B64.is_nan v2); try reflexivity; congruence. }
  rewrite (t_spec _ _ _ _ Hp), Hd. apply fdiv_nan_l.
Qed.

Lemma nan_one_side_fails v1 e1 v2 e2 thr :
  B64.is_nan v1 <> B64.is_nan v2 -> oracle thr (student_t v1 e1 v2 e2) = false.
Proof. intros H. rewrite (nan_one_side_t _ _ _ _ H). apply oracle_nan. Qed.

(* an error undefined on one side only (values not both undefined): same *)
Lemma nan_error_one_side_fails v1 e1 v2 e2 thr :
  B64.is_nan e1 <> B64.is_nan e2 ->
  B64.is_nan v1 && B64.is_nan v2 = false ->
  oracle thr (student_t v1 e1 v2 e2) = false.
Proof.
  intros Hne Hv.
  assert (Hd : fsqrt (fadd (fmul e1 e1) (fmul e2 e2)) = fnan).
  { destruct (B64.is_nan e1) eqn:E1.
    - apply is_nan_true in E1. subst. now rewrite fmul_nan_l, fadd_nan_l.
    - destruct (B64.is_nan e2) eqn:E2; [|congruence].
      apply is_nan_true in E2. subst. now rewrite fmul_nan_l, fadd_nan_r. }
  assert (Hp : patched v1 e1 v2 e2 = false).
  { unfold patched. cbn [evalB diff_value diff_error env_of]. rewrite Hd, feq_nan_l, Hv.
    rewrite andb_false_r. cbn.
    destruct (B64.is_nan e1), (B64.is_nan e2); try congruence;
      rewrite ?andb_false_r, ?andb_false_l; cbn; rewrite ?andb_false_r; reflexivity. }
  rewrite (t_spec _ _ _ _ Hp), Hd, fdiv_nan_r. apply oracle_nan.
Qed.

(* hence the verdict is false as soon as one bin is undefined on one side only *)
Lemma nan_one_side_verdict thr tss ts v1 e1 v2 e2 :
  In ts tss -> In (student_t v1 e1 v2 e2) ts ->
  B64.is_nan v1 <> B64.is_nan v2 -> verdict thr tss = false.
Proof.
  intros H1 H2 H3. apply verdict_false_iff. exists ts, (student_t v1 e1 v2 e2).
  split; [exact H1|]. split; [exact H2|]. now apply nan_one_side_fails.
Qed.

(* C05: "never improves when a difference grows or an error shrinks", on binary64, in the
   regime where every intermediate value is finite (then t is the real formula with one
   rounding per operation, C05/Rounding.v, and every rounding is monotone). *)
From Coq Require Import List ZArith Bool Reals Lra.
From Flocq Require Import Core.Core IEEE754.BinarySingleNaN.
From VV Require Import Lib.B64 C06.LibF C05.Model C05.Rounding.
Local Open Scope R_scope.

Local Instance valid_exp64 : Valid_exp (SpecFloat.fexp 53 1024) := fexp_correct 53 1024 P53.

Lemma rnd_le x y : x <= y -> rnd x <= rnd y.
Proof. apply round_le; [typeclasses eauto | apply valid_rnd_N]. Qed.

Lemma rnd_abs x : Rabs (rnd x) = rnd (Rabs x).
Proof. unfold rnd. cbn [round_mode]. symmetry. apply round_NE_abs. typeclasses eauto. Qed.

Lemma rnd_0 : rnd 0 = 0.
Proof. apply round_0. apply valid_rnd_N. Qed.

Lemma rnd_nonneg x : 0 <= x -> 0 <= rnd x.
Proof. intros H. rewrite <- rnd_0. now apply rnd_le. Qed.

Lemma abs_div x d : d <> 0 -> Rabs (x / d) = Rabs x / Rabs d.
Proof. intros H. unfold Rdiv. now rewrite Rabs_mult, Rabs_inv. Qed.

(* |rnd (x / d)| is monotone in |x| and antitone in |d| *)
Lemma quotient_monotone x x' d d' :
  d' <> 0 -> d <> 0 -> Rabs x <= Rabs x' -> Rabs d' <= Rabs d ->
  Rabs (rnd (x / d)) <= Rabs (rnd (x' / d')).
Proof.
  intros Hd' Hd Hx Hdd. rewrite !rnd_abs. apply rnd_le. rewrite !abs_div by assumption.
  assert (0 < Rabs d') by now apply Rabs_pos_lt.
  assert (0 < Rabs d) by now apply Rabs_pos_lt.
  assert (0 <= Rabs x) by apply Rabs_pos.
  apply Rle_trans with (Rabs x' / Rabs d).
  - apply Rmult_le_compat_r; [left; now apply Rinv_0_lt_compat | exact Hx].
  - apply Rmult_le_compat_l; [lra|]. apply Rinv_le_contravar; lra.
Qed.

(* the divisor of a finite quotient is not zero *)
Lemma finite_div_nonzero env a b :
  all_finite env (Div a b) = true -> B2R (evalB env b) <> 0.
Proof.
  cbn [all_finite evalB]. intros H Z.
  apply andb_true_iff in H. destruct H as [Ft H]. apply andb_true_iff in H. destruct H as [_ Hb].
  destruct (finite_zero _ (all_finite_top _ _ Hb) Z) as [s Hs].
  rewrite Hs, div_by_zero_not_finite in Ft. discriminate.
Qed.

Definition quad (e1 e2 : R) : R := rnd (sqrt (rnd (rnd (e1 * e1) + rnd (e2 * e2)))).

Lemma quad_monotone e1 e1' e2 : Rabs e1' <= Rabs e1 -> 0 <= quad e1' e2 <= quad e1 e2.
Proof.
  intros H. unfold quad.
  assert (Hsq : e1' * e1' <= e1 * e1).
  { assert (H0 := Rabs_pos e1').
    replace (e1' * e1') with (Rabs e1' * Rabs e1') by (rewrite <- Rabs_mult; apply Rabs_pos_eq; nra).
    replace (e1 * e1) with (Rabs e1 * Rabs e1) by (rewrite <- Rabs_mult; apply Rabs_pos_eq; nra).
    nra. }
  split.
  - apply rnd_nonneg, sqrt_pos.
  - apply rnd_le, sqrt_le_1_alt, rnd_le, Rplus_le_compat_r, rnd_le, Hsq.
Qed.

Section Monotone.
Variables v1 e1 v2 e2 : b64.
Hypothesis Hp : patched v1 e1 v2 e2 = false.
Hypothesis Hf : all_finite (env_of v1 e1 v2 e2) t_expr = true.

Lemma t_value :
  B2R (student_t v1 e1 v2 e2) = rnd (rnd (B2R v1 - B2R v2) / quad (B2R e1) (B2R e2)).
Proof. apply student_t_rounds; assumption. Qed.

Lemma quad_nonzero : quad (B2R e1) (B2R e2) <> 0.
Proof.
  pose proof (finite_div_nonzero _ _ _ Hf) as H.
  assert (Hq : all_finite (env_of v1 e1 v2 e2) diff_error = true).
  { cbn [all_finite t_expr] in Hf. apply andb_true_iff in Hf. destruct Hf as [_ H'].
    apply andb_true_iff in H'. tauto. }
  rewrite (evalB_rounds_evalR _ _ Hq) in H. exact H.
Qed.
End Monotone.

(* a larger difference (same errors) never gives a smaller |t| *)
Theorem monotone_in_diff_b64 v1 e1 v2 e2 v1' v2' :
  patched v1 e1 v2 e2 = false -> all_finite (env_of v1 e1 v2 e2) t_expr = true ->
  patched v1' e1 v2' e2 = false -> all_finite (env_of v1' e1 v2' e2) t_expr = true ->
  Rabs (B2R v1 - B2R v2) <= Rabs (B2R v1' - B2R v2') ->
  Rabs (B2R (student_t v1 e1 v2 e2)) <= Rabs (B2R (student_t v1' e1 v2' e2)).
Proof.
  intros Hp Hf Hp' Hf' Hd.
  rewrite (t_value _ _ _ _ Hp Hf), (t_value _ _ _ _ Hp' Hf').
  pose proof (quad_nonzero _ _ _ _ Hf) as Hq.
  apply quotient_monotone; try assumption; [|lra].
  rewrite !rnd_abs. now apply rnd_le.
Qed.

(* a smaller error (same values, same other error) never gives a smaller |t| *)
Theorem antitone_in_error_b64 v1 e1 v2 e2 e1' :
  patched v1 e1 v2 e2 = false -> all_finite (env_of v1 e1 v2 e2) t_expr = true ->
  patched v1 e1' v2 e2 = false -> all_finite (env_of v1 e1' v2 e2) t_expr = true ->
  Rabs (B2R e1') <= Rabs (B2R e1) ->
  Rabs (B2R (student_t v1 e1 v2 e2)) <= Rabs (B2R (student_t v1 e1' v2 e2)).
Proof.
  intros Hp Hf Hp' Hf' He.
  rewrite (t_value _ _ _ _ Hp Hf), (t_value _ _ _ _ Hp' Hf').
  pose proof (quad_nonzero _ _ _ _ Hf) as Hq.
  pose proof (quad_nonzero _ _ _ _ Hf') as Hq'.
  pose proof (quad_monotone _ _ (B2R e2) He) as [Q0 Q1].
  apply quotient_monotone; try assumption; [lra|].
  rewrite !Rabs_pos_eq; lra.
Qed.

(* consequence for the decision: with |t| <= |t'| (both finite), passing at t' implies
   passing at t, for any threshold *)
Lemma oracle_downward thr (t t' : b64) :
  is_finite t = true -> is_finite t' = true ->
  Rabs (B2R t) <= Rabs (B2R t') -> oracle thr t' = true -> oracle thr t = true.
Proof.
  intros Ft Ft' Hle H. unfold oracle in *.
  destruct (flt_true_not_nan _ _ H) as [N' Nthr].
  assert (Nt : B64.is_nan (fabs t) = false).
  { rewrite is_nan_fabs. destruct t; try discriminate; reflexivity. }
  apply flt_R in H; auto. apply flt_R; auto.
  rewrite xR_fabs in *.
  assert (X : forall x : b64, is_finite x = true -> xR x = B2R x).
  { intros x Fx. destruct x as [s|s| |s m e Hb]; try discriminate; reflexivity. }
  rewrite (X t Ft). rewrite (X t' Ft') in H. lra.
Qed.

Theorem never_improves thr v1 e1 v2 e2 v1' e1' v2' :
  patched v1 e1 v2 e2 = false -> all_finite (env_of v1 e1 v2 e2) t_expr = true ->
  patched v1' e1' v2' e2 = false -> all_finite (env_of v1' e1' v2' e2) t_expr = true ->
  (e1' = e1 /\ Rabs (B2R v1 - B2R v2) <= Rabs (B2R v1' - B2R v2')) \/
  (v1' = v1 /\ v2' = v2 /\ Rabs (B2R e1') <= Rabs (B2R e1)) ->
  Rabs (B2R (student_t v1 e1 v2 e2)) <= Rabs (B2R (student_t v1' e1' v2' e2)) /\
  (oracle thr (student_t v1' e1' v2' e2) = true -> oracle thr (student_t v1 e1 v2 e2) = true).
Proof.
  intros Hp Hf Hp' Hf' Hc.
  assert (Ft : is_finite (student_t v1 e1 v2 e2) = true).
  { unfold student_t. rewrite Hp. now apply all_finite_top. }
  assert (Ft' : is_finite (student_t v1' e1' v2' e2) = true).
  { unfold student_t. rewrite Hp'. now apply all_finite_top. }
  assert (Hle : Rabs (B2R (student_t v1 e1 v2 e2)) <= Rabs (B2R (student_t v1' e1' v2' e2))).
  { destruct Hc as [[E Hd]|[E1 [E2 He]]].
    - subst e1'. now apply monotone_in_diff_b64.
    - subst v1' v2'. now apply antitone_in_error_b64. }
  split; [exact Hle|]. now apply oracle_downward.
Qed.

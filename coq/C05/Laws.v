(* C05: algebraic laws of the statistic over R, for the same expression tree
   [t_expr] that the correspondence evaluates on binary64, and agreement of the
   threshold decision with the p-value decision under explicit hypotheses on
   scipy's survival function. *)
From Coq Require Import List Reals Lra Bool.
From VV Require Import Lib.B64 C05.Model.
Import ListNotations.
Local Open Scope R_scope.

Definition tR (v1 e1 v2 e2 : R) : R := evalR (env_of v1 e1 v2 e2) t_expr.
Definition oracleR (thr t : R) : Prop := Rabs t < thr.

Lemma tR_formula v1 e1 v2 e2 : tR v1 e1 v2 e2 = (v1 - v2) / sqrt (e1 * e1 + e2 * e2).
Proof. reflexivity. Qed.

Lemma sq_sum_nonneg e1 e2 : 0 <= e1 * e1 + e2 * e2.
Proof. nra. Qed.

(* symmetric in the two datasets *)
Lemma abs_t_symmetric_R v1 e1 v2 e2 :
  Rabs (tR v1 e1 v2 e2) = Rabs (tR v2 e2 v1 e1).
Proof.
  rewrite !tR_formula. replace (e2 * e2 + e1 * e1) with (e1 * e1 + e2 * e2) by ring.
  replace ((v2 - v1) / sqrt (e1 * e1 + e2 * e2)) with (- ((v1 - v2) / sqrt (e1 * e1 + e2 * e2)))
    by (unfold Rdiv; ring).
  now rewrite Rabs_Ropp.
Qed.

(* invariant under a common positive rescaling of values and errors *)
Lemma scale_invariant k v1 e1 v2 e2 :
  0 < k -> 0 < e1 * e1 + e2 * e2 ->
  tR (k * v1) (k * e1) (k * v2) (k * e2) = tR v1 e1 v2 e2.
Proof.
  intros Hk Hs. rewrite !tR_formula.
  replace (k * e1 * (k * e1) + k * e2 * (k * e2)) with ((k * k) * (e1 * e1 + e2 * e2)) by ring.
  rewrite sqrt_mult by nra. rewrite sqrt_square by lra.
  assert (0 < sqrt (e1 * e1 + e2 * e2)) by now apply sqrt_lt_R0.
  field. split; lra.
Qed.

(* |t| never decreases when the difference grows ... *)
Lemma monotone_in_diff v1 v2 v1' v2' e1 e2 :
  0 < e1 * e1 + e2 * e2 ->
  Rabs (v1 - v2) <= Rabs (v1' - v2') ->
  Rabs (tR v1 e1 v2 e2) <= Rabs (tR v1' e1 v2' e2).
Proof.
  intros Hs Hd. rewrite !tR_formula.
  assert (Hq : 0 < sqrt (e1 * e1 + e2 * e2)) by now apply sqrt_lt_R0.
  unfold Rdiv. rewrite !Rabs_mult.
  apply Rmult_le_compat_r; [apply Rabs_pos | exact Hd].
Qed.

(* ... or an error shrinks *)
Lemma antitone_in_error v1 v2 e1 e1' e2 :
  0 < e1' * e1' + e2 * e2 ->
  Rabs e1' <= Rabs e1 ->
  Rabs (tR v1 e1 v2 e2) <= Rabs (tR v1 e1' v2 e2).
Proof.
  intros Hs He. rewrite !tR_formula.
  assert (Hsq : e1' * e1' <= e1 * e1).
  { rewrite <- (Rabs_mult e1' e1'), <- (Rabs_mult e1 e1) || idtac.
    assert (H := Rabs_pos e1'). assert (H' := Rabs_pos e1).
    replace (e1' * e1') with (Rabs e1' * Rabs e1')
      by (rewrite <- Rabs_mult; apply Rabs_pos_eq; nra).
    replace (e1 * e1) with (Rabs e1 * Rabs e1)
      by (rewrite <- Rabs_mult; apply Rabs_pos_eq; nra).
    nra. }
  assert (Hq' : 0 < sqrt (e1' * e1' + e2 * e2)) by now apply sqrt_lt_R0.
  assert (Hle : sqrt (e1' * e1' + e2 * e2) <= sqrt (e1 * e1 + e2 * e2))
    by (apply sqrt_le_1_alt; lra).
  unfold Rdiv. rewrite !Rabs_mult.
  apply Rmult_le_compat_l; [apply Rabs_pos|].
  rewrite !Rabs_Rinv by lra. rewrite !Rabs_pos_eq by lra.
  apply Rinv_le_contravar; lra.
Qed.

(* consequences for the per-bin decision: passing is preserved downwards *)
Lemma oracleR_downward thr t t' : Rabs t <= Rabs t' -> oracleR thr t' -> oracleR thr t.
Proof. unfold oracleR. lra. Qed.

Lemma oracleR_symmetric thr v1 e1 v2 e2 :
  oracleR thr (tR v1 e1 v2 e2) <-> oracleR thr (tR v2 e2 v1 e1).
Proof. unfold oracleR. now rewrite abs_t_symmetric_R. Qed.

Lemma oracleR_scale_invariant thr k v1 e1 v2 e2 :
  0 < k -> 0 < e1 * e1 + e2 * e2 ->
  (oracleR thr (tR (k * v1) (k * e1) (k * v2) (k * e2)) <-> oracleR thr (tR v1 e1 v2 e2)).
Proof. intros Hk Hs. now rewrite scale_invariant. Qed.

(* ---- threshold decision = p-value decision, scipy's sf / ppf as Section variables ---- *)
Section PValue.
Variable sf : R -> R.          (* survival function of the law used (normal or Student, ndf fixed) *)
Variables alpha thr : R.       (* significance level; thr = |ppf(alpha/2)| *)
Hypothesis sf_decreasing : forall x y, 0 <= x -> x < y -> sf y < sf x.
Hypothesis thr_nonneg : 0 <= thr.
Hypothesis thr_is_critical : 2 * sf thr = alpha.

Definition pvalueR (t : R) : R := 2 * sf (Rabs t).

Lemma pvalue_decision_agrees t : alpha < pvalueR t <-> oracleR thr t.
Proof.
  unfold pvalueR, oracleR. pose proof (Rabs_pos t) as Ht. split.
  - intros H. destruct (Rlt_or_le (Rabs t) thr) as [L|L]; [exact L|]. exfalso.
    destruct L as [L|L].
    + pose proof (sf_decreasing thr (Rabs t) thr_nonneg L). lra.
    + rewrite <- L in H. lra.
  - intros H. pose proof (sf_decreasing (Rabs t) thr Ht H). lra.
Qed.

(* oracles, p-value decisions and verdict agree on every list of bins *)
Lemma decisions_agree (tss : list (list R)) :
  (forall ts, In ts tss -> forall t, In t ts -> oracleR thr t) <->
  (forall ts, In ts tss -> forall t, In t ts -> alpha < pvalueR t).
Proof.
  split; intros H ts Hts t Ht; apply pvalue_decision_agrees; now apply (H ts Hts t Ht).
Qed.
End PValue.

(* Link between the two evaluators of an expression tree: whenever every
   intermediate binary64 value is finite, evalB is evalR with one correct
   rounding (to nearest even, binary64 format) after each operation. *)
From Coq Require Import List ZArith Bool Reals Lra.
From Flocq Require Import Core.Core IEEE754.BinarySingleNaN.
From VV Require Import Lib.B64 C06.LibF C05.Model.
Local Open Scope R_scope.

Definition rnd (x : R) : R := round radix2 (SpecFloat.fexp 53 1024) (round_mode mode_NE) x.

Fixpoint evalRnd (env : var -> R) (e : expr) : R :=
  match e with
  | Var v => env v
  | Sub a b => rnd (evalRnd env a - evalRnd env b)
  | Add a b => rnd (evalRnd env a + evalRnd env b)
  | Mul a b => rnd (evalRnd env a * evalRnd env b)
  | Div a b => rnd (evalRnd env a / evalRnd env b)
  | Sqrt a => rnd (sqrt (evalRnd env a))
  end.

Fixpoint all_finite (env : var -> b64) (e : expr) : bool :=
  is_finite (evalB env e) &&
  match e with
  | Var _ => true
  | Sub a b | Add a b | Mul a b | Div a b => all_finite env a && all_finite env b
  | Sqrt a => all_finite env a
  end.

Lemma overflow_not_finite (z : b64) s :
  B2SF z = binary_overflow 53 1024 mode_NE s -> is_finite z = false.
Proof. destruct z; cbn; intros H; try reflexivity; discriminate. Qed.

Lemma finite_zero (y : b64) : is_finite y = true -> B2R y = 0 -> exists s, y = B754_zero s.
Proof.
  destruct y as [s|s| |s m e Hb]; cbn -[F2R]; intros Hf H0; try discriminate.
  - now exists s.
  - apply eq_0_F2R in H0. destruct s; discriminate.
Qed.

Lemma div_by_zero_not_finite (x : b64) s : is_finite (fdiv x (B754_zero s)) = false.
Proof. destruct x as [sx|sx| |sx m e Hb]; reflexivity. Qed.

Lemma all_finite_top env e : all_finite env e = true -> is_finite (evalB env e) = true.
Proof. destruct e; cbn [all_finite]; intros H; apply andb_true_iff in H; tauto. Qed.

Theorem evalB_rounds_evalR env e :
  all_finite env e = true ->
  B2R (evalB env e) = evalRnd (fun v => B2R (env v)) e.
Proof.
  induction e as [v|a IHa b IHb|a IHa b IHb|a IHa b IHb|a IHa b IHb|a IHa];
    cbn [all_finite evalB evalRnd]; intros H.
  - reflexivity.
  - apply andb_true_iff in H. destruct H as [Ft H]. apply andb_true_iff in H. destruct H as [Ha Hb].
    rewrite <- (IHa Ha), <- (IHb Hb).
    pose proof (Bminus_correct 53 1024 P53 P1024 mode_NE _ _ (all_finite_top _ _ Ha) (all_finite_top _ _ Hb)) as C.
    destruct (Rlt_bool _ _) in C.
    + destruct C as [C _]. exact C.
    + destruct C as [C _]. apply overflow_not_finite in C. unfold fsub in Ft. congruence.
  - apply andb_true_iff in H. destruct H as [Ft H]. apply andb_true_iff in H. destruct H as [Ha Hb].
    rewrite <- (IHa Ha), <- (IHb Hb).
    pose proof (Bplus_correct 53 1024 P53 P1024 mode_NE _ _ (all_finite_top _ _ Ha) (all_finite_top _ _ Hb)) as C.
    destruct (Rlt_bool _ _) in C.
    + destruct C as [C _]. exact C.
    + destruct C as [C _]. apply overflow_not_finite in C. unfold fadd in Ft. congruence.
  - apply andb_true_iff in H. destruct H as [Ft H]. apply andb_true_iff in H. destruct H as [Ha Hb].
    rewrite <- (IHa Ha), <- (IHb Hb).
    pose proof (Bmult_correct 53 1024 P53 P1024 mode_NE (evalB env a) (evalB env b)) as C.
    destruct (Rlt_bool _ _) in C.
    + destruct C as [C _]. exact C.
    + apply overflow_not_finite in C. unfold fmul in Ft. congruence.
  - apply andb_true_iff in H. destruct H as [Ft H]. apply andb_true_iff in H. destruct H as [Ha Hb].
    rewrite <- (IHa Ha), <- (IHb Hb).
    destruct (Req_dec (B2R (evalB env b)) 0) as [Z|NZ].
    + destruct (finite_zero _ (all_finite_top _ _ Hb) Z) as [s Hs].
      rewrite Hs, div_by_zero_not_finite in Ft. discriminate.
    + pose proof (Bdiv_correct 53 1024 P53 P1024 mode_NE (evalB env a) (evalB env b) NZ) as C.
      destruct (Rlt_bool _ _) in C.
      * destruct C as [C _]. exact C.
      * apply overflow_not_finite in C. unfold fdiv in Ft. congruence.
  - apply andb_true_iff in H. destruct H as [Ft Ha].
    rewrite <- (IHa Ha).
    destruct (Bsqrt_correct 53 1024 P53 P1024 mode_NE (evalB env a)) as [C _]. exact C.
Qed.

(* the Student statistic outside the patched cases *)
Corollary student_t_rounds v1 e1 v2 e2 :
  patched v1 e1 v2 e2 = false ->
  all_finite (env_of v1 e1 v2 e2) t_expr = true ->
  B2R (student_t v1 e1 v2 e2) =
  rnd (rnd (B2R v1 - B2R v2) / rnd (sqrt (rnd (rnd (B2R e1 * B2R e1) + rnd (B2R e2 * B2R e2))))).
Proof.
  intros Hp Hf. unfold student_t. rewrite Hp.
  rewrite (evalB_rounds_evalR _ _ Hf). reflexivity.
Qed.

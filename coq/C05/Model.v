(* C05: Student test.  Model of valjean/gavroche/stat_tests/student.py
   (TestStudent.student_test, TestResultStudent.test_alpha / oracles / __bool__ /
   test_pvalue after the fix) and of Dataset.__sub__ as used there.
   scipy's ppf / sf are external: threshold and p-values are inputs. *)
From Coq Require Import List ZArith Bool Reals.
From VV Require Import Lib.Base Lib.B64 C06.LibF.
Import ListNotations.

(* ---- the statistic as an expression tree with two evaluators ---- *)
Inductive var := V1 | E1 | V2 | E2.
Inductive expr :=
| Var (v : var)
| Sub (a b : expr) | Add (a b : expr) | Mul (a b : expr) | Div (a b : expr)
| Sqrt (a : expr).

Fixpoint evalB (env : var -> b64) (e : expr) : b64 :=
  match e with
  | Var v => env v
  | Sub a b => fsub (evalB env a) (evalB env b)
  | Add a b => fadd (evalB env a) (evalB env b)
  | Mul a b => fmul (evalB env a) (evalB env b)
  | Div a b => fdiv (evalB env a) (evalB env b)
  | Sqrt a => fsqrt (evalB env a)
  end.

Fixpoint evalR (env : var -> R) (e : expr) : R :=
  match e with
  | Var v => env v
  | Sub a b => (evalR env a - evalR env b)%R
  | Add a b => (evalR env a + evalR env b)%R
  | Mul a b => (evalR env a * evalR env b)%R
  | Div a b => (evalR env a / evalR env b)%R
  | Sqrt a => sqrt (evalR env a)
  end.

(* Dataset.__sub__ : value v1 - v2, error sqrt(e1**2 + e2**2) *)
Definition diff_value : expr := Sub (Var V1) (Var V2).
Definition diff_error : expr := Sqrt (Add (Mul (Var E1) (Var E1)) (Mul (Var E2) (Var E2))).
Definition t_expr : expr := Div diff_value diff_error.

Definition env_of {X} (v1 e1 v2 e2 : X) (v : var) : X :=
  match v with V1 => v1 | E1 => e1 | V2 => v2 | E2 => e2 end.

(* the three cases set to 0 by student_test *)
Definition patched (v1 e1 v2 e2 : b64) : bool :=
  let dv := evalB (env_of v1 e1 v2 e2) diff_value in
  let de := evalB (env_of v1 e1 v2 e2) diff_error in
  (feq dv fzero && feq de fzero)
  || (feq dv fzero && B64.is_nan e1 && B64.is_nan e2)
  || (B64.is_nan v1 && B64.is_nan v2).

Definition student_t (v1 e1 v2 e2 : b64) : b64 :=
  if patched v1 e1 v2 e2 then fzero else evalB (env_of v1 e1 v2 e2) t_expr.

(* test_alpha: |t| < threshold;  verdict: all bins of all compared datasets *)
Definition oracle (thr t : b64) : bool := flt (fabs t) thr.
Definition verdict (thr : b64) (tss : list (list b64)) : bool :=
  forallb (forallb (oracle thr)) tss.

(* test_pvalue (after the fix, whatever ndf): p > alpha *)
Definition pdecision (alpha p : b64) : bool := flt alpha p.

(* the behaviour before the fix: constant False when ndf is None *)
Definition test_pvalue_unfixed (ndf : option nat) (alpha : b64) (ps : list b64) : option (list bool) :=
  match ndf with None => None (* "False" *) | Some _ => Some (map (pdecision alpha) ps) end.

(* ---- what a cases file evaluates ---- *)
Definition bin := (Z * Z)%type.          (* value, error bits *)

Record obs := mk_obs {
  o_t : list Z;            (* tstud, flattened *)
  o_oracles : list bool;   (* oracles()[d], flattened *)
  o_p : list Z;            (* pvalue[d] *)
  o_pdec : list bool       (* test_pvalue()[d] *)
}.

Fixpoint map2 {X Y W} (f : X -> Y -> W) (l1 : list X) (l2 : list Y) : list W :=
  match l1, l2 with
  | a :: r1, b :: r2 => f a b :: map2 f r1 r2
  | _, _ => []
  end.

Definition model_t (r d : bin) : b64 :=
  student_t (of_bits (fst r)) (of_bits (snd r)) (of_bits (fst d)) (of_bits (snd d)).

(* the statistic is compared within 2^-40 relative (numpy scalars compute e**2 with libm
   pow, which is not correctly rounded; an implementation may also legitimately evaluate
   the quadratic sum in another order); the decisions are recomputed from the
   implementation's own t, threshold and p-values, so the tolerance cannot flip them *)
Definition check_dataset (scalar : bool) (thr alpha : b64) (ref : list bin)
           (c : list bin * obs) : bool :=
  let '(ds, o) := c in
  let n := length ref in
  let ts := map of_bits (o_t o) in
  Nat.eqb (length ds) n && Nat.eqb (length ts) n
  && forallb (fun b => b)
       (map2 close2 (map2 model_t ref ds) ts)
  && list_eqb Bool.eqb (map (oracle thr) ts) (o_oracles o)
  && list_eqb Bool.eqb (map (fun p => pdecision alpha (of_bits p)) (o_p o)) (o_pdec o).

(* case: scalar?, threshold, alpha, reference bins, compared datasets, bool(result) *)
Definition check_case (c : bool * Z * Z * list bin * list (list bin * obs) * bool) : bool :=
  let '(scalar, thr, alpha, ref, dsets, v) := c in
  forallb (check_dataset scalar (of_bits thr) (of_bits alpha) ref) dsets
  && Bool.eqb (verdict (of_bits thr) (map (fun c => map of_bits (o_t (snd c))) dsets)) v.

(* C16 — lift of the per-operation refinement to every finite edit history
   over a world of graph objects: after any sequence of node/edge insertions,
   removals, new graphs and copies, every graph object satisfies the
   representation invariant and reports the nodes, dependencies and dependees
   of the plain node list / edge list obtained by running the same history
   on the mathematical graphs. *)
From Coq Require Import List Arith Bool PeanoNat Lia.
From VV Require Import Lib.Base C16.Model C16.Inv C16.ProofsR C16.ProofsG.
Import ListNotations.

Definition agraph := (list key * list (key * key))%type.

(* the editing operations covered by the proof *)
Inductive eop :=
| ENew | EAddNode (r : nat) (n : key) | ERemoveNode (r : nat) (n : key)
| EAddDep (r : nat) (a b : key) | ERemoveDep (r : nat) (a b : key) | ECopy (r : nat).

Definition to_wop (e : eop) : wop :=
  match e with
  | ENew => WNew | EAddNode r n => WAddNode r n | ERemoveNode r n => WRemoveNode r n
  | EAddDep r a b => WAddDep r a b | ERemoveDep r a b => WRemoveDep r a b | ECopy r => WCopy r
  end.

(* the same operations on plain node lists / edge lists *)
Definition a_remove_node (a : agraph) (n : key) : agraph :=
  (filter (fun k => negb (k =? n)) (fst a),
   filter (fun e => negb (fst e =? n) && negb (snd e =? n)) (snd a)).

Definition a_remove_dep (a : agraph) (x y : key) : res agraph :=
  if mem x (fst a) && mem y (fst a) then
    if pmem (x, y) (snd a) then Ok (fst a, filter (fun e => negb (keq e (x, y))) (snd a))
    else Raise EKey
  else Raise EValue.

Definition aget (w : list agraph) (r : nat) : res agraph :=
  match nth_error w r with Some a => Ok a | None => Raise EIndex end.

Definition astep (w : list agraph) (e : eop) : res (list agraph) :=
  match e with
  | ENew => Ok (w ++ [([], [])])
  | EAddNode r n => do a <- aget w r; Ok (set_nth r (n :: fst a, snd a) w)
  | ERemoveNode r n => do a <- aget w r; Ok (set_nth r (a_remove_node a n) w)
  | EAddDep r x y => do a <- aget w r; Ok (set_nth r (x :: y :: fst a, (x, y) :: snd a) w)
  | ERemoveDep r x y => do a <- aget w r; do a' <- a_remove_dep a x y; Ok (set_nth r a' w)
  | ECopy r => do a <- aget w r; Ok (w ++ [a])
  end.

(* an operation that raises leaves the world as it is (the caller goes on) *)
Fixpoint wrun (w : world) (h : list eop) : world :=
  match h with
  | [] => w
  | e :: t => match wstep w (to_wop e) with Ok w' => wrun w' t | Raise _ => wrun w t end
  end.

Fixpoint arun (w : list agraph) (h : list eop) : list agraph :=
  match h with
  | [] => w
  | e :: t => match astep w e with Ok w' => arun w' t | Raise _ => arun w t end
  end.

Definition R (g : cgraph) (a : agraph) : Prop :=
  g_ok g /\ (forall k, cnode g k <-> In k (fst a)) /\ (forall x y, cedge g x y <-> In (x, y) (snd a)).

Lemma F2_nth {A B} (P : A -> B -> Prop) l1 l2 r x :
  Forall2 P l1 l2 -> nth_error l1 r = Some x -> exists y, nth_error l2 r = Some y /\ P x y.
Proof.
  intros F; revert r; induction F; intros [|r]; cbn; try discriminate.
  - intros [= <-]. eauto.
  - apply IHF.
Qed.

Lemma F2_nth_none {A B} (P : A -> B -> Prop) l1 l2 r :
  Forall2 P l1 l2 -> nth_error l1 r = None -> nth_error l2 r = None.
Proof.
  intros F; revert r; induction F; intros [|r]; cbn; try discriminate; auto.
Qed.

Lemma F2_set {A B} (P : A -> B -> Prop) l1 l2 r x y :
  Forall2 P l1 l2 -> P x y -> Forall2 P (set_nth r x l1) (set_nth r y l2).
Proof.
  intros F HP; revert r; induction F; intros [|r]; cbn; constructor; auto.
Qed.

Lemma pmem_In p l : pmem p l = true <-> In p l.
Proof.
  unfold pmem. rewrite existsb_exists. split.
  - intros (q & Hq & E). unfold keq in E. apply andb_true_iff in E. destruct E as [E1 E2].
    apply Nat.eqb_eq in E1, E2. destruct p, q; cbn in *; subst. exact Hq.
  - intros H. exists p. split; [exact H|]. unfold keq. now rewrite !Nat.eqb_refl.
Qed.

Theorem step_refines w aw e :
  Forall2 R w aw ->
  match wstep w (to_wop e), astep aw e with
  | Ok w', Ok aw' => Forall2 R w' aw'
  | Raise c, Raise c' => c = c'
  | _, _ => False
  end.
Proof.
  intros F. destruct e as [|r n|r n|r x y|r x y|r]; cbn [to_wop wstep astep].
  - apply Forall2_app; [exact F|]. constructor; [|constructor]. split; [apply g_empty_ok|].
    split; [intros k|intros x y]; (split; [intros H|intros H; cbn in H; contradiction]).
    + exfalso. exact (proj1 g_empty_abs _ H).
    + exfalso. exact (proj2 g_empty_abs _ _ H).
  - unfold wget, aget. destruct (nth_error w r) as [g|] eqn:E.
    + destruct (F2_nth _ _ _ _ _ F E) as (a & -> & OK & N & Ed). cbn [bind].
      destruct (add_node_ok g OK n) as (OK' & N' & E').
      apply F2_set; [exact F|]. split; [exact OK'|]. split.
      * intros k. rewrite N', N. cbn. intuition.
      * intros x y. rewrite E'. apply Ed.
    + rewrite (F2_nth_none _ _ _ _ F E). reflexivity.
  - unfold wget, aget. destruct (nth_error w r) as [g|] eqn:E.
    + destruct (F2_nth _ _ _ _ _ F E) as (a & -> & OK & N & Ed). cbn [bind].
      destruct (remove_node_ok g n OK) as (g' & -> & OK' & N' & E'). cbn [bind].
      apply F2_set; [exact F|]. split; [exact OK'|]. split.
      * intros k. rewrite N', N. unfold a_remove_node. cbn [fst]. rewrite filter_In.
        destruct (Nat.eqb_spec k n); cbn; intuition congruence.
      * intros x y. rewrite E', Ed. unfold a_remove_node. cbn [snd]. rewrite filter_In. cbn [fst snd].
        destruct (Nat.eqb_spec x n), (Nat.eqb_spec y n); cbn; intuition congruence.
    + rewrite (F2_nth_none _ _ _ _ F E). reflexivity.
  - unfold wget, aget. destruct (nth_error w r) as [g|] eqn:E.
    + destruct (F2_nth _ _ _ _ _ F E) as (a & -> & OK & N & Ed). cbn [bind].
      destruct (add_dependency_ok g x y OK) as (g' & -> & OK' & N' & E'). cbn [bind].
      apply F2_set; [exact F|]. split; [exact OK'|]. split.
      * intros k. rewrite N', N. cbn. intuition.
      * intros u v. rewrite E', Ed. cbn. split.
        -- intros [H|[-> ->]]; auto.
        -- intros [[= -> ->]|H]; auto.
    + rewrite (F2_nth_none _ _ _ _ F E). reflexivity.
  - unfold wget, aget. destruct (nth_error w r) as [g|] eqn:E.
    + destruct (F2_nth _ _ _ _ _ F E) as (a & -> & OK & N & Ed). cbn [bind].
      pose proof (remove_dependency_ok g x y OK) as H. unfold a_remove_dep.
      destruct (remove_dependency g x y) as [g'|c]; cbn [bind].
      * destruct H as (Cx & Cy & Cxy & OK' & N' & E').
        apply N in Cx, Cy. apply Ed in Cxy.
        apply mem_In in Cx, Cy. apply pmem_In in Cxy. rewrite Cx, Cy, Cxy. cbn [andb bind].
        apply F2_set; [exact F|]. split; [exact OK'|]. split.
        -- intros k. rewrite N'. apply N.
        -- intros u v. rewrite E', Ed. cbn [snd]. rewrite filter_In. unfold keq. cbn [fst snd].
           destruct (Nat.eqb_spec u x), (Nat.eqb_spec v y); cbn; intuition congruence.
      * destruct H as [[-> H]|(-> & Cx & Cy & Cxy)].
        -- assert (M : mem x (fst a) && mem y (fst a) = false).
           { apply andb_false_iff. destruct H as [H|H]; [left|right]; apply mem_false;
               intros HI; apply H, N, HI. }
           rewrite M. reflexivity.
        -- apply N in Cx, Cy. apply mem_In in Cx, Cy. rewrite Cx, Cy. cbn [andb].
           destruct (pmem (x, y) (snd a)) eqn:P; [|reflexivity].
           apply pmem_In in P. apply Ed in P. contradiction.
    + rewrite (F2_nth_none _ _ _ _ F E). reflexivity.
  - unfold wget, aget. destruct (nth_error w r) as [g|] eqn:E.
    + destruct (F2_nth _ _ _ _ _ F E) as (a & -> & OK & N & Ed). cbn [bind].
      destruct (copy_ok g OK) as (OK' & N' & E').
      apply Forall2_app; [exact F|]. constructor; [|constructor]. split; [exact OK'|]. split.
      * intros k. rewrite N'. apply N.
      * intros x y. rewrite E'. apply Ed.
    + rewrite (F2_nth_none _ _ _ _ F E). reflexivity.
Qed.

Theorem run_refines h : forall w aw, Forall2 R w aw -> Forall2 R (wrun w h) (arun aw h).
Proof.
  induction h as [|e t IH]; intros w aw F; cbn; [exact F|].
  pose proof (step_refines w aw e F) as S.
  destruct (wstep w (to_wop e)), (astep aw e); try contradiction; apply IH; assumption.
Qed.

(* every finite history from the empty world *)
Theorem edit_history_refines_partial : forall (h : list eop) r g,
  nth_error (wrun [] h) r = Some g ->
  exists a, nth_error (arun [] h) r = Some a /\ g_ok g /\
    (forall k, In k (seq (nodes g)) <-> In k (fst a)) /\
    (forall n, match dependencies g n false with
               | Ok l => In n (fst a) /\ forall b, In b l <-> In (n, b) (snd a)
               | Raise c => c = EValue /\ ~ In n (fst a)
               end) /\
    (forall n, match dependees g n with
               | Ok l => In n (fst a) /\ forall b, In b l <-> In (b, n) (snd a)
               | Raise c => c = EValue /\ ~ In n (fst a)
               end).
Proof.
  intros h r g E.
  destruct (F2_nth _ _ _ _ _ (run_refines h [] [] (Forall2_nil _)) E) as (a & Ea & OK & N & Ed).
  exists a. split; [exact Ea|]. split; [exact OK|]. split; [exact N|]. split; intros n.
  - pose proof (dependencies_ok g n OK) as H. destruct (dependencies g n false).
    + destruct H as [C H]. split; [now apply N|]. intros b. rewrite H. apply Ed.
    + destruct H as [-> H]. split; [reflexivity|]. intros HI. apply H, N, HI.
  - pose proof (dependees_ok g n OK) as H. destruct (dependees g n).
    + destruct H as [C H]. split; [now apply N|]. intros b. rewrite H. apply Ed.
    + destruct H as [-> H]. split; [reflexivity|]. intros HI. apply H, N, HI.
Qed.

(* copies are independent: an operation on register r changes no other register
   (in the model and in the mathematical world alike) *)
Theorem copy_independent_partial : forall (w : world) e w' r q g,
  wstep w (to_wop e) = Ok w' ->
  (match e with ENew | ECopy _ => False
              | EAddNode r' _ | ERemoveNode r' _ | EAddDep r' _ _ | ERemoveDep r' _ _ => r' = r end) ->
  q <> r -> nth_error w q = Some g -> nth_error w' q = Some g.
Proof.
  intros w e w' r q g S T Nq Hq.
  assert (SN : forall (x : cgraph) l, nth_error (set_nth r x l) q = nth_error l q).
  { intros x l. rewrite nth_error_set_nth. destruct (Nat.eqb_spec q r); [contradiction|reflexivity]. }
  destruct e as [|r' n|r' n|r' x y|r' x y|r']; try contradiction; subst r'; cbn in S;
    unfold wget in S; destruct (nth_error w r); try discriminate; cbn in S.
  - inversion S; subst. now rewrite SN.
  - destruct (remove_node c n); [|discriminate]. inversion S; subst. now rewrite SN.
  - destruct (add_dependency c x y); [|discriminate]. inversion S; subst. now rewrite SN.
  - destruct (remove_dependency c x y); [|discriminate]. inversion S; subst. now rewrite SN.
Qed.

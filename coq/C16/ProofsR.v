(* C16 — lemmas about the dictionaries, the integer sets and the RList model:
   under the invariant the reverse index answers exactly like the sequence,
   and append / swap / delete-last preserve the invariant. *)
From Coq Require Import List Arith Bool PeanoNat Lia.
From VV Require Import Lib.Base C16.Model C16.Inv.
Import ListNotations.

Ltac eqb_cases :=
  repeat match goal with
  | |- context [?a =? ?b] => destruct (Nat.eqb_spec a b); subst
  | H : context [?a =? ?b] |- _ => destruct (Nat.eqb_spec a b); subst
  end.

Lemma NoDup_app_snoc {A} (l : list A) x : NoDup l -> ~ In x l -> NoDup (l ++ [x]).
Proof.
  induction l as [|a r IH]; cbn; intros ND Hx; [constructor; [auto|constructor]|].
  inversion ND; subst. constructor.
  - rewrite in_app_iff. cbn. intuition.
  - apply IH; auto.
Qed.

(* ---------- dictionaries ---------- *)
Lemma dget_dset {V} k k' (v : V) d :
  dget k (dset k' v d) = if k' =? k then Some v else dget k d.
Proof.
  induction d as [|[k0 v0] r IH]; cbn.
  - destruct (k' =? k); reflexivity.
  - destruct (Nat.eqb_spec k0 k'); subst; cbn.
    + destruct (k' =? k); reflexivity.
    + rewrite IH. destruct (Nat.eqb_spec k0 k); subst.
      * destruct (Nat.eqb_spec k' k); [congruence|reflexivity].
      * reflexivity.
Qed.

Lemma dget_In {V} k (v : V) d : dget k d = Some v -> In (k, v) d.
Proof.
  induction d as [|[k0 v0] r IH]; cbn; [discriminate|].
  destruct (Nat.eqb_spec k0 k); subst; [intros [= ->]; now left | intros H; right; auto].
Qed.

Lemma dget_key {V} k (d : list (nat * V)) : dget k d <> None <-> In k (map fst d).
Proof.
  induction d as [|[k0 v0] r IH]; cbn; [tauto|].
  destruct (Nat.eqb_spec k0 k); subst; [split; [now left|discriminate]|].
  rewrite IH. split; [now right | intros [H|H]; [congruence|exact H]].
Qed.

Lemma dget_None {V} k (d : list (nat * V)) : dget k d = None <-> ~ In k (map fst d).
Proof.
  rewrite <- dget_key. destruct (dget k d); split; try congruence; intros H; exfalso; apply H; discriminate.
Qed.

Lemma In_dget {V} k (v : V) d : NoDup (map fst d) -> In (k, v) d -> dget k d = Some v.
Proof.
  induction d as [|[k0 v0] r IH]; cbn; [contradiction|].
  intros ND [H|H].
  - inversion H; subst. now rewrite Nat.eqb_refl.
  - inversion ND as [|? ? Hn ND']; subst. destruct (Nat.eqb_spec k0 k); subst.
    + exfalso; apply Hn. change k with (fst (k, v)). now apply in_map.
    + auto.
Qed.

Lemma keys_dset {V} k (v : V) d :
  map fst (dset k v d) = if existsb (Nat.eqb k) (map fst d) then map fst d else map fst d ++ [k].
Proof.
  induction d as [|[k0 v0] r IH]; cbn; [reflexivity|].
  destruct (Nat.eqb_spec k0 k); subst; cbn.
  - now rewrite Nat.eqb_refl.
  - destruct (Nat.eqb_spec k k0); [congruence|]. cbn. rewrite IH.
    destruct (existsb _ _); reflexivity.
Qed.

Lemma existsb_eqb_In k l : existsb (Nat.eqb k) l = true <-> In k l.
Proof.
  rewrite existsb_exists. split; [intros [x [H E]]; apply Nat.eqb_eq in E; now subst|].
  intros H; exists k; split; [exact H|apply Nat.eqb_refl].
Qed.

Lemma NoDup_dset {V} k (v : V) d : NoDup (map fst d) -> NoDup (map fst (dset k v d)).
Proof.
  intros ND. rewrite keys_dset. destruct (existsb _ _) eqn:E; [exact ND|].
  apply NoDup_app_snoc; [exact ND|]. intros H. apply existsb_eqb_In in H. congruence.
Qed.

Lemma dget_ddel {V} k k' (d : list (nat * V)) :
  dget k (ddel k' d) = if k' =? k then None else dget k d.
Proof.
  unfold ddel. induction d as [|[k0 v0] r IH]; cbn.
  - destruct (k' =? k); reflexivity.
  - destruct (Nat.eqb_spec k0 k'); subst; cbn.
    + rewrite IH. destruct (Nat.eqb_spec k' k); reflexivity.
    + rewrite IH. destruct (Nat.eqb_spec k0 k); subst.
      * destruct (Nat.eqb_spec k' k); [congruence|reflexivity].
      * reflexivity.
Qed.

Lemma NoDup_map_filter {A B} (f : A -> B) p (l : list A) :
  NoDup (map f l) -> NoDup (map f (filter p l)).
Proof.
  induction l as [|a r IH]; cbn; [auto|]. intros ND. inversion ND as [|? ? Hn ND']; subst.
  destruct (p a); cbn; [constructor|]; auto.
  intros H. apply Hn. apply in_map_iff in H. destruct H as [x [E Hx]].
  apply filter_In in Hx. rewrite <- E. apply in_map, Hx.
Qed.

Lemma NoDup_ddel {V} k (d : list (nat * V)) : NoDup (map fst d) -> NoDup (map fst (ddel k d)).
Proof. apply NoDup_map_filter. Qed.

Lemma keys_dmap {V W} (f : V -> W) d : map fst (dmap f d) = map fst d.
Proof. unfold dmap. rewrite map_map. reflexivity. Qed.

Lemma dget_dmap {V W} (f : V -> W) k d : dget k (dmap f d) = option_map f (dget k d).
Proof.
  induction d as [|[k0 v0] r IH]; cbn; [reflexivity|].
  destruct (k0 =? k); [reflexivity|exact IH].
Qed.

(* ---------- integer sets ---------- *)
Lemma mem_In x l : mem x l = true <-> In x l.
Proof. apply existsb_eqb_In. Qed.

Lemma mem_false x l : mem x l = false <-> ~ In x l.
Proof. rewrite <- mem_In. destruct (mem x l); split; congruence. Qed.

Lemma In_sadd x y l : In y (sadd x l) <-> y = x \/ In y l.
Proof.
  unfold sadd. destruct (mem x l) eqn:E.
  - apply mem_In in E. split; [auto|intros [->|H]; auto].
  - rewrite in_app_iff. cbn. intuition.
Qed.

Lemma In_srem x y l : In y (srem x l) <-> In y l /\ y <> x.
Proof.
  unfold srem. rewrite filter_In. destruct (Nat.eqb_spec y x); cbn; intuition congruence.
Qed.

Lemma In_sunion a b y : In y (sunion a b) <-> In y a \/ In y b.
Proof.
  unfold sunion. revert a. induction b as [|x r IH]; intros a; cbn; [tauto|].
  rewrite IH, In_sadd. intuition.
Qed.

Lemma In_dedup l y : In y (dedup l) <-> In y l.
Proof. unfold dedup. rewrite In_sunion. cbn. tauto. Qed.

(* ---------- positions ---------- *)
Lemma pos_nth k l i : pos k l = Some i -> nth_error l i = Some k.
Proof.
  revert i; induction l as [|y r IH]; intros i; cbn; [discriminate|].
  destruct (Nat.eqb_spec y k); subst; [intros [= <-]; reflexivity|].
  destruct (pos k r); cbn; [|discriminate]. intros [= <-]. cbn. auto.
Qed.

Lemma pos_None k l : pos k l = None <-> ~ In k l.
Proof.
  induction l as [|y r IH]; cbn; [tauto|].
  destruct (Nat.eqb_spec y k); subst; [split; [discriminate|intros H; exfalso; auto]|].
  destruct (pos k r); cbn.
  - split; [discriminate|]. intros H. exfalso. apply H. right.
    destruct IH as [_ IH]. destruct (in_dec Nat.eq_dec k r) as [i|ni]; [exact i|]. specialize (IH ni). discriminate.
  - split; [|reflexivity]. intros _ [H|H]; [congruence|]. now apply IH.
Qed.

Lemma nth_pos k l i : NoDup l -> nth_error l i = Some k -> pos k l = Some i.
Proof.
  revert i; induction l as [|y r IH]; intros i ND; [destruct i; discriminate|].
  inversion ND as [|? ? Hn ND']; subst. destruct i; cbn.
  - intros [= ->]. now rewrite Nat.eqb_refl.
  - intros H. destruct (Nat.eqb_spec y k); subst.
    + exfalso. apply Hn. eapply nth_error_In, H.
    + now rewrite (IH _ ND' H).
Qed.

Lemma pos_In k l : In k l -> exists i, pos k l = Some i.
Proof.
  intros H. destruct (pos k l) eqn:E; [eauto|]. apply pos_None in E. contradiction.
Qed.

Lemma pos_lt k l i : pos k l = Some i -> i < length l.
Proof. intros H. apply pos_nth in H. apply nth_error_Some. congruence. Qed.

Lemma pos_app k l v :
  pos k (l ++ [v]) = match pos k l with
                     | Some i => Some i
                     | None => if v =? k then Some (length l) else None
                     end.
Proof.
  induction l as [|y r IH]; cbn.
  - destruct (v =? k); reflexivity.
  - destruct (y =? k); [reflexivity|]. rewrite IH.
    destruct (pos k r); cbn; [reflexivity|]. destruct (v =? k); reflexivity.
Qed.

(* ---------- the invariant of RList in functional form ---------- *)
Definition idx_view (r : rlist) : Prop :=
  forall k, dget k (index r) = option_map (fun i => [i]) (pos k (seq r)).

Lemma rl_ok_view r : rl_ok r <-> NoDup (seq r) /\ NoDup (map fst (index r)) /\ idx_view r.
Proof.
  unfold rl_ok, idx_view. split; intros (ND & NK & H); repeat split; auto.
  - intros k. destruct (pos k (seq r)) as [i|] eqn:E; cbn.
    + apply H. exists i. split; [reflexivity|]. now apply pos_nth.
    + destruct (dget k (index r)) as [l|] eqn:G; [|reflexivity].
      apply H in G. destruct G as (i & _ & Hi). apply pos_None in E.
      exfalso. apply E. eapply nth_error_In, Hi.
  - rewrite H. destruct (pos k (seq r)) as [i|] eqn:E; cbn; [|discriminate].
    intros [= <-]. exists i. split; [reflexivity|]. now apply pos_nth.
  - intros (i & -> & Hi). rewrite H. now rewrite (nth_pos _ _ _ ND Hi).
Qed.

Lemma rl_empty_ok : rl_ok rl_empty.
Proof.
  apply rl_ok_view. cbn. repeat split; try constructor.
Qed.

Section RL.
Variable r : rlist.
Hypothesis OK : rl_ok r.

Let ND : NoDup (seq r). Proof. apply rl_ok_view in OK. tauto. Qed.
Let NK : NoDup (map fst (index r)). Proof. apply rl_ok_view in OK. tauto. Qed.
Let V : idx_view r. Proof. apply rl_ok_view in OK. tauto. Qed.

Lemma rl_contains_spec k : rl_contains r k = true <-> In k (seq r).
Proof.
  unfold rl_contains. rewrite V. destruct (pos k (seq r)) eqn:E; cbn.
  - split; [intros _|reflexivity]. eapply nth_error_In, pos_nth, E.
  - apply pos_None in E. split; [discriminate|contradiction].
Qed.

Lemma rl_index_pos k : rl_index r k = match pos k (seq r) with Some i => Ok i | None => Raise EValue end.
Proof. unfold rl_index. rewrite V. destruct (pos k (seq r)); reflexivity. Qed.

Lemma rl_index_ok k i : rl_index r k = Ok i <-> nth_error (seq r) i = Some k.
Proof.
  rewrite rl_index_pos. split.
  - destruct (pos k (seq r)) eqn:E; [|discriminate]. intros [= <-]. now apply pos_nth.
  - intros H. now rewrite (nth_pos _ _ _ ND H).
Qed.

Lemma rl_index_raise k : ~ In k (seq r) -> rl_index r k = Raise EValue.
Proof. intros H. rewrite rl_index_pos. apply pos_None in H. now rewrite H. Qed.

Lemma rl_get_index_pos k : rl_get_index r k = Ok (pos k (seq r)).
Proof. unfold rl_get_index. rewrite V. destruct (pos k (seq r)); reflexivity. Qed.

Lemma rl_append_ok v : ~ In v (seq r) -> rl_ok (rl_append r v) /\ seq (rl_append r v) = seq r ++ [v].
Proof.
  intros Hv. unfold rl_append, rl_insert. rewrite Nat.min_id.
  rewrite firstn_all, skipn_all. cbn [seq index]. split; [|reflexivity].
  apply rl_ok_view. cbn [seq index].
  assert (G : forall k, dget k (dmap (map (fun i => if i <? length (seq r) then i else S i)) (index r))
                        = option_map (fun i => [i]) (pos k (seq r))).
  { intros k. rewrite dget_dmap, V. destruct (pos k (seq r)) eqn:E; [|reflexivity].
    apply pos_lt in E. apply Nat.ltb_lt in E. unfold option_map. unfold map.
    match goal with |- context [if ?c then _ else _] => replace c with true by (symmetry; exact E) end. reflexivity. }
  repeat split.
  - apply NoDup_app_snoc; auto.
  - unfold idx_push. destruct (dget v _); apply NoDup_dset; now rewrite keys_dmap.
  - intros k. unfold idx_push. rewrite (G v). pose proof (proj2 (pos_None v (seq r)) Hv) as E.
    rewrite E. cbn. rewrite dget_dset, G, pos_app.
    destruct (Nat.eqb_spec v k); subst; [now rewrite E|].
    destruct (pos k (seq r)); reflexivity.
Qed.
End RL.

Lemma NoDup_app_l {A} (a b : list A) : NoDup (a ++ b) -> NoDup a.
Proof. induction a; cbn; intros H; [constructor|]. inversion H; subst. constructor; [rewrite in_app_iff in *; tauto|auto]. Qed.

Lemma rl_fold_append_ok l : forall r, rl_ok r -> NoDup (seq r ++ l) ->
  rl_ok (fold_left rl_append l r) /\ seq (fold_left rl_append l r) = seq r ++ l.
Proof.
  induction l as [|v l IH]; intros r OK ND; cbn.
  - now rewrite app_nil_r.
  - assert (Hv : ~ In v (seq r)).
    { intros H. apply NoDup_remove_2 in ND. apply ND. rewrite in_app_iff. now left. }
    destruct (rl_append_ok r OK v Hv) as [OK' S'].
    destruct (IH (rl_append r v) OK') as [A B].
    + rewrite S', <- app_assoc. exact ND.
    + split; [exact A|]. rewrite B, S', <- app_assoc. reflexivity.
Qed.

Lemma rl_of_list_ok l : NoDup l -> rl_ok (rl_of_list l) /\ seq (rl_of_list l) = l.
Proof. intros ND. apply (rl_fold_append_ok l rl_empty rl_empty_ok ND). Qed.

Lemma rl_copy_ok r : rl_ok r -> rl_ok (rl_copy r) /\ seq (rl_copy r) = seq r.
Proof. intros OK. apply rl_of_list_ok. apply rl_ok_view in OK. tauto. Qed.

(* ---------- swap and delete ---------- *)
Lemma set_nth_length {A} i (v : A) l : length (set_nth i v l) = length l.
Proof. revert i; induction l as [|x r IH]; intros [|i]; cbn; auto. Qed.

Lemma nth_error_set_nth {A} i (v : A) l m :
  nth_error (set_nth i v l) m
  = if (m =? i) && (i <? length l) then Some v else nth_error l m.
Proof.
  revert i m; induction l as [|x r IH]; intros i m.
  - cbn. destruct i, m; cbn; try reflexivity; now rewrite andb_false_r.
  - destruct i, m; cbn [set_nth nth_error length]; try reflexivity.
    rewrite IH. cbn [Nat.eqb]. reflexivity.
Qed.

Definition tr (i j m : nat) : nat := if m =? i then j else if m =? j then i else m.

Lemma tr_invol i j m : tr i j (tr i j m) = m.
Proof. unfold tr. eqb_cases; congruence. Qed.

Lemma tr_lt i j m n : i < n -> j < n -> m < n -> tr i j m < n.
Proof. unfold tr. eqb_cases; auto. Qed.

Lemma NoDup_nth {A} (l : list A) :
  (forall m1 m2 x, nth_error l m1 = Some x -> nth_error l m2 = Some x -> m1 = m2) -> NoDup l.
Proof.
  intros H. apply NoDup_nth_error. intros m1 m2 L E.
  destruct (nth_error l m1) as [x|] eqn:E1; [|apply nth_error_None in E1; lia].
  eapply H; eauto.
Qed.

Lemma nth_NoDup {A} (l : list A) m1 m2 x :
  NoDup l -> nth_error l m1 = Some x -> nth_error l m2 = Some x -> m1 = m2.
Proof.
  intros ND E1 E2. eapply NoDup_nth_error; eauto; [|congruence].
  apply nth_error_Some. congruence.
Qed.

Lemma remove1_hd i l : remove1 i (i :: l) = Some l.
Proof. cbn. now rewrite Nat.eqb_refl. Qed.

Lemma dget_idx_push k v i ix :
  dget k (idx_push v i ix)
  = if v =? k then Some (match dget v ix with Some l => l ++ [i] | None => [i] end) else dget k ix.
Proof. unfold idx_push. destruct (dget v ix); now rewrite dget_dset. Qed.

Lemma NoDup_idx_push v i ix : NoDup (map fst ix) -> NoDup (map fst (idx_push v i ix)).
Proof. intros H. unfold idx_push. destruct (dget v ix); now apply NoDup_dset. Qed.

Lemma view_at l m k : NoDup l -> nth_error l m = Some k ->
  option_map (fun i => [i]) (pos k l) = Some [m].
Proof. intros ND E. now rewrite (nth_pos _ _ _ ND E). Qed.

Lemma view_none l k : ~ In k l -> option_map (fun i : nat => [i]) (pos k l) = None.
Proof. intros H. apply pos_None in H. now rewrite H. Qed.

Lemma rl_swap_ok r i j :
  rl_ok r -> i < length (seq r) -> j < length (seq r) ->
  exists r', rl_swap r i j = Ok r' /\ rl_ok r' /\ length (seq r') = length (seq r) /\
             forall m, nth_error (seq r') m = nth_error (seq r) (tr i j m).
Proof.
  intros OK Li Lj. pose proof OK as OK0. apply rl_ok_view in OK. destruct OK as (ND & NK & V).
  destruct (nth_error (seq r) i) as [a|] eqn:Hi; [|apply nth_error_None in Hi; lia].
  destruct (nth_error (seq r) j) as [b|] eqn:Hj; [|apply nth_error_None in Hj; lia].
  pose proof (nth_pos _ _ _ ND Hi) as Pa. pose proof (nth_pos _ _ _ ND Hj) as Pb.
  unfold rl_swap. unfold key in *. rewrite Hi, Hj.
  assert (E1 : rl_setitem r i b = Ok (mkR (set_nth i b (seq r)) (idx_push b i (ddel a (index r))))).
  { unfold rl_setitem. unfold key in *. rewrite Hi, V, Pa. cbn [option_map].
    rewrite remove1_hd. reflexivity. }
  rewrite E1. cbn [bind].
  set (ix := ddel a (index r)).
  assert (Gix : forall k, dget k ix = if a =? k then None else dget k (index r))
    by (intros; apply dget_ddel).
  assert (NKix : NoDup (map fst ix)) by now apply NoDup_ddel.
  set (ix1 := idx_push b i ix).
  assert (NK1 : NoDup (map fst ix1)) by now apply NoDup_idx_push.
  assert (NTH : forall m, nth_error (set_nth j a (set_nth i b (seq r))) m = nth_error (seq r) (tr i j m)).
  { intros m. rewrite !nth_error_set_nth, set_nth_length. unfold tr.
    apply Nat.ltb_lt in Li, Lj. unfold key in *. rewrite Li, Lj, !andb_true_r.
    destruct (Nat.eqb_spec m j); subst.
    - destruct (Nat.eqb_spec j i); congruence.
    - destruct (Nat.eqb_spec m i); subst; congruence. }
  assert (ND' : NoDup (set_nth j a (set_nth i b (seq r)))).
  { apply NoDup_nth. intros m1 m2 x. rewrite !NTH. intros E1' E2.
    pose proof (nth_NoDup _ _ _ _ ND E1' E2) as E. rewrite <- (tr_invol i j m1), E. apply tr_invol. }
  assert (Hjb : nth_error (set_nth i b (seq r)) j = Some b).
  { rewrite nth_error_set_nth. unfold key in *. rewrite Hj. destruct (_ && _); reflexivity. }
  unfold rl_setitem. unfold key in *. cbn [seq index]. rewrite Hjb.
  (* what the final index answers *)
  assert (FIN : exists ix2, (match remove1 j match dget b ix1 with Some l => l | None => [] end with
                             | Some inds' => Ok (mkR (set_nth j a (set_nth i b (seq r)))
                                 (idx_push a j match inds' with
                                               | [] => ddel b ix1
                                               | _ :: _ => dset b inds' ix1 end))
                             | None => Raise EValue end)
                            = Ok (mkR (set_nth j a (set_nth i b (seq r))) ix2)
                    /\ NoDup (map fst ix2)
                    /\ forall k, dget k ix2 = if a =? k then Some [j] else if b =? k then Some [i]
                                                                        else dget k (index r)).
  { unfold ix1 at 1. rewrite dget_idx_push, Nat.eqb_refl, Gix.
    destruct (Nat.eqb_spec a b) as [->|Nab].
    - assert (i = j) by exact (nth_NoDup _ _ _ _ ND Hi Hj). subst j.
      rewrite remove1_hd. eexists. split; [reflexivity|]. split.
      + now apply NoDup_idx_push, NoDup_ddel.
      + intros k. rewrite dget_idx_push, !dget_ddel, Nat.eqb_refl.
        destruct (Nat.eqb_spec b k); [reflexivity|]. unfold ix1. rewrite dget_idx_push.
        destruct (Nat.eqb_spec b k); [congruence|]. rewrite Gix.
        destruct (Nat.eqb_spec b k); [congruence|reflexivity].
    - assert (Nij : i <> j) by (intros ->; congruence).
      rewrite V, Pb. cbn [option_map app]. rewrite remove1_hd.
      eexists. split; [reflexivity|]. split.
      + now apply NoDup_idx_push, NoDup_dset.
      + intros k. rewrite dget_idx_push, !dget_dset. unfold ix1. rewrite !dget_idx_push, !Gix.
        rewrite Nat.eqb_refl.
        destruct (Nat.eqb_spec b a); [congruence|].
        destruct (Nat.eqb_spec a k); [reflexivity|].
        destruct (Nat.eqb_spec b k); [reflexivity|reflexivity]. }
  destruct FIN as (ix2 & EQ & NK2 & G2).
  exists (mkR (set_nth j a (set_nth i b (seq r))) ix2). split; [exact EQ|]. cbn [seq index].
  split; [|split; [now rewrite !set_nth_length|exact NTH]].
  apply rl_ok_view. cbn [seq index]. split; [exact ND'|split; [exact NK2|]].
  intros k. rewrite G2.
  assert (Ea : nth_error (set_nth j a (set_nth i b (seq r))) j = Some a).
  { rewrite NTH. unfold tr. destruct (Nat.eqb_spec j i); [subst; congruence|].
    now rewrite Nat.eqb_refl. }
  assert (Eb : nth_error (set_nth j a (set_nth i b (seq r))) i = Some b).
  { rewrite NTH. unfold tr. now rewrite Nat.eqb_refl. }
  destruct (Nat.eqb_spec a k); subst.
  - symmetry. apply (view_at _ _ _ ND' Ea).
  - destruct (Nat.eqb_spec b k); subst.
    + symmetry. apply (view_at _ _ _ ND' Eb).
    + transitivity (option_map (fun i => [i]) (pos k (seq r))); [apply V|].
      destruct (pos k (seq r)) as [m|] eqn:E.
      * assert (E' : nth_error (set_nth j a (set_nth i b (seq r))) m = Some k).
        { rewrite NTH. apply pos_nth in E. unfold tr.
          destruct (Nat.eqb_spec m i); [subst; congruence|].
          destruct (Nat.eqb_spec m j); [subst; congruence|]. exact E. }
        symmetry. apply (view_at _ _ _ ND' E').
      * symmetry. apply view_none. intros HIn. apply In_nth_error in HIn. destruct HIn as [m E'].
        rewrite NTH in E'. apply pos_None in E. apply E. eapply nth_error_In, E'.
Qed.

Lemma dget_flat_map_filter {V} (h : V -> option V) k (d : list (nat * V)) :
  NoDup (map fst d) ->
  dget k (flat_map (fun p => match h (snd p) with Some l => [(fst p, l)] | None => [] end) d)
  = match dget k d with Some l => h l | None => None end.
Proof.
  induction d as [|[k0 v0] r IH]; intros ND; cbn; [reflexivity|].
  inversion ND as [|? ? Hn ND']; subst. cbn [fst snd].
  destruct (Nat.eqb_spec k0 k); subst.
  - destruct (h v0) eqn:E; cbn; [now rewrite Nat.eqb_refl|].
    rewrite IH by exact ND'. apply dget_None in Hn. now rewrite Hn.
  - destruct (h v0) eqn:E; cbn; [|now apply IH].
    destruct (Nat.eqb_spec k0 k); [congruence|now apply IH].
Qed.

Lemma keys_flat_map_filter {V} (h : V -> option V) (d : list (nat * V)) :
  NoDup (map fst d) ->
  NoDup (map fst (flat_map (fun p => match h (snd p) with Some l => [(fst p, l)] | None => [] end) d)).
Proof.
  induction d as [|[k0 v0] r IH]; intros ND; cbn; [constructor|].
  inversion ND as [|? ? Hn ND']; subst. cbn [fst snd]. destruct (h v0); cbn; [|auto].
  constructor; [|auto]. intros H. apply Hn. apply in_map_iff in H. destruct H as [[k1 v1] [E H]].
  apply in_flat_map in H. destruct H as [[k2 v2] [H2 H3]]. cbn in *. subst.
  destruct (h v2); cbn in H3; [|contradiction]. destruct H3 as [H3|[]]. inversion H3; subst.
  apply in_map_iff. exists (k0, v2). split; [reflexivity|exact H2].
Qed.

Lemma nth_error_firstn {A} n (l : list A) m :
  nth_error (firstn n l) m = if m <? n then nth_error l m else None.
Proof.
  revert l m; induction n as [|n IH]; intros l m; cbn.
  - now destruct m.
  - destruct l as [|x l]; cbn [firstn nth_error].
    + destruct m; cbn [nth_error]; match goal with |- context [if ?c then _ else _] => now destruct c end.
    + destruct m; cbn [nth_error]; [reflexivity|]. rewrite IH. reflexivity.
Qed.

(* deleting the last element *)
Lemma rl_delitem_last_ok r n :
  rl_ok r -> length (seq r) = S n ->
  exists r', rl_delitem r n = Ok r' /\ rl_ok r' /\ seq r' = firstn n (seq r).
Proof.
  intros OK L. apply rl_ok_view in OK. destruct OK as (ND & NK & V).
  unfold rl_delitem. unfold key in *. rewrite L.
  replace (n <? S n) with true by (symmetry; apply Nat.ltb_lt; lia).
  eexists. split; [reflexivity|]. cbn [seq index].
  assert (S' : firstn n (seq r) ++ skipn (S n) (seq r) = firstn n (seq r)).
  { rewrite skipn_all2 by (unfold key in *; lia). apply app_nil_r. }
  unfold key in *. rewrite S'. split; [|reflexivity].
  set (h := fun l : list nat =>
              match map (fun j => if j <? n then j else j - 1) (filter (fun j => negb (j =? n)) l) with
              | [] => None | l' => Some l' end).
  assert (FM : forall d : list (nat * list nat),
             flat_map (fun p => match map (fun j => if j <? n then j else j - 1)
                                          (filter (fun j => negb (j =? n)) (snd p)) with
                                | [] => [] | l => [(fst p, l)] end) d
             = flat_map (fun p => match h (snd p) with Some l => [(fst p, l)] | None => [] end) d).
  { intros d. apply flat_map_ext. intros p. unfold h. destruct (map _ (filter _ (snd p))); reflexivity. }
  rewrite FM. apply rl_ok_view. cbn [seq index]. split; [|split].
  - rewrite <- (firstn_skipn n (seq r)) in ND. eapply NoDup_app_l, ND.
  - now apply keys_flat_map_filter.
  - intros k. cbn [seq index]. rewrite dget_flat_map_filter by exact NK. rewrite V.
    destruct (pos k (seq r)) as [m|] eqn:E; cbn [option_map].
    + unfold h. cbn [filter]. pose proof (pos_lt _ _ _ E) as Lm. unfold key in *. rewrite L in Lm.
      destruct (Nat.eqb_spec m n); subst; cbn [negb map].
      * symmetry. apply view_none. intros HIn. apply In_nth_error in HIn. destruct HIn as [m' E'].
        rewrite nth_error_firstn in E'. destruct (Nat.ltb_spec m' n); [|discriminate].
        apply pos_nth in E. pose proof (nth_NoDup _ _ _ _ ND E E'). lia.
      * assert (m < n) by lia. replace (m <? n) with true by (symmetry; now apply Nat.ltb_lt).
        symmetry. apply view_at.
        -- rewrite <- (firstn_skipn n (seq r)) in ND. eapply NoDup_app_l, ND.
        -- rewrite nth_error_firstn. replace (m <? n) with true by (symmetry; now apply Nat.ltb_lt).
           now apply pos_nth.
    + symmetry. apply view_none. intros HIn. apply pos_None in E. apply E. eapply In_firstn, HIn.
Qed.

(* C16 — every editing operation of DepGraph preserves the representation
   invariant and acts on the mathematical graph (cnode, cedge) as the
   corresponding set operation. *)
From Coq Require Import List Arith Bool PeanoNat Lia.
From VV Require Import Lib.Base C16.Model C16.Inv C16.ProofsR.
Import ListNotations.

Ltac kcongr := unfold key in *; congruence.

Lemma g_empty_ok : g_ok g_empty.
Proof.
  unfold g_ok, g_empty, glen. cbn. repeat split; try apply rl_empty_ok; try constructor.
  - intros H; lia.
  - intros H; congruence.
  - intros; discriminate.
Qed.

Lemma g_empty_abs : (forall k, ~ cnode g_empty k) /\ (forall a b, ~ cedge g_empty a b).
Proof.
  split; [intros k []|]. intros a b (i & j & s & H & _). destruct i; discriminate.
Qed.

Section G.
Variable g : cgraph.
Hypothesis OK : g_ok g.

Let RO : rl_ok (nodes g). Proof. apply OK. Qed.
Let ND : NoDup (seq (nodes g)). Proof. apply rl_ok_view in RO. tauto. Qed.
Let NKE : NoDup (map fst (edges g)). Proof. apply OK. Qed.
Let KEYS : forall i, i < glen g <-> dget i (edges g) <> None. Proof. apply OK. Qed.
Let TGT : forall i s j, dget i (edges g) = Some s -> In j s -> j < glen g. Proof. apply OK. Qed.

Lemma edges_at i : i < glen g -> exists s, dget i (edges g) = Some s.
Proof. intros H. apply KEYS in H. destruct (dget i (edges g)); [eauto|congruence]. Qed.

Lemma edges_lt i s : dget i (edges g) = Some s -> i < glen g.
Proof. intros H. apply KEYS. congruence. Qed.

Lemma node_at i : i < glen g -> exists k, nth_error (seq (nodes g)) i = Some k.
Proof.
  intros H. destruct (nth_error (seq (nodes g)) i) eqn:E; [eauto|].
  apply nth_error_None in E. unfold glen in H. lia.
Qed.

Lemma nth_lt i k : nth_error (seq (nodes g)) i = Some k -> i < glen g.
Proof. intros H. unfold glen. apply nth_error_Some. congruence. Qed.

(* ----- add_node ----- *)
Lemma add_node_ok n :
  g_ok (add_node g n) /\ (forall k, cnode (add_node g n) k <-> cnode g k \/ k = n) /\
  (forall a b, cedge (add_node g n) a b <-> cedge g a b).
Proof.
  unfold add_node. destruct (rl_contains (nodes g) n) eqn:C.
  - apply (rl_contains_spec _ RO) in C. split; [exact OK|split].
    + intros k. unfold cnode. split; [auto|intros [H| ->]; [exact H|exact C]].
    + intros; reflexivity.
  - assert (Hn : ~ In n (seq (nodes g))).
    { intros H. apply (rl_contains_spec _ RO) in H. congruence. }
    destruct (rl_append_ok _ RO n Hn) as [RO' S'].
    assert (L' : length (seq (rl_append (nodes g) n)) = S (glen g)).
    { rewrite S', app_length. cbn. unfold glen. lia. }
    split; [|split].
    + unfold g_ok, glen. cbn [nodes edges]. split; [exact RO'|split; [now apply NoDup_dset|split]].
      * intros i. rewrite L', dget_dset. fold (glen g). destruct (Nat.eqb_spec (glen g) i).
        -- subst. split; [intros _; discriminate|lia].
        -- rewrite <- KEYS. lia.
      * intros i s j. rewrite L', dget_dset. fold (glen g). destruct (Nat.eqb_spec (glen g) i).
        -- intros [= <-] [].
        -- intros H1 H2. pose proof (TGT _ _ _ H1 H2). lia.
    + intros k. unfold cnode. cbn [nodes]. rewrite S', in_app_iff. cbn. intuition.
    + intros a b. unfold cedge. cbn [nodes edges]. rewrite S'. split.
      * intros (i & j & s & Ha & Hb & Hs & Hj). rewrite dget_dset in Hs.
        destruct (Nat.eqb_spec (glen g) i); [inversion Hs; subst; contradiction|].
        pose proof (edges_lt _ _ Hs) as Li. pose proof (TGT _ _ _ Hs Hj) as Lj.
        unfold glen in Li, Lj. rewrite nth_error_app1 in Ha, Hb by assumption.
        exists i, j, s. auto.
      * intros (i & j & s & Ha & Hb & Hs & Hj). exists i, j, s.
        pose proof (nth_lt _ _ Ha) as Li. pose proof (nth_lt _ _ Hb) as Lj. unfold glen in Li, Lj.
        rewrite !nth_error_app1 by assumption. rewrite dget_dset.
        destruct (Nat.eqb_spec (glen g) i); [unfold glen in *; lia|]. auto.
Qed.

(* ----- replacing one adjacency set ----- *)
Lemma edge_update_ok i s' :
  i < glen g -> (forall j, In j s' -> j < glen g) ->
  let g' := mkG (nodes g) (dset i s' (edges g)) in
  g_ok g' /\ (forall k, cnode g' k <-> cnode g k) /\
  (forall x y, cedge g' x y <->
     (cedge g x y /\ nth_error (seq (nodes g)) i <> Some x) \/
     (nth_error (seq (nodes g)) i = Some x /\ exists j, In j s' /\ nth_error (seq (nodes g)) j = Some y)).
Proof.
  intros Li Hs' g'. split; [|split].
  - unfold g_ok, g', glen. cbn [nodes edges]. split; [exact RO|split; [now apply NoDup_dset|split]].
    + intros m. rewrite dget_dset. destruct (Nat.eqb_spec i m); subst.
      * split; [discriminate|intros _; exact Li].
      * apply KEYS.
    + intros m s j. rewrite dget_dset. destruct (Nat.eqb_spec i m); subst.
      * intros [= <-]. apply Hs'.
      * apply TGT.
  - intros k. reflexivity.
  - intros x y. unfold cedge, g'. cbn [nodes edges]. split.
    + intros (m & j & s & Ha & Hb & Hs & Hj). rewrite dget_dset in Hs.
      destruct (Nat.eqb_spec i m); subst.
      * inversion Hs; subst. right. split; [exact Ha|]. eauto.
      * left. split; [exists m, j, s; auto|]. intros E. apply n. exact (nth_NoDup _ _ _ _ ND E Ha).
    + intros [[(m & j & s & Ha & Hb & Hs & Hj) Hne]|[Hi (j & Hj & Hb)]].
      * exists m, j, s. rewrite dget_dset. destruct (Nat.eqb_spec i m); [subst; congruence|]. auto.
      * exists i, j, s'. rewrite dget_dset, Nat.eqb_refl. auto.
Qed.
End G.

(* ----- add_dependency ----- *)
Lemma add_dependency_ok g a b : g_ok g ->
  exists g', add_dependency g a b = Ok g' /\ g_ok g' /\
    (forall k, cnode g' k <-> cnode g k \/ k = a \/ k = b) /\
    (forall x y, cedge g' x y <-> cedge g x y \/ (x = a /\ y = b)).
Proof.
  intros OK. unfold add_dependency.
  destruct (add_node_ok g OK a) as (OK1 & N1 & E1).
  destruct (add_node_ok _ OK1 b) as (OK2 & N2 & E2).
  set (g2 := add_node (add_node g a) b) in *.
  assert (RO2 : rl_ok (nodes g2)) by apply OK2.
  assert (ND2 : NoDup (seq (nodes g2))) by (apply rl_ok_view in RO2; tauto).
  assert (Ia : In a (seq (nodes g2))) by (apply N2; left; apply N1; now right).
  assert (Ib : In b (seq (nodes g2))) by (apply N2; now right).
  destruct (pos_In _ _ Ia) as [ia Pa]. destruct (pos_In _ _ Ib) as [ib Pb].
  rewrite !(rl_index_pos _ RO2). unfold key in *. rewrite Pa, Pb. cbn [bind].
  pose proof (pos_nth _ _ _ Pa) as Ha. pose proof (pos_nth _ _ _ Pb) as Hb.
  pose proof (nth_lt _ _ _ Ha) as La. pose proof (nth_lt _ _ _ Hb) as Lb.
  destruct (edges_at _ OK2 _ La) as [s Hs]. unfold dgetE. rewrite Hs. cbn [bind].
  eexists. split; [reflexivity|].
  destruct (edge_update_ok _ OK2 ia (sadd ib s) La) as (OK3 & N3 & E3).
  { intros j Hj. apply In_sadd in Hj. destruct Hj as [->|Hj]; [exact Lb|]. eapply OK2; eauto. }
  split; [exact OK3|split].
  - intros k. rewrite N3, N2, N1. tauto.
  - intros x y. rewrite E3. split.
    + intros [[H _]|[Hx (j & Hj & Hy)]].
      * left. apply E1, E2, H.
      * assert (x = a) by kcongr. subst x. apply In_sadd in Hj. destruct Hj as [->|Hj].
        -- right. split; [reflexivity|kcongr].
        -- left. apply E1, E2. exists ia, j, s. auto.
    + intros [H|[-> ->]].
      * apply E1, E2 in H. destruct (Nat.eq_dec x a) as [->|Nx].
        -- right. split; [exact Ha|]. destruct H as (m & j & s0 & Hm & Hj & Hs0 & Hin).
           assert (m = ia) by exact (nth_NoDup _ _ _ _ ND2 Hm Ha). subst m.
           assert (s0 = s) by kcongr. subst s0.
           exists j. split; [apply In_sadd; now right|exact Hj].
        -- left. split; [exact H|]. kcongr.
      * right. split; [exact Ha|]. exists ib. split; [apply In_sadd; now left|exact Hb].
Qed.

(* ----- remove_dependency ----- *)
Lemma remove_dependency_ok g a b : g_ok g ->
  match remove_dependency g a b with
  | Ok g' => cnode g a /\ cnode g b /\ cedge g a b /\ g_ok g' /\
             (forall k, cnode g' k <-> cnode g k) /\
             (forall x y, cedge g' x y <-> cedge g x y /\ ~ (x = a /\ y = b))
  | Raise c => (c = EValue /\ (~ cnode g a \/ ~ cnode g b)) \/
               (c = EKey /\ cnode g a /\ cnode g b /\ ~ cedge g a b)
  end.
Proof.
  intros OK. unfold remove_dependency.
  assert (RO : rl_ok (nodes g)) by apply OK.
  assert (ND : NoDup (seq (nodes g))) by (apply rl_ok_view in RO; tauto).
  rewrite !(rl_index_pos _ RO).
  destruct (pos a (seq (nodes g))) as [ia|] eqn:Pa; cbn [bind];
    [|left; split; [reflexivity|left; now apply pos_None]].
  destruct (pos b (seq (nodes g))) as [ib|] eqn:Pb; cbn [bind];
    [|left; split; [reflexivity|right; now apply pos_None]].
  pose proof (pos_nth _ _ _ Pa) as Ha. pose proof (pos_nth _ _ _ Pb) as Hb.
  pose proof (nth_lt _ _ _ Ha) as La. pose proof (nth_lt _ _ _ Hb) as Lb.
  assert (Ca : cnode g a) by (eapply nth_error_In, Ha).
  assert (Cb : cnode g b) by (eapply nth_error_In, Hb).
  destruct (edges_at _ OK _ La) as [s Hs]. unfold dgetE. rewrite Hs. cbn [bind].
  destruct (mem ib s) eqn:M.
  - apply mem_In in M.
    destruct (edge_update_ok _ OK ia (srem ib s) La) as (OK3 & N3 & E3).
    { intros j Hj. apply In_srem in Hj. eapply OK; [exact Hs|tauto]. }
    split; [exact Ca|]. split; [exact Cb|]. split; [exists ia, ib, s; auto|].
    split; [exact OK3|]. split; [exact N3|]. intros x y. split.
    + intros H. split.
      * apply E3 in H. destruct H as [[H _]|[Hx (j & Hj & Hy)]]; [exact H|].
        apply In_srem in Hj. exists ia, j, s. tauto.
      * intros [-> ->]. apply E3 in H. destruct H as [[_ H]|[_ (j & Hj & Hy)]]; [kcongr|].
        apply In_srem in Hj. destruct Hj as [_ Hj]. apply Hj. exact (nth_NoDup _ _ _ _ ND Hy Hb).
    + intros [H Hne]. apply E3. destruct (Nat.eq_dec x a) as [->|Nx].
      * right. split; [exact Ha|]. destruct H as (m & j & s0 & Hm & Hj & Hs0 & Hin).
        assert (m = ia) by exact (nth_NoDup _ _ _ _ ND Hm Ha). subst m.
        assert (s0 = s) by kcongr. subst s0.
        exists j. split; [|exact Hj]. apply In_srem. split; [exact Hin|].
        intros ->. apply Hne. split; [reflexivity|kcongr].
      * left. split; [exact H|kcongr].
  - right. split; [reflexivity|]. repeat split; auto.
    intros (m & j & s0 & Hm & Hj & Hs0 & Hin).
    assert (m = ia) by exact (nth_NoDup _ _ _ _ ND Hm Ha). subst m.
    assert (j = ib) by exact (nth_NoDup _ _ _ _ ND Hj Hb). subst j.
    assert (s0 = s) by kcongr. subst s0. apply mem_false in M. contradiction.
Qed.

(* ----- remove_node: swap with the last position, rewrite the indices ----- *)
Lemma tr_inj i j a b : tr i j a = tr i j b -> a = b.
Proof. intros H. rewrite <- (tr_invol i j a), H. apply tr_invol. Qed.

Lemma tr_last_i i l : tr i l l = i.
Proof. unfold tr. destruct (Nat.eqb_spec l i); [auto|now rewrite Nat.eqb_refl]. Qed.

Lemma tr_eq_i i l m : tr i l m = i -> m = l.
Proof. intros H. apply (tr_inj i l). now rewrite tr_last_i. Qed.

Lemma tr_eq_last i l p : tr i l p = l -> p = i.
Proof. intros H. rewrite <- (tr_invol i l p), H. apply tr_last_i. Qed.

Lemma remove_node_ok g n : g_ok g ->
  exists g', remove_node g n = Ok g' /\ g_ok g' /\
    (forall k, cnode g' k <-> cnode g k /\ k <> n) /\
    (forall x y, cedge g' x y <-> cedge g x y /\ x <> n /\ y <> n).
Proof.
  intros OK. unfold remove_node.
  assert (RO : rl_ok (nodes g)) by apply OK.
  assert (ND : NoDup (seq (nodes g))) by (apply rl_ok_view in RO; tauto).
  rewrite (rl_get_index_pos _ RO). cbn [bind].
  destruct (pos n (seq (nodes g))) as [i|] eqn:Pn.
  2:{ apply pos_None in Pn. exists g. split; [reflexivity|split; [exact OK|split]].
      - intros k. unfold cnode. split; [intros H; split; [exact H|intros ->; contradiction]|tauto].
      - intros x y. split; [|tauto]. intros H. split; [exact H|].
        destruct H as (p & q & s & Hp & Hq & _). split; intros ->; apply Pn; eapply nth_error_In; eauto. }
  pose proof (pos_nth _ _ _ Pn) as Hn. pose proof (nth_lt _ _ _ Hn) as Li.
  set (last := glen g - 1). assert (EN : glen g = S last) by (unfold last; lia).
  assert (Ll : last < glen g) by lia.
  destruct (rl_swap_ok _ i last RO) as (ns & -> & ROs & Ls & NTH); [exact Li|exact Ll|]. cbn [bind].
  destruct (edges_at _ OK _ Li) as [ei Hei]. destruct (edges_at _ OK _ Ll) as [el Hel].
  unfold dgetE. rewrite Hei, Hel. cbn [bind].
  destruct (rl_delitem_last_ok ns last ROs) as (ns' & -> & RO' & S'); [rewrite Ls; exact EN|]. cbn [bind].
  eexists. split; [reflexivity|].
  set (sw := fun k => if k =? i then last else if k =? last then i else k).
  set (e4 := dmap (filter (fun k => negb (k =? last)))
                  (ddel last (dmap (map sw) (dset last ei (dset i el (edges g)))))).
  assert (G4 : forall m, dget m e4 =
                         if last =? m then None
                         else option_map (fun s => filter (fun k => negb (k =? last)) (map (tr i last) s))
                                         (dget (tr i last m) (edges g))).
  { intros m. unfold e4. rewrite dget_dmap, dget_ddel. destruct (Nat.eqb_spec last m); [reflexivity|].
    rewrite dget_dmap, !dget_dset. unfold tr.
    destruct (Nat.eqb_spec i m); subst.
    - destruct (Nat.eqb_spec last m); [congruence|]. rewrite Nat.eqb_refl. rewrite Hel. reflexivity.
    - destruct (Nat.eqb_spec last m); [congruence|].
      destruct (Nat.eqb_spec m i); [congruence|]. destruct (Nat.eqb_spec m last); [congruence|].
      destruct (dget m (edges g)); reflexivity. }
  assert (NTH' : forall m, nth_error (seq ns') m = if m <? last then nth_error (seq (nodes g)) (tr i last m) else None).
  { intros m. rewrite S', nth_error_firstn, NTH. reflexivity. }
  assert (TRL : forall m, m < glen g -> tr i last m < glen g) by (intros; now apply tr_lt).
  assert (Lns' : length (seq ns') = last).
  { rewrite S', firstn_length, Ls. unfold glen in EN. lia. }
  split; [|split].
  - unfold g_ok, glen. cbn [nodes edges]. fold e4. split; [exact RO'|split; [|split]].
    + unfold e4. rewrite keys_dmap. apply NoDup_ddel. rewrite keys_dmap.
      apply NoDup_dset, NoDup_dset, OK.
    + intros m. rewrite Lns', G4. destruct (Nat.eqb_spec last m); [subst; split; [lia|congruence]|].
      split.
      * intros Lm. destruct (edges_at _ OK (tr i last m)) as [s Hs]; [apply TRL; lia|].
        rewrite Hs. discriminate.
      * intros H. destruct (dget (tr i last m) (edges g)) eqn:E; [|cbn in H; congruence].
        apply edges_lt in E; [|exact OK]. assert (m < glen g).
        { rewrite <- (tr_invol i last m). apply TRL, E. } lia.
    + intros m s j. rewrite Lns', G4. destruct (Nat.eqb_spec last m); [discriminate|].
      destruct (dget (tr i last m) (edges g)) as [s0|] eqn:E; [|discriminate].
      cbn [option_map]. intros [= <-] Hj. apply filter_In in Hj. destruct Hj as [Hj Hne].
      apply in_map_iff in Hj. destruct Hj as (j0 & <- & Hj0).
      assert (j0 < glen g) by (eapply OK; eauto). pose proof (TRL _ H).
      destruct (Nat.eqb_spec (tr i last j0) last); [discriminate|]. lia.
  - intros k. unfold cnode. cbn [nodes]. split.
    + intros H. apply In_nth_error in H. destruct H as [m Hm]. rewrite NTH' in Hm.
      destruct (Nat.ltb_spec m last); [|discriminate]. split; [eapply nth_error_In, Hm|].
      intros ->. pose proof (nth_NoDup _ _ _ _ ND Hm Hn) as E. apply tr_eq_i in E. lia.
    + intros [H Hne]. apply In_nth_error in H. destruct H as [p Hp].
      apply (nth_error_In _ (tr i last p)). rewrite NTH', tr_invol.
      pose proof (nth_lt _ _ _ Hp) as Lp. pose proof (TRL _ Lp).
      assert (tr i last p <> last).
      { intros E. apply tr_eq_last in E. subst p. apply Hne. unfold key in *. congruence. }
      replace (tr i last p <? last) with true by (symmetry; apply Nat.ltb_lt; lia). exact Hp.
  - intros x y. unfold cedge. cbn [nodes edges]. fold e4. split.
    + intros (m & j & s' & Hm & Hj & Hs' & Hin). rewrite NTH' in Hm, Hj.
      destruct (Nat.ltb_spec m last); [|discriminate]. destruct (Nat.ltb_spec j last); [|discriminate].
      rewrite G4 in Hs'. destruct (Nat.eqb_spec last m); [lia|].
      destruct (dget (tr i last m) (edges g)) as [s|] eqn:E; [|discriminate].
      cbn [option_map] in Hs'. inversion Hs'; subst s'. apply filter_In in Hin. destruct Hin as [Hin _].
      apply in_map_iff in Hin. destruct Hin as (j0 & Ej & Hj0).
      assert (tr i last j = j0) by (rewrite <- Ej; apply tr_invol).
      split; [exists (tr i last m), (tr i last j), s; repeat split; auto; rewrite H1; exact Hj0|]. split; intros ->.
      * pose proof (nth_NoDup _ _ _ _ ND Hm Hn) as E'. apply tr_eq_i in E'. lia.
      * pose proof (nth_NoDup _ _ _ _ ND Hj Hn) as E'. apply tr_eq_i in E'. lia.
    + intros [(p & q & s & Hp & Hq & Hs & Hin) [Nx Ny]].
      pose proof (nth_lt _ _ _ Hp) as Lp. pose proof (nth_lt _ _ _ Hq) as Lq.
      pose proof (TRL _ Lp). pose proof (TRL _ Lq).
      assert (tr i last p <> last).
      { intros E. apply tr_eq_last in E. subst p. apply Nx. unfold key in *. congruence. }
      assert (tr i last q <> last).
      { intros E. apply tr_eq_last in E. subst q. apply Ny. unfold key in *. congruence. }
      exists (tr i last p), (tr i last q), (filter (fun k => negb (k =? last)) (map (tr i last) s)).
      rewrite !NTH', !tr_invol, G4, tr_invol, Hs.
      replace (tr i last p <? last) with true by (symmetry; apply Nat.ltb_lt; lia).
      replace (tr i last q <? last) with true by (symmetry; apply Nat.ltb_lt; lia).
      destruct (Nat.eqb_spec last (tr i last p)); [lia|].
      repeat split; auto. apply filter_In. split; [now apply in_map|].
      destruct (Nat.eqb_spec (tr i last q) last); [lia|reflexivity].
Qed.

(* ----- copy ----- *)
Lemma setdefault_fold_id vs (c : list (nat * list nat)) :
  (forall v, In v vs -> dget v c <> None) -> fold_left (fun c v => setdefault v c) vs c = c.
Proof.
  induction vs as [|v r IH]; intros H; cbn; [reflexivity|].
  unfold setdefault at 2. destruct (dget v c) eqn:E; [|exfalso; apply (H v); [now left|exact E]].
  apply IH. intros w Hw. apply H. now right.
Qed.

Lemma complete_closed d :
  (forall p v, In p d -> In v (snd p) -> dget v d <> None) -> complete d = dmap dedup d.
Proof.
  intros H. unfold complete. f_equal.
  assert (G : forall (l c : list (nat * list nat)), (forall p v, In p l -> In v (snd p) -> dget v c <> None) ->
                          fold_left (fun c p => fold_left (fun c v => setdefault v c) (snd p) c) l c = c).
  { induction l as [|p r IH]; intros c Hc; cbn; [reflexivity|].
    rewrite setdefault_fold_id by (intros v Hv; apply (Hc p v); [now left|exact Hv]).
    apply IH. intros q v Hq Hv. apply (Hc q v); [now right|exact Hv]. }
  apply G, H.
Qed.

Lemma copy_ok g : g_ok g ->
  g_ok (copy g) /\ (forall k, cnode (copy g) k <-> cnode g k) /\
  (forall a b, cedge (copy g) a b <-> cedge g a b).
Proof.
  intros OK. assert (RO : rl_ok (nodes g)) by apply OK.
  destruct (rl_copy_ok _ RO) as [RO1 S1].
  assert (ND : NoDup (seq (nodes g))) by (apply rl_ok_view in RO; tauto).
  unfold copy, mk_graph. rewrite S1.
  destruct (rl_of_list_ok _ ND) as [RO2 S2].
  rewrite complete_closed.
  2:{ intros [i s] v Hp Hv. cbn in Hv. apply OK. apply In_dget in Hp; [|apply OK].
      destruct OK as (_ & _ & _ & T). eapply T; eauto. }
  split; [|split].
  - unfold g_ok, glen. cbn [nodes edges]. rewrite S2. split; [exact RO2|split; [|split]].
    + rewrite keys_dmap. apply OK.
    + intros i. rewrite dget_dmap. destruct OK as (_ & _ & K & _). rewrite (K i).
      destruct (dget i (edges g)); cbn; split; congruence.
    + intros i s j. rewrite dget_dmap. destruct (dget i (edges g)) as [s0|] eqn:E; [|discriminate].
      cbn [option_map]. intros [= <-] Hj. apply (proj1 (In_dedup _ _)) in Hj. destruct OK as (_ & _ & _ & T). eapply T; eauto.
  - intros k. unfold cnode. cbn [nodes]. now rewrite S2.
  - intros a b. unfold cedge. cbn [nodes edges]. rewrite S2. split.
    + intros (i & j & s & Ha & Hb & Hs & Hj). rewrite dget_dmap in Hs.
      destruct (dget i (edges g)) as [s0|] eqn:E; [|discriminate]. cbn in Hs. inversion Hs; subst.
      apply (proj1 (In_dedup _ _)) in Hj. exists i, j, s0. auto.
    + intros (i & j & s & Ha & Hb & Hs & Hj). exists i, j, (dedup s). rewrite dget_dmap, Hs.
      repeat split; auto. now apply In_dedup.
Qed.

(* ----- what the graph reports: dependencies, dependees, dict(graph) ----- *)
Lemma mapM_names g js : g_ok g -> (forall j, In j js -> j < glen g) ->
  exists ks, names g js = Ok ks /\ Forall2 (fun j k => nth_error (seq (nodes g)) j = Some k) js ks.
Proof.
  intros OK. induction js as [|j r IH]; intros H; cbn.
  - exists []. split; [reflexivity|constructor].
  - destruct (node_at g j) as [k Hk]; [apply H; now left|].
    destruct IH as (ks & E & F); [intros; apply H; now right|].
    unfold names in E. unfold rl_get at 1. unfold key in *. rewrite Hk. cbn [bind]. rewrite E. cbn [bind].
    exists (k :: ks). split; [reflexivity|]. constructor; auto.
Qed.

Lemma Forall2_In_r {A B} (R : A -> B -> Prop) l1 l2 b :
  Forall2 R l1 l2 -> In b l2 -> exists a, In a l1 /\ R a b.
Proof.
  induction 1; cbn; [contradiction|]. intros [<-|H1]; [eauto|].
  destruct (IHForall2 H1) as (a & Ha & Hr). eauto.
Qed.

Lemma Forall2_In_l {A B} (R : A -> B -> Prop) l1 l2 a :
  Forall2 R l1 l2 -> In a l1 -> exists b, In b l2 /\ R a b.
Proof.
  induction 1; cbn; [contradiction|]. intros [<-|H1]; [eauto|].
  destruct (IHForall2 H1) as (b & Hb & Hr). eauto.
Qed.

Lemma dependencies_ok g n : g_ok g ->
  match dependencies g n false with
  | Ok l => cnode g n /\ forall b, In b l <-> cedge g n b
  | Raise c => c = EValue /\ ~ cnode g n
  end.
Proof.
  intros OK. assert (RO : rl_ok (nodes g)) by apply OK.
  assert (ND : NoDup (seq (nodes g))) by (apply rl_ok_view in RO; tauto).
  unfold dependencies. rewrite (rl_index_pos _ RO).
  destruct (pos n (seq (nodes g))) as [i|] eqn:P; cbn [bind];
    [|split; [reflexivity|now apply pos_None]].
  pose proof (pos_nth _ _ _ P) as Hn. pose proof (nth_lt _ _ _ Hn) as Li.
  destruct (edges_at _ OK _ Li) as [s Hs]. unfold dgetE. rewrite Hs. cbn [bind].
  destruct (mapM_names g s OK) as (ks & -> & F).
  { intros j Hj. destruct OK as (_ & _ & _ & T). eapply T; eauto. }
  split; [eapply nth_error_In, Hn|]. intros b. split.
  - intros Hb. destruct (Forall2_In_r _ _ _ _ F Hb) as (j & Hj & Hjb). exists i, j, s. auto.
  - intros (i' & j & s' & Hi' & Hj & Hs' & Hin).
    assert (i' = i) by exact (nth_NoDup _ _ _ _ ND Hi' Hn). subst i'.
    assert (s' = s) by congruence. subst s'.
    destruct (Forall2_In_l _ _ _ _ F Hin) as (k & Hk & Hjk). unfold key in *. congruence.
Qed.

Lemma dependees_fold g i : g_ok g -> forall ks acc,
  (forall k, In k ks -> k < glen g) ->
  exists out, foldM (fun acc k => do s <- dgetE k (edges g);
                                  Ok (if mem i s then acc ++ [k] else acc)) ks acc = Ok out /\
    forall k, In k out <-> In k acc \/ (In k ks /\ exists s, dget k (edges g) = Some s /\ In i s).
Proof.
  intros OK. induction ks as [|k r IH]; intros acc H; cbn.
  - exists acc. split; [reflexivity|]. intros k. split; [auto|intros [H1|[[] _]]; exact H1].
  - destruct (edges_at _ OK k) as [s Hs]; [apply H; now left|].
    unfold dgetE at 1. rewrite Hs. cbn [bind].
    destruct (IH (if mem i s then acc ++ [k] else acc)) as (out & E & HO); [intros; apply H; now right|].
    exists out. split; [exact E|]. intros x. rewrite HO. destruct (mem i s) eqn:M.
    + apply mem_In in M. rewrite in_app_iff. cbn. split.
      * intros [[H1|[<-|[]]]|[H1 H2]]; [now left| |right; tauto].
        right. split; [now left|eauto].
      * intros [H1|[[<-|H1] H2]]; [left; now left|left; right; now left|right; tauto].
    + apply mem_false in M. split.
      * intros [H1|[H1 H2]]; [now left|right; tauto].
      * intros [H1|[[<-|H1] H2]]; [now left| |right; tauto]. destruct H2 as (s' & Hs' & Hi).
        assert (s' = s) by congruence. subst. contradiction.
Qed.

Lemma dependees_ok g n : g_ok g ->
  match dependees g n with
  | Ok l => cnode g n /\ forall a, In a l <-> cedge g a n
  | Raise c => c = EValue /\ ~ cnode g n
  end.
Proof.
  intros OK. assert (RO : rl_ok (nodes g)) by apply OK.
  assert (ND : NoDup (seq (nodes g))) by (apply rl_ok_view in RO; tauto).
  unfold dependees. rewrite (rl_index_pos _ RO).
  destruct (pos n (seq (nodes g))) as [i|] eqn:P; cbn [bind];
    [|split; [reflexivity|now apply pos_None]].
  pose proof (pos_nth _ _ _ P) as Hn.
  destruct (dependees_fold g i OK (List.seq 0 (glen g)) []) as (out & -> & HO).
  { intros k Hk. apply in_seq in Hk. lia. }
  cbn [bind]. destruct (mapM_names g out OK) as (ks & -> & F).
  { intros j Hj. apply HO in Hj. destruct Hj as [[]|[Hj _]]. apply in_seq in Hj. lia. }
  split; [eapply nth_error_In, Hn|]. intros a. split.
  - intros Ha. destruct (Forall2_In_r _ _ _ _ F Ha) as (j & Hj & Hja).
    apply HO in Hj. destruct Hj as [[]|[_ (s & Hs & Hi)]]. exists j, i, s. auto.
  - intros (j & i' & s & Hj & Hi' & Hs & Hin).
    assert (i' = i) by exact (nth_NoDup _ _ _ _ ND Hi' Hn). subst i'.
    assert (Hjo : In j out).
    { apply HO. right. split; [|eauto]. apply in_seq. pose proof (nth_lt _ _ _ Hj). lia. }
    destruct (Forall2_In_l _ _ _ _ F Hjo) as (k & Hk & Hjk). unfold key in *. congruence.
Qed.

(* C16 — the refinement lifted to every finite history over the FULL editing
   alphabet: new graph, node/edge insertion and removal, merge (+=), +, copy,
   invert and graft of a nested graph object (node key 2r'+1 = the graph in
   register r', with whatever content it has at that moment). *)
From Coq Require Import List Arith Bool PeanoNat Lia.
From VV Require Import Lib.Base C16.Model C16.Inv C16.GraftSpec C16.ProofsR C16.ProofsG C16.ProofsM
     C16.History.
Import ListNotations.

Inductive fop :=
| FNew | FAddNode (r : nat) (n : key) | FRemoveNode (r : nat) (n : key)
| FAddDep (r : nat) (a b : key) | FRemoveDep (r : nat) (a b : key)
| FMerge (r r' : nat) | FPlus (r r' : nat) | FCopy (r : nat) | FInvert (r : nat)
| FGraft (r : nat) (n : key).

Definition f_wop (e : fop) : wop :=
  match e with
  | FNew => WNew | FAddNode r n => WAddNode r n | FRemoveNode r n => WRemoveNode r n
  | FAddDep r a b => WAddDep r a b | FRemoveDep r a b => WRemoveDep r a b
  | FMerge r r' => WMerge r r' | FPlus r r' => WPlus r r' | FCopy r => WCopy r
  | FInvert r => WInvert r | FGraft r n => WGraft r n
  end.

(* ---------- the same operations on plain node lists / edge lists ---------- *)
Definition a_merge (a b : agraph) : agraph := (fst a ++ fst b, snd a ++ snd b).
Definition a_invert (a : agraph) : agraph := (fst a, map (fun e => (snd e, fst e)) (snd a)).

Definition a_deps (a : agraph) (s : key) : list key := map snd (filter (fun e => fst e =? s) (snd a)).
Definition a_dees (a : agraph) (s : key) : list key := map fst (filter (fun e => snd e =? s) (snd a)).
Definition a_inits (SG : agraph) : list key :=
  filter (fun k => negb (existsb (fun e => snd e =? k) (snd SG))) (fst SG).
Definition a_terms (SG : agraph) : list key :=
  filter (fun k => negb (existsb (fun e => fst e =? k) (snd SG))) (fst SG).
Definition nonnil {A} (l : list A) : bool := match l with [] => false | _ => true end.

(* graft of the node s, which is the graph SG *)
Definition a_graft (a : agraph) (s : key) (SG : agraph) : agraph :=
  let deps := a_deps a s in
  let dees := a_dees a s in
  let inits := a_inits SG in
  let terms := a_terms SG in
  (filter (fun k => negb (k =? s)) (fst a) ++ fst SG
     ++ (if pmem (s, s) (snd a) && (nonnil terms || nonnil inits) then [s] else []),
   filter (fun e => negb (fst e =? s) && negb (snd e =? s)) (snd a) ++ snd SG
     ++ list_prod terms deps ++ list_prod dees inits
     ++ (if nonnil (fst SG) then []
         else filter (fun e => negb (fst e =? s) && negb (snd e =? s) && negb (fst e =? snd e))
                     (list_prod dees deps))).

Definition asub (w : list agraph) (k : key) : option agraph :=
  if Nat.odd k then nth_error w (Nat.div2 k) else None.

Definition fstep (w : list agraph) (e : fop) : res (list agraph) :=
  match e with
  | FNew => astep w ENew
  | FAddNode r n => astep w (EAddNode r n)
  | FRemoveNode r n => astep w (ERemoveNode r n)
  | FAddDep r a b => astep w (EAddDep r a b)
  | FRemoveDep r a b => astep w (ERemoveDep r a b)
  | FCopy r => astep w (ECopy r)
  | FMerge r r' => do a <- aget w r; do b <- aget w r'; Ok (set_nth r (a_merge a b) w)
  | FPlus r r' => do a <- aget w r; do b <- aget w r'; Ok (w ++ [a_merge a b])
  | FInvert r => do a <- aget w r; Ok (w ++ [a_invert a])
  | FGraft r n => do a <- aget w r;
                  match asub w n with
                  | Some SG => if mem n (fst a) then Ok (set_nth r (a_graft a n SG) w) else Raise EValue
                  | None => Raise EValue
                  end
  end.

Fixpoint wrunf (w : world) (h : list fop) : world :=
  match h with
  | [] => w
  | e :: t => match wstep w (f_wop e) with Ok w' => wrunf w' t | Raise _ => wrunf w t end
  end.

Fixpoint arunf (w : list agraph) (h : list fop) : list agraph :=
  match h with
  | [] => w
  | e :: t => match fstep w e with Ok w' => arunf w' t | Raise _ => arunf w t end
  end.

(* ---------- membership in the list-level operations ---------- *)
Lemma In_a_deps a s y : In y (a_deps a s) <-> In (s, y) (snd a).
Proof.
  unfold a_deps. rewrite in_map_iff. split.
  - intros ([x y'] & <- & H). apply filter_In in H. cbn in H. destruct H as [H E].
    apply Nat.eqb_eq in E. now subst.
  - intros H. exists (s, y). split; [reflexivity|]. apply filter_In. cbn. now rewrite Nat.eqb_refl.
Qed.

Lemma In_a_dees a s x : In x (a_dees a s) <-> In (x, s) (snd a).
Proof.
  unfold a_dees. rewrite in_map_iff. split.
  - intros ([x' y] & <- & H). apply filter_In in H. cbn in H. destruct H as [H E].
    apply Nat.eqb_eq in E. now subst.
  - intros H. exists (x, s). split; [reflexivity|]. apply filter_In. cbn. now rewrite Nat.eqb_refl.
Qed.

Lemma In_a_inits SG k : In k (a_inits SG) <-> In k (fst SG) /\ ~ exists a, In (a, k) (snd SG).
Proof.
  unfold a_inits. rewrite filter_In, negb_true_iff. split; intros [H E]; (split; [exact H|]).
  - intros [a Ha]. assert (X : existsb (fun e => snd e =? k) (snd SG) = true); [|congruence].
    apply existsb_exists. exists (a, k). split; [exact Ha|]. cbn. apply Nat.eqb_refl.
  - destruct (existsb _ _) eqn:X; [|reflexivity]. exfalso. apply E.
    apply existsb_exists in X. destruct X as ([a k'] & Ha & Ek). cbn in Ek. apply Nat.eqb_eq in Ek.
    subst. eauto.
Qed.

Lemma In_a_terms SG k : In k (a_terms SG) <-> In k (fst SG) /\ ~ exists b, In (k, b) (snd SG).
Proof.
  unfold a_terms. rewrite filter_In, negb_true_iff. split; intros [H E]; (split; [exact H|]).
  - intros [b Hb]. assert (X : existsb (fun e => fst e =? k) (snd SG) = true); [|congruence].
    apply existsb_exists. exists (k, b). split; [exact Hb|]. cbn. apply Nat.eqb_refl.
  - destruct (existsb _ _) eqn:X; [|reflexivity]. exfalso. apply E.
    apply existsb_exists in X. destruct X as ([k' b] & Hb & Ek). cbn in Ek. apply Nat.eqb_eq in Ek.
    subst. eauto.
Qed.

Lemma nonnil_ex {A} (l : list A) : nonnil l = true <-> exists x, In x l.
Proof.
  destruct l as [|a r]; cbn; split.
  - discriminate.
  - intros [x []].
  - intros _. exists a. now left.
  - reflexivity.
Qed.

Lemma nonnil_false {A} (l : list A) : nonnil l = false <-> forall x, ~ In x l.
Proof.
  destruct l as [|a r]; cbn; split.
  - intros _ x [].
  - reflexivity.
  - discriminate.
  - intros H. exfalso. apply (H a). now left.
Qed.

Section Graft.
Variables (g sub : cgraph) (a SG : agraph) (s : key).
Hypothesis RG : R g a.
Hypothesis RS : R sub SG.

Let N := proj1 (proj2 RG).
Let E := proj2 (proj2 RG).
Let NS := proj1 (proj2 RS).
Let ES := proj2 (proj2 RS).

Lemma is_init_abs k : is_init sub k <-> In k (a_inits SG).
Proof.
  unfold is_init. rewrite In_a_inits, NS. split; intros [H1 H2]; (split; [exact H1|]);
    intros [x Hx]; apply H2; exists x; now apply ES.
Qed.

Lemma is_term_abs k : is_term sub k <-> In k (a_terms SG).
Proof.
  unfold is_term. rewrite In_a_terms, NS. split; intros [H1 H2]; (split; [exact H1|]);
    intros [x Hx]; apply H2; exists x; now apply ES.
Qed.

Lemma graft_node_abs k : graft_node g s sub k <-> In k (fst (a_graft a s SG)).
Proof.
  unfold graft_node, a_graft. cbn [fst]. rewrite !in_app_iff, filter_In.
  rewrite N, NS, E.
  assert (X : (k = s /\ In (s, s) (snd a) /\ ((exists t, is_term sub t) \/ (exists i, is_init sub i)))
              <-> In k (if pmem (s, s) (snd a) && (nonnil (a_terms SG) || nonnil (a_inits SG))
                        then [s] else [])).
  { destruct (pmem (s, s) (snd a)) eqn:P; cbn [andb].
    - apply pmem_In in P. destruct (nonnil (a_terms SG) || nonnil (a_inits SG)) eqn:Q.
      + apply orb_true_iff in Q. cbn. split; [intros [-> _]; now left|intros [<-|[]]].
        split; [reflexivity|split; [exact P|]].
        destruct Q as [Q|Q]; apply nonnil_ex in Q; destruct Q as [x Hx];
          [left; exists x; now apply is_term_abs|right; exists x; now apply is_init_abs].
      + apply orb_false_iff in Q. destruct Q as [Q1 Q2].
        pose proof (proj1 (nonnil_false _) Q1) as F1. pose proof (proj1 (nonnil_false _) Q2) as F2.
        cbn. split; [|tauto]. intros (_ & _ & [[t Ht]|[i Hi]]).
        * apply (F1 t), is_term_abs, Ht.
        * apply (F2 i), is_init_abs, Hi.
    - cbn. split; [|tauto]. intros (_ & H & _). apply pmem_In in H. congruence. }
  rewrite X. destruct (Nat.eqb_spec k s); cbn [negb]; intuition congruence.
Qed.

Lemma graft_edge_abs x y : graft_edge g s sub x y <-> In (x, y) (snd (a_graft a s SG)).
Proof.
  unfold graft_edge, a_graft. cbn [snd]. rewrite !in_app_iff, filter_In, !in_prod_iff. cbn [fst snd].
  rewrite In_a_deps, In_a_dees, <- is_term_abs, <- is_init_abs, !E, ES.
  assert (X : ((forall k, ~ cnode sub k) /\ In (x, s) (snd a) /\ In (s, y) (snd a)
               /\ x <> s /\ y <> s /\ x <> y)
              <-> In (x, y) (if nonnil (fst SG) then []
                             else filter (fun e => negb (fst e =? s) && negb (snd e =? s)
                                                   && negb (fst e =? snd e))
                                         (list_prod (a_dees a s) (a_deps a s)))).
  { destruct (nonnil (fst SG)) eqn:Q.
    - apply nonnil_ex in Q. destruct Q as [k Hk]. cbn. split; [|tauto].
      intros [H _]. apply (H k), NS, Hk.
    - pose proof (proj1 (nonnil_false _) Q) as F. rewrite filter_In, in_prod_iff. cbn [fst snd].
      rewrite In_a_deps, In_a_dees.
      destruct (Nat.eqb_spec x s), (Nat.eqb_spec y s), (Nat.eqb_spec x y); cbn; split;
        try (intros (_ & _ & _ & ? & ? & ?); congruence); try (intros [_ ?]; discriminate).
      + intros (_ & H1 & H2 & _). tauto.
      + intros [[H1 H2] _]. split; [intros k Hk; apply (F k), NS, Hk|tauto]. }
  rewrite X.
  destruct (Nat.eqb_spec x s), (Nat.eqb_spec y s); cbn [negb andb]; intuition congruence.
Qed.
End Graft.

Lemma sub_of_abs w aw k :
  Forall2 R w aw ->
  match sub_of w k, asub aw k with
  | Some sub, Some SG => R sub SG
  | None, None => True
  | _, _ => False
  end.
Proof.
  intros F. unfold sub_of, asub. destruct (Nat.odd k); [|exact I].
  destruct (nth_error w (Nat.div2 k)) as [sub|] eqn:E1.
  - destruct (F2_nth _ _ _ _ _ F E1) as (SG & -> & H). exact H.
  - now rewrite (F2_nth_none _ _ _ _ F E1).
Qed.

(* ---------- one step ---------- *)
Theorem step_refines_full w aw e :
  Forall2 R w aw ->
  match wstep w (f_wop e), fstep aw e with
  | Ok w', Ok aw' => Forall2 R w' aw'
  | Raise c, Raise c' => c = c'
  | _, _ => False
  end.
Proof.
  intros F.
  destruct e as [|r n|r n|r x y|r x y|r r'|r r'|r|r|r n];
    try (cbn [f_wop fstep];
         first [exact (step_refines w aw ENew F) | exact (step_refines w aw (EAddNode r n) F)
               | exact (step_refines w aw (ERemoveNode r n) F)
               | exact (step_refines w aw (EAddDep r x y) F)
               | exact (step_refines w aw (ERemoveDep r x y) F)
               | exact (step_refines w aw (ECopy r) F)]).
  - (* merge *)
    cbn [f_wop fstep wstep]. unfold wget, aget. destruct (nth_error w r) as [g|] eqn:E1.
    + destruct (F2_nth _ _ _ _ _ F E1) as (a & -> & RG). cbn [bind].
      destruct (nth_error w r') as [h|] eqn:E2.
      * destruct (F2_nth _ _ _ _ _ F E2) as (b & -> & RH). cbn [bind].
        destruct RG as (OKg & Ng & Eg). destruct RH as (OKh & Nh & Eh).
        destruct (merge_ok g h OKg OKh) as (g' & -> & OK' & N' & E'). cbn [bind].
        apply F2_set; [exact F|]. split; [exact OK'|]. unfold a_merge. cbn [fst snd]. split.
        -- intros k. rewrite N', Ng, Nh, in_app_iff. tauto.
        -- intros x y. rewrite E', Eg, Eh, in_app_iff. tauto.
      * rewrite (F2_nth_none _ _ _ _ F E2). reflexivity.
    + rewrite (F2_nth_none _ _ _ _ F E1). reflexivity.
  - (* plus *)
    cbn [f_wop fstep wstep]. unfold wget, aget. destruct (nth_error w r) as [g|] eqn:E1.
    + destruct (F2_nth _ _ _ _ _ F E1) as (a & -> & RG). cbn [bind].
      destruct (nth_error w r') as [h|] eqn:E2.
      * destruct (F2_nth _ _ _ _ _ F E2) as (b & -> & RH). cbn [bind].
        destruct RG as (OKg & Ng & Eg). destruct RH as (OKh & Nh & Eh).
        destruct (copy_ok g OKg) as (OKc & Nc & Ec).
        destruct (merge_ok (copy g) h OKc OKh) as (g' & -> & OK' & N' & E'). cbn [bind].
        apply Forall2_app; [exact F|]. constructor; [|constructor]. split; [exact OK'|].
        unfold a_merge. cbn [fst snd]. split.
        -- intros k. rewrite N', Nc, Ng, Nh, in_app_iff. tauto.
        -- intros x y. rewrite E', Ec, Eg, Eh, in_app_iff. tauto.
      * rewrite (F2_nth_none _ _ _ _ F E2). reflexivity.
    + rewrite (F2_nth_none _ _ _ _ F E1). reflexivity.
  - (* invert *)
    cbn [f_wop fstep wstep]. unfold wget, aget. destruct (nth_error w r) as [g|] eqn:E1.
    + destruct (F2_nth _ _ _ _ _ F E1) as (a & -> & (OKg & Ng & Eg)). cbn [bind].
      destruct (invert_ok g OKg) as (OK' & N' & E').
      apply Forall2_app; [exact F|]. constructor; [|constructor]. split; [exact OK'|].
      unfold a_invert. cbn [fst snd]. split.
      * intros k. rewrite N'. apply Ng.
      * intros x y. rewrite E', Eg, in_map_iff. split.
        -- intros H. exists (y, x). auto.
        -- intros ([u v] & [= <- <-] & H). exact H.
    + rewrite (F2_nth_none _ _ _ _ F E1). reflexivity.
  - (* graft *)
    cbn [f_wop fstep wstep]. unfold wget, aget. destruct (nth_error w r) as [g|] eqn:E1.
    + destruct (F2_nth _ _ _ _ _ F E1) as (a & -> & RG). cbn [bind].
      pose proof (sub_of_abs w aw n F) as SA.
      destruct (sub_of w n) as [sub|], (asub aw n) as [SG|]; try contradiction; [|reflexivity].
      pose proof RG as (OKg & Ng & Eg). pose proof SA as (OKs & _).
      pose proof (graft_ok g n sub OKg OKs) as G.
      destruct (graft g n sub) as [g'|c]; cbn [bind].
      * destruct G as (Cn & OK' & N' & E'). apply Ng, mem_In in Cn. rewrite Cn.
        apply F2_set; [exact F|]. split; [exact OK'|]. split.
        -- intros k. rewrite N'. apply (graft_node_abs g sub a SG n RG SA).
        -- intros x y. rewrite E'. apply (graft_edge_abs g sub a SG n RG SA).
      * destruct G as [-> Cn]. destruct (mem n (fst a)) eqn:M; [|reflexivity].
        apply mem_In, Ng in M. contradiction.
    + rewrite (F2_nth_none _ _ _ _ F E1). reflexivity.
Qed.

Theorem run_refines_full h : forall w aw, Forall2 R w aw -> Forall2 R (wrunf w h) (arunf aw h).
Proof.
  induction h as [|e t IH]; intros w aw F; cbn; [exact F|].
  pose proof (step_refines_full w aw e F) as SG.
  destruct (wstep w (f_wop e)), (fstep aw e); try contradiction; apply IH; assumption.
Qed.

(* every finite history of editing operations, merges, copies, inversions and grafts *)
Theorem edit_history_refines : forall (h : list fop) r g,
  nth_error (wrunf [] h) r = Some g ->
  exists a, nth_error (arunf [] h) r = Some a /\ g_ok g /\
    (forall k, In k (seq (nodes g)) <-> In k (fst a)) /\
    (forall n, match dependencies g n false with
               | Ok l => In n (fst a) /\ forall b, In b l <-> In (n, b) (snd a)
               | Raise c => c = EValue /\ ~ In n (fst a)
               end) /\
    (forall n, match dependees g n with
               | Ok l => In n (fst a) /\ forall b, In b l <-> In (b, n) (snd a)
               | Raise c => c = EValue /\ ~ In n (fst a)
               end).
Proof.
  intros h r g E.
  destruct (F2_nth _ _ _ _ _ (run_refines_full h [] [] (Forall2_nil _)) E) as (a & Ea & OK & N & Ed).
  exists a. split; [exact Ea|]. split; [exact OK|]. split; [exact N|]. split; intros n.
  - pose proof (dependencies_ok g n OK) as H. destruct (dependencies g n false).
    + destruct H as [C H]. split; [now apply N|]. intros b. rewrite H. apply Ed.
    + destruct H as [-> H]. split; [reflexivity|]. intros HI. apply H, N, HI.
  - pose proof (dependees_ok g n OK) as H. destruct (dependees g n).
    + destruct H as [C H]. split; [now apply N|]. intros b. rewrite H. apply Ed.
    + destruct H as [-> H]. split; [reflexivity|]. intros HI. apply H, N, HI.
Qed.

(* ---------- frame: which objects of the world an operation can change ---------- *)
Definition target (e : fop) : option nat :=
  match e with
  | FNew | FPlus _ _ | FCopy _ | FInvert _ => None          (* only a NEW object appears *)
  | FAddNode r _ | FRemoveNode r _ | FAddDep r _ _ | FRemoveDep r _ _ | FMerge r _ | FGraft r _ => Some r
  end.

Theorem frame_full : forall (w : world) e w' q,
  wstep w (f_wop e) = Ok w' -> q < length w -> target e <> Some q ->
  nth_error w' q = nth_error w q.
Proof.
  intros w e w' q SG Lq T.
  assert (SN : forall r (x : cgraph), r <> q -> nth_error (set_nth r x w) q = nth_error w q).
  { intros r x Hr. rewrite nth_error_set_nth. destruct (Nat.eqb_spec q r); [congruence|reflexivity]. }
  assert (AP : forall x : cgraph, nth_error (w ++ [x]) q = nth_error w q)
    by (intros; now apply nth_error_app1).
  destruct e as [|r n|r n|r x y|r x y|r r'|r r'|r|r|r n]; cbn [f_wop wstep target] in *;
    unfold wget in SG;
    repeat match type of SG with
           | context [nth_error w ?r] => destruct (nth_error w r); cbn [bind] in SG; try discriminate
           end.
  - inversion SG; subst. apply AP.
  - inversion SG; subst. apply SN. congruence.
  - destruct (remove_node c n); [|discriminate]. inversion SG; subst. apply SN. congruence.
  - destruct (add_dependency c x y); [|discriminate]. inversion SG; subst. apply SN. congruence.
  - destruct (remove_dependency c x y); [|discriminate]. inversion SG; subst. apply SN. congruence.
  - destruct (merge c c0); [|discriminate]. inversion SG; subst. apply SN. congruence.
  - destruct (merge (copy c) c0); [|discriminate]. inversion SG; subst. apply AP.
  - inversion SG; subst. apply AP.
  - inversion SG; subst. apply AP.
  - destruct (sub_of w n); [|discriminate]. cbn [bind] in SG.
    destruct (graft c n c0); [|discriminate]. inversion SG; subst. apply SN. congruence.
Qed.

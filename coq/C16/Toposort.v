(* C16 — the DFS topological sort of the model is correct for every graph
   that satisfies the representation invariant [g_ok] (unbounded: induction on
   the fuel and on the target lists, no computation).

   Plan.  Under [g_ok] the concrete visit [ts_visit] (index look-ups in the
   RList, edge sets of positions) is equal to an abstract DFS [dfs] over a
   successor function [sc_of g : key -> list key] whose graph is exactly
   [cedge g].  All the graph theory is done once for the abstract DFS
   (Section DFS): soundness invariant, fuel bound, cycle witness.  *)
From Coq Require Import List Arith Bool PeanoNat Relations Lia.
From VV Require Import Lib.Base C16.Model C16.Inv.
Import ListNotations.

(* ---------- association lists ---------- *)
Lemma dget_dset {W} k k' (v : W) d :
  dget k (dset k' v d) = if k' =? k then Some v else dget k d.
Proof.
  induction d as [|[k0 v0] r IH]; cbn.
  - reflexivity.
  - destruct (Nat.eqb_spec k0 k'); cbn.
    + subst. destruct (Nat.eqb_spec k' k); reflexivity.
    + rewrite IH. destruct (Nat.eqb_spec k0 k), (Nat.eqb_spec k' k); try reflexivity. congruence.
Qed.

(* ---------- lists ---------- *)
Lemma NoDup_snoc {A} (l : list A) a : NoDup l -> ~ In a l -> NoDup (l ++ [a]).
Proof.
  induction 1 as [|x l Hx Hl IH]; cbn; intros Ha.
  - constructor; [intros []|constructor].
  - constructor.
    + rewrite in_app_iff; cbn. intros [H|[H|[]]]; [auto|subst; auto].
    + apply IH. auto.
Qed.

Lemma split_unique {A} (b : A) x1 : forall y1 x2 y2,
  ~ In b x1 -> ~ In b x2 -> x1 ++ b :: y1 = x2 ++ b :: y2 -> x1 = x2 /\ y1 = y2.
Proof.
  induction x1 as [|a x1 IH]; intros y1 [|a2 x2] y2 H1 H2 He; cbn in *.
  - inversion He; auto.
  - inversion He; subst. tauto.
  - inversion He; subst. tauto.
  - inversion He; subst. destruct (IH y1 x2 y2) as [-> ->]; auto.
Qed.

Lemma before_trans c b a r : NoDup r -> before c b r -> before b a r -> before c a r.
Proof.
  intros Hnd (l1 & l2 & l3 & H1) (m1 & m2 & m3 & H2).
  assert (Hn1 := Hnd). rewrite H1 in Hn1. assert (Hn2 := Hnd). rewrite H2 in Hn2.
  change (l1 ++ c :: l2 ++ b :: l3) with (l1 ++ (c :: l2) ++ b :: l3) in Hn1.
  rewrite app_assoc in Hn1. apply NoDup_remove_2 in Hn1. apply NoDup_remove_2 in Hn2.
  assert (He : (l1 ++ c :: l2) ++ b :: l3 = m1 ++ b :: m2 ++ a :: m3).
  { rewrite <- app_assoc. cbn. congruence. }
  apply split_unique in He as [E1 E2].
  - exists l1, (l2 ++ b :: m2), m3. rewrite H1, E2, <- app_assoc. reflexivity.
  - intros Hx. apply Hn1. apply in_or_app. left. exact Hx.
  - intros Hx. apply Hn2. apply in_or_app. left. exact Hx.
Qed.

Lemma before_irrefl a r : NoDup r -> ~ before a a r.
Proof.
  intros Hnd (l1 & l2 & l3 & H). rewrite H in Hnd. apply NoDup_remove_2 in Hnd.
  apply Hnd. rewrite in_app_iff. right. rewrite in_app_iff. right. left. reflexivity.
Qed.

Lemma filter_le {A} (p q : A -> bool) l :
  (forall x, q x = true -> p x = true) -> length (filter q l) <= length (filter p l).
Proof.
  intros H. induction l as [|x l IH]; cbn; [lia|].
  destruct (q x) eqn:Hq; [rewrite (H _ Hq); cbn; lia|]. destruct (p x); cbn; lia.
Qed.

Lemma filter_lt {A} (p q : A -> bool) l a :
  (forall x, q x = true -> p x = true) -> In a l -> p a = true -> q a = false ->
  length (filter q l) < length (filter p l).
Proof.
  intros H. induction l as [|x l IH]; cbn; [tauto|]. intros [->|Ha] Hp Hq.
  - rewrite Hp, Hq. cbn. pose proof (filter_le p q l H). lia.
  - specialize (IH Ha Hp Hq). destruct (q x) eqn:Hqx; [rewrite (H _ Hqx); cbn; lia|].
    destruct (p x); cbn; lia.
Qed.

Lemma clos_trans_iff (R R' : key -> key -> Prop) :
  (forall a b, R a b -> R' a b) -> forall a b, clos_trans key R a b -> clos_trans key R' a b.
Proof.
  intros H a b Hc. induction Hc; [apply t_step; auto | eapply t_trans; eauto].
Qed.

Lemma foldM_ext {A B} (f f' : A -> B -> res A) l :
  (forall a b, In b l -> f a b = f' a b) -> forall a, foldM f l a = foldM f' l a.
Proof.
  induction l as [|b l IH]; intros H a; cbn; [reflexivity|].
  rewrite (H a b (or_introl eq_refl)). destruct (f' a b); cbn; [|reflexivity].
  apply IH. intros; apply H; right; assumption.
Qed.

(* ====================================================================== *)
(* The abstract DFS over a successor function.                             *)
Section DFS.
Variable sc : key -> list key.
Variable V : list key.
Hypothesis V_tgt : forall a b, In b (sc a) -> In b V.
Hypothesis V_src : forall a b, In b (sc a) -> In a V.

Definition E (a b : key) : Prop := In b (sc a).

Definition dstate := (list (key * bool) * list key)%type.

Fixpoint dfs (fuel : nat) (st : dstate) (node : key) : res dstate :=
  match fuel with
  | 0 => Raise EFuel
  | S f =>
    match dget node (fst st) with
    | Some false => Raise ECyclic
    | Some true => Ok st
    | None =>
      do st' <- foldM (dfs f) (sc node) (dset node false (fst st), snd st);
      Ok (dset node true (fst st'), snd st' ++ [node])
    end
  end.

Definition wrap (F : nat) (st : dstate) (node : key) : res dstate :=
  match dget node (fst st) with Some _ => Ok st | None => dfs F st node end.

Definition tsort : res (list key) :=
  do st <- foldM (wrap (length V + 2)) V ([], []); Ok (snd st).

Definition tempm (m : list (key * bool)) (k : key) : Prop := dget k m = Some false.
Definition permm (m : list (key * bool)) (k : key) : Prop := dget k m = Some true.

(* a completed visit leaves the TEMP marks as they were *)
Lemma dfs_temp f : forall st a st', dfs f st a = Ok st' ->
  forall k, tempm (fst st') k <-> tempm (fst st) k.
Proof.
  induction f as [|f IH]; intros st a st'; cbn [dfs]; [discriminate|].
  destruct (dget a (fst st)) as [[|]|] eqn:Ha.
  - intros H; inversion H; tauto.
  - discriminate.
  - destruct (foldM (dfs f) (sc a) (dset a false (fst st), snd st)) as [st1|c] eqn:Hf;
      cbn [bind]; [|discriminate].
    intros H; inversion H; subst st'; clear H. cbn [fst].
    assert (Hfold : forall l s s', foldM (dfs f) l s = Ok s' ->
                      forall k, tempm (fst s') k <-> tempm (fst s) k).
    { induction l as [|b l IHl]; intros s s'; cbn [foldM].
      - intros H; inversion H; tauto.
      - destruct (dfs f s b) as [s1|c] eqn:Hb; cbn [bind]; [|discriminate].
        intros H k. rewrite (IHl _ _ H k). apply (IH _ _ _ Hb). }
    intros k. specialize (Hfold _ _ _ Hf k). cbn [fst] in Hfold. unfold tempm in *.
    rewrite dget_dset in *. destruct (Nat.eqb_spec a k).
    + subst. split; [discriminate|congruence].
    + exact Hfold.
Qed.

Lemma fold_temp f : forall l s s', foldM (dfs f) l s = Ok s' ->
  forall k, tempm (fst s') k <-> tempm (fst s) k.
Proof.
  induction l as [|b l IHl]; intros s s'; cbn [foldM].
  - intros H; inversion H; tauto.
  - destruct (dfs f s b) as [s1|c] eqn:Hb; cbn [bind]; [|discriminate].
    intros H k. rewrite (IHl _ _ H k). apply (dfs_temp _ _ _ _ Hb).
Qed.

(* ---------- soundness invariant ---------- *)
Definition Inv (st : dstate) : Prop :=
  (forall k, permm (fst st) k <-> In k (snd st)) /\ NoDup (snd st) /\
  (forall k, In k (snd st) -> In k V) /\
  (forall a b, In a (snd st) -> E a b -> before b a (snd st)).

Lemma before_snoc b a r x : before b a r -> before b a (r ++ [x]).
Proof.
  intros (l1 & l2 & l3 & H). exists l1, l2, (l3 ++ [x]). rewrite H.
  rewrite <- app_assoc. cbn. rewrite <- app_assoc. reflexivity.
Qed.

Lemma dfs_sound f : forall st a st', Inv st -> In a V -> dfs f st a = Ok st' ->
  Inv st' /\ permm (fst st') a /\ (forall k, permm (fst st) k -> permm (fst st') k).
Proof.
  induction f as [|f IH]; intros st a st' HI HaV; cbn [dfs]; [discriminate|].
  destruct (dget a (fst st)) as [[|]|] eqn:Hd.
  - intros H; inversion H; subst. split; [assumption|split; [exact Hd|auto]].
  - discriminate.
  - destruct (foldM (dfs f) (sc a) (dset a false (fst st), snd st)) as [st1|c] eqn:Hf;
      cbn [bind]; [|discriminate].
    intros H; inversion H; subst st'; clear H.
    assert (Hfold : forall l s s', Inv s -> incl l V -> foldM (dfs f) l s = Ok s' ->
              Inv s' /\ (forall b, In b l -> permm (fst s') b) /\
              (forall k, permm (fst s) k -> permm (fst s') k)).
    { induction l as [|b l IHl]; intros s s' Hs Hl; cbn [foldM].
      - intros H; inversion H; subst. split; [assumption|split; [intros ? []|auto]].
      - destruct (dfs f s b) as [s1|c] eqn:Hb; cbn [bind]; [|discriminate]. intros H.
        destruct (IH _ _ _ Hs (Hl b (or_introl eq_refl)) Hb) as (I1 & P1 & M1).
        destruct (IHl _ _ I1 (fun x Hx => Hl x (or_intror Hx)) H) as (I2 & P2 & M2).
        split; [exact I2|split].
        + intros x [<-|Hx]; [apply M2, P1 | apply P2, Hx].
        + intros k Hk. apply M2, M1, Hk. }
    destruct st as [m r]; cbn [fst snd] in *.
    assert (HI1 : Inv (dset a false m, r)).
    { destruct HI as (A1 & A2 & A3 & A4). cbn [fst snd] in *. split; [|auto]. cbn [fst snd]. intros k.
      rewrite <- A1. unfold permm. rewrite dget_dset. destruct (Nat.eqb_spec a k); [|tauto].
      subst. rewrite Hd. split; discriminate. }
    destruct (Hfold _ _ _ HI1 (fun b Hb => V_tgt a b Hb) Hf) as (I1 & P1 & M1).
    pose proof (fold_temp _ _ _ _ Hf a) as Ht. destruct st1 as [m1 r1]; cbn [fst snd] in *.
    assert (Hta : tempm m1 a).
    { apply Ht. unfold tempm. rewrite dget_dset, Nat.eqb_refl. reflexivity. }
    destruct I1 as (B1 & B2 & B3 & B4); cbn [fst snd] in *.
    assert (Hnin : ~ In a r1).
    { intros Hin. apply B1 in Hin. unfold permm, tempm in *. congruence. }
    split; [|split].
    + split; [|split; [|split]]; cbn [fst snd].
      * intros k. unfold permm. rewrite dget_dset, in_app_iff. cbn.
        destruct (Nat.eqb_spec a k); [subst; tauto|].
        rewrite <- B1. unfold permm. intuition congruence.
      * apply NoDup_snoc; assumption.
      * intros k. rewrite in_app_iff. cbn. intros [Hk|[<-|[]]]; auto.
      * intros x b. rewrite in_app_iff. cbn. intros [Hx|[<-|[]]] Hxb.
        -- apply before_snoc. apply B4; assumption.
        -- assert (Hb : In b r1) by (apply B1, P1, Hxb).
           apply in_split in Hb as (l1 & l2 & ->). exists l1, l2, [].
           rewrite <- app_assoc. reflexivity.
    + unfold permm. rewrite dget_dset, Nat.eqb_refl. reflexivity.
    + intros k Hk. unfold permm. rewrite dget_dset. destruct (Nat.eqb_spec a k); [reflexivity|].
      apply M1. unfold permm. rewrite dget_dset. destruct (Nat.eqb_spec a k); [contradiction|].
      exact Hk.
Qed.

Lemma top_sound F : forall l st st', Inv st -> (forall k, ~ tempm (fst st) k) -> incl l V ->
  foldM (wrap F) l st = Ok st' ->
  Inv st' /\ (forall k, ~ tempm (fst st') k) /\ (forall b, In b l -> permm (fst st') b) /\
  (forall k, permm (fst st) k -> permm (fst st') k).
Proof.
  induction l as [|b l IHl]; intros st st' HI HT Hl; cbn [foldM].
  - intros H; inversion H; subst. split; [assumption|split; [assumption|split; [intros ? []|auto]]].
  - assert (Hl' : incl l V) by (intros x Hx; apply Hl; right; exact Hx).
    unfold wrap at 1. destruct (dget b (fst st)) as [v|] eqn:Hd.
    + cbn [bind]. intros H. destruct (IHl _ _ HI HT Hl' H) as (I2 & T2 & P2 & M2).
      split; [exact I2|split; [exact T2|split; [|exact M2]]].
      intros x [<-|Hx]; [|apply P2, Hx]. apply M2. destruct v; [exact Hd|].
      exfalso. apply (HT b Hd).
    + destruct (dfs F st b) as [s1|c] eqn:Hb; cbn [bind]; [|discriminate]. intros H.
      destruct (dfs_sound _ _ _ _ HI (Hl b (or_introl eq_refl)) Hb) as (I1 & P1 & M1).
      assert (T1 : forall k, ~ tempm (fst s1) k).
      { intros k Hk. apply (HT k). apply (dfs_temp _ _ _ _ Hb k). exact Hk. }
      destruct (IHl _ _ I1 T1 Hl' H) as (I2 & T2 & P2 & M2).
      split; [exact I2|split; [exact T2|split]].
      * intros x [<-|Hx]; [apply M2, P1 | apply P2, Hx].
      * intros k Hk. apply M2, M1, Hk.
Qed.

Lemma Inv_init : Inv ([], []).
Proof.
  split; [|split; [|split]]; cbn.
  - intros k. unfold permm. cbn. split; [discriminate|intros []].
  - constructor.
  - intros ? [].
  - intros ? ? [].
Qed.

Theorem tsort_sound order : tsort = Ok order ->
  NoDup order /\ (forall k, In k order <-> In k V) /\
  (forall a b, E a b -> before b a order) /\ (forall a, ~ clos_trans key E a a).
Proof.
  unfold tsort. destruct (foldM (wrap (length V + 2)) V ([], [])) as [st|c] eqn:Hf;
    cbn [bind]; [|discriminate].
  intros H; inversion H; subst order; clear H.
  destruct (top_sound _ _ _ _ Inv_init (fun k (H : tempm [] k) => ltac:(discriminate H))
                      (incl_refl V) Hf) as (I & T & P & _).
  destruct I as (A1 & A2 & A3 & A4).
  assert (Hedge : forall a b, E a b -> before b a (snd st)).
  { intros a b Hab. apply A4; [|exact Hab]. apply A1, P. eapply V_src, Hab. }
  split; [exact A2|split; [|split]].
  - intros k. split; [apply A3|]. intros Hk. apply A1, P, Hk.
  - exact Hedge.
  - assert (Hc : forall a b, clos_trans key E a b -> before b a (snd st)).
    { intros a b Hab. induction Hab; [auto|]. eapply before_trans; eauto. }
    intros a Ha. apply (before_irrefl a (snd st) A2). apply Hc, Ha.
Qed.

(* ---------- fuel: the number of nodes that are not TEMP-marked ---------- *)
Definition is_temp (m : list (key * bool)) (v : key) : bool :=
  match dget v m with Some false => true | _ => false end.
Definition free (m : list (key * bool)) : nat :=
  length (filter (fun v => negb (is_temp m v)) V).

Lemma free_ext m m' : (forall k, tempm m' k <-> tempm m k) -> free m' = free m.
Proof.
  intros H. unfold free. f_equal. apply filter_ext. intros v. f_equal.
  unfold is_temp. specialize (H v). unfold tempm in H.
  destruct (dget v m') as [[|]|], (dget v m) as [[|]|]; try reflexivity;
    destruct H as [H1 H2]; try (specialize (H1 eq_refl); discriminate);
    try (specialize (H2 eq_refl); discriminate).
Qed.

Lemma free_push m a : In a V -> dget a m = None -> free (dset a false m) < free m.
Proof.
  intros Ha Hd. unfold free. apply filter_lt with (a := a); [|exact Ha| |].
  - intros x. unfold is_temp. rewrite dget_dset. destruct (Nat.eqb_spec a x); [discriminate|auto].
  - unfold is_temp. rewrite Hd. reflexivity.
  - unfold is_temp. rewrite dget_dset, Nat.eqb_refl. reflexivity.
Qed.

Lemma free_le m : free m <= length V.
Proof.
  unfold free. generalize (fun v => negb (is_temp m v)). intros p. clear.
  induction V as [|x l IH]; cbn; [lia|]. destruct (p x); cbn; lia.
Qed.

Lemma dfs_nofuel f : forall st a c, In a V -> free (fst st) < f -> dfs f st a = Raise c -> c = ECyclic.
Proof.
  induction f as [|f IH]; intros st a c HaV Hfr; [lia|]. cbn [dfs].
  destruct (dget a (fst st)) as [[|]|] eqn:Hd.
  - discriminate.
  - intros H; inversion H; reflexivity.
  - destruct (foldM (dfs f) (sc a) (dset a false (fst st), snd st)) as [st1|c1] eqn:Hf;
      cbn [bind]; [discriminate|].
    intros H; inversion H; subst c1; clear H.
    assert (Hfold : forall l s, incl l V -> free (fst s) < f -> foldM (dfs f) l s = Raise c -> c = ECyclic).
    { induction l as [|b l IHl]; intros s Hl Hs; cbn [foldM]; [discriminate|].
      destruct (dfs f s b) as [s1|c1] eqn:Hb; cbn [bind].
      - apply IHl; [intros x Hx; apply Hl; right; exact Hx|].
        rewrite (free_ext _ _ (dfs_temp _ _ _ _ Hb)). exact Hs.
      - intros H; inversion H; subst c1. eapply IH; [|exact Hs|exact Hb]. apply Hl; left; reflexivity. }
    apply (Hfold _ _ (fun b Hb => V_tgt a b Hb)) in Hf; [exact Hf|]. cbn [fst].
    pose proof (free_push _ _ HaV Hd). lia.
Qed.

(* ---------- ECyclic comes with a cycle ---------- *)
Lemma dfs_cyc f : forall st a, (forall k, tempm (fst st) k -> clos_trans key E k a) ->
  dfs f st a = Raise ECyclic -> exists x, clos_trans key E x x.
Proof.
  induction f as [|f IH]; intros st a HT; cbn [dfs]; [discriminate|].
  destruct (dget a (fst st)) as [[|]|] eqn:Hd.
  - discriminate.
  - intros _. exists a. apply HT. exact Hd.
  - destruct (foldM (dfs f) (sc a) (dset a false (fst st), snd st)) as [st1|c1] eqn:Hf;
      cbn [bind]; [discriminate|].
    intros H; inversion H; subst c1; clear H.
    assert (Hfold : forall l s, (forall b, In b l -> forall k, tempm (fst s) k -> clos_trans key E k b) ->
                      foldM (dfs f) l s = Raise ECyclic -> exists x, clos_trans key E x x).
    { induction l as [|b l IHl]; intros s Hs; cbn [foldM]; [discriminate|].
      destruct (dfs f s b) as [s1|c1] eqn:Hb; cbn [bind].
      - apply IHl. intros x Hx k Hk. apply (Hs x (or_intror Hx)).
        apply (dfs_temp _ _ _ _ Hb k). exact Hk.
      - intros H; inversion H; subst c1. eapply IH; [|exact Hb]. apply Hs. left; reflexivity. }
    apply (Hfold _ _) in Hf; [exact Hf|]. cbn [fst]. intros b Hb k. unfold tempm.
    rewrite dget_dset. destruct (Nat.eqb_spec a k).
    + subst. intros _. apply t_step. exact Hb.
    + intros Hk. eapply t_trans; [apply HT, Hk|apply t_step, Hb].
Qed.

Lemma top_raise : forall l st c, incl l V -> (forall k, ~ tempm (fst st) k) ->
  foldM (wrap (length V + 2)) l st = Raise c -> c = ECyclic /\ exists x, clos_trans key E x x.
Proof.
  induction l as [|b l IHl]; intros st c Hl HT; cbn [foldM]; [discriminate|].
  assert (Hl' : incl l V) by (intros x Hx; apply Hl; right; exact Hx).
  unfold wrap at 1. destruct (dget b (fst st)) as [v|] eqn:Hd.
  - cbn [bind]. apply IHl; assumption.
  - destruct (dfs (length V + 2) st b) as [s1|c1] eqn:Hb; cbn [bind].
    + apply IHl; [assumption|]. intros k Hk. apply (HT k). apply (dfs_temp _ _ _ _ Hb k). exact Hk.
    + intros H; inversion H; subst c1; clear H.
      assert (c = ECyclic).
      { eapply dfs_nofuel; [|  |exact Hb]; [apply Hl; left; reflexivity|].
        pose proof (free_le (fst st)). lia. }
      subst c. split; [reflexivity|]. eapply dfs_cyc; [|exact Hb]. intros k Hk. destruct (HT k Hk).
Qed.

Theorem tsort_total : (exists order, tsort = Ok order) \/
  (tsort = Raise ECyclic /\ exists x, clos_trans key E x x).
Proof.
  unfold tsort. destruct (foldM (wrap (length V + 2)) V ([], [])) as [st|c] eqn:Hf; cbn [bind].
  - left. eauto.
  - right. apply top_raise in Hf as [-> Hx]; [auto|apply incl_refl|]. intros k H. discriminate H.
Qed.

End DFS.

(* ====================================================================== *)
(* The concrete graph.                                                     *)

(* successors (as keys) of a key: dependencies of the node *)
Definition sc_of (g : cgraph) (a : key) : list key :=
  match rl_index (nodes g) a with
  | Ok i =>
    match dget i (edges g) with
    | Some s => flat_map (fun t => match nth_error (seq (nodes g)) t with
                                   | Some k => [k] | None => [] end) s
    | None => []
    end
  | Raise _ => []
  end.

Lemma rl_index_spec r k i : rl_ok r -> (rl_index r k = Ok i <-> nth_error (seq r) i = Some k).
Proof.
  intros (_ & _ & H). unfold rl_index. split.
  - destruct (dget k (index r)) as [[|i' l]|] eqn:Hd; try discriminate.
    intros Hx; inversion Hx; subst. apply H in Hd as (j & Hj & Hn). inversion Hj; subst. exact Hn.
  - intros Hn. assert (Hd : dget k (index r) = Some [i]) by (apply H; eauto).
    rewrite Hd. reflexivity.
Qed.

Lemma sc_of_edge g a b : g_ok g -> (cedge g a b <-> In b (sc_of g a)).
Proof.
  intros (Hr & _ & _ & _). unfold sc_of, cedge. split.
  - intros (i & j & s & Hi & Hj & Hs & Hin). apply (rl_index_spec _ _ _ Hr) in Hi.
    rewrite Hi, Hs. apply in_flat_map. exists j. split; [exact Hin|]. rewrite Hj. left; reflexivity.
  - destruct (rl_index (nodes g) a) as [i|c] eqn:Hi; [|intros []].
    apply (rl_index_spec _ _ _ Hr) in Hi.
    destruct (dget i (edges g)) as [s|] eqn:Hs; [|intros []].
    rewrite in_flat_map. intros (j & Hin & Hj).
    destruct (nth_error (seq (nodes g)) j) as [k|] eqn:Hn; [|destruct Hj].
    destruct Hj as [<-|[]]. exists i, j, s. auto.
Qed.

Lemma sc_of_tgt g a b : g_ok g -> In b (sc_of g a) -> In b (seq (nodes g)).
Proof.
  intros Hg H. apply (sc_of_edge _ _ _ Hg) in H as (i & j & s & _ & Hj & _).
  eapply nth_error_In, Hj.
Qed.

Lemma sc_of_src g a b : g_ok g -> In b (sc_of g a) -> In a (seq (nodes g)).
Proof.
  intros Hg H. apply (sc_of_edge _ _ _ Hg) in H as (i & j & s & Hi & _).
  eapply nth_error_In, Hi.
Qed.

(* under the invariant the concrete visit is the abstract DFS *)
Lemma ts_visit_eq g : g_ok g -> forall f st a, In a (seq (nodes g)) ->
  ts_visit f g st a = dfs (sc_of g) f st a.
Proof.
  intros Hg. assert (Hg' := Hg). destruct Hg' as (Hr & _ & He & Ht).
  induction f as [|f IH]; intros st a Ha; cbn [ts_visit dfs]; [reflexivity|].
  destruct (dget a (fst st)) as [[|]|]; try reflexivity.
  apply In_nth_error in Ha as (i & Hi). assert (Hlt : i < glen g) by (apply nth_error_Some; unfold glen; congruence).
  apply (rl_index_spec _ _ _ Hr) in Hi. unfold sc_of. rewrite Hi. cbn [bind].
  destruct (dget i (edges g)) as [s|] eqn:Hs; [|apply He in Hlt; congruence].
  assert (Hfold : forall l s0, (forall j, In j l -> j < glen g) ->
            foldM (fun st t => do nd <- rl_get (nodes g) t; ts_visit f g st nd) l s0 =
            foldM (dfs (sc_of g) f)
                  (flat_map (fun t => match nth_error (seq (nodes g)) t with
                                      | Some k => [k] | None => [] end) l) s0).
  { induction l as [|t l IHl]; intros s0 Hl; cbn [foldM flat_map]; [reflexivity|].
    assert (Htl : t < glen g) by (apply Hl; left; reflexivity).
    unfold rl_get at 1.
    destruct (nth_error (seq (nodes g)) t) as [k|] eqn:Hn;
      [|apply nth_error_None in Hn; unfold glen in Htl; lia].
    cbn [bind app foldM]. rewrite IH by (eapply nth_error_In, Hn).
    destruct (dfs (sc_of g) f s0 k); cbn [bind]; [|reflexivity].
    apply IHl. intros j Hj. apply Hl. right. exact Hj. }
  rewrite Hfold by (intros j Hj; eapply Ht; eauto). reflexivity.
Qed.

Lemma topological_sort_eq g : g_ok g -> topological_sort g = tsort (sc_of g) (seq (nodes g)).
Proof.
  intros Hg. unfold topological_sort, tsort. f_equal.
  apply foldM_ext. intros st node Hn. unfold wrap, glen.
  rewrite (ts_visit_eq g Hg _ st node Hn). reflexivity.
Qed.

Lemma acyclic_iff g : g_ok g -> (acyclic g <-> forall a, ~ clos_trans key (E (sc_of g)) a a).
Proof.
  intros Hg. unfold acyclic. split; intros H a Hc; apply (H a); revert Hc;
    apply clos_trans_iff; intros x y; apply (sc_of_edge _ _ _ Hg).
Qed.

(* ---------- the theorems ---------- *)
Theorem toposort_sound : forall g order, g_ok g -> topological_sort g = Ok order ->
  NoDup order /\ (forall k, In k order <-> cnode g k) /\
  (forall a b, cedge g a b -> before b a order) /\ acyclic g.
Proof.
  intros g order Hg H. rewrite (topological_sort_eq _ Hg) in H.
  apply tsort_sound in H as (H1 & H2 & H3 & H4);
    [|intros a b; apply (sc_of_tgt _ _ _ Hg)|intros a b; apply (sc_of_src _ _ _ Hg)].
  split; [exact H1|split; [exact H2|split]].
  - intros a b Hab. apply H3. apply (sc_of_edge _ _ _ Hg). exact Hab.
  - exact (proj2 (acyclic_iff _ Hg) H4).
Qed.

(* the literal form of the brief (weaker: [cedge g a a] is impossible when the sort is Ok) *)
Corollary toposort_sound_neq : forall g order, g_ok g -> topological_sort g = Ok order ->
  NoDup order /\ (forall k, In k order <-> cnode g k) /\
  (forall a b, cedge g a b -> a <> b -> before b a order) /\ acyclic g.
Proof.
  intros g order Hg H. destruct (toposort_sound g order Hg H) as (H1 & H2 & H3 & H4).
  repeat split; auto; apply H2.
Qed.

(* never EFuel, EValue, EIndex: the fuel [glen g + 2] is enough *)
Theorem toposort_total : forall g, g_ok g ->
  (exists order, topological_sort g = Ok order) \/ topological_sort g = Raise ECyclic.
Proof.
  intros g Hg. rewrite (topological_sort_eq _ Hg).
  destruct (tsort_total (sc_of g) (seq (nodes g))) as [H|[H _]]; auto.
  intros a b; apply (sc_of_tgt _ _ _ Hg).
Qed.

Theorem toposort_complete : forall g, g_ok g -> acyclic g ->
  exists order, topological_sort g = Ok order.
Proof.
  intros g Hg Hac. rewrite (topological_sort_eq _ Hg).
  destruct (tsort_total (sc_of g) (seq (nodes g))) as [H|[_ [x Hx]]]; [|exact H|].
  - intros a b; apply (sc_of_tgt _ _ _ Hg).
  - exfalso. apply (proj1 (acyclic_iff _ Hg) Hac x Hx).
Qed.

Theorem toposort_cyclic : forall g, g_ok g -> ~ acyclic g -> topological_sort g = Raise ECyclic.
Proof.
  intros g Hg Hn. destruct (toposort_total g Hg) as [[order H]|H]; [|exact H].
  exfalso. apply Hn. apply (toposort_sound g order Hg H).
Qed.

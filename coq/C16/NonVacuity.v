(* C16 — the hypotheses of the theorems are met by concrete, non-trivial data;
   the unrepaired graft violated the flatten statement. *)
From Coq Require Import List Arith Bool PeanoNat.
From VV Require Import Lib.Base C16.Model C16.Inv C16.ProofsR C16.ProofsG C16.History C16.Toposort.
Import ListNotations.

Definition h1 : list eop :=
  [ENew; EAddDep 0 0 2; EAddDep 0 2 4; EAddDep 0 4 6; EAddDep 0 0 6; ERemoveNode 0 2; ECopy 0;
   EAddDep 1 8 0; ERemoveDep 0 4 6; ERemoveDep 0 4 6; EAddNode 0 3].

(* a history with a removal in the middle (swap with last), a copy edited afterwards,
   an operation that raises (second ERemoveDep) and a nested graph node (key 3) *)
Example nv_history :
  map g_abs (wrun [] h1)
  = [Ok ([0; 6; 4; 3], [(0, 6)]); Ok ([0; 6; 4; 8], [(0, 6); (4, 6); (8, 0)])]
  /\ arun [] h1 = [([3; 0; 6; 4; 6; 4; 0], [(0, 6)]); ([8; 0; 0; 6; 4; 6; 4; 0], [(8, 0); (0, 6); (4, 6)])].
Proof. split; vm_compute; reflexivity. Qed.

(* a reachable graph satisfying g_ok with 4 nodes and 3 edges; it is acyclic, so the
   hypotheses of toposort_complete are met *)
Definition g1 : cgraph := nth 1 (wrun [] h1) g_empty.

Example nv_g_ok : g_ok g1 /\ glen g1 = 4.
Proof.
  split; [|reflexivity].
  destruct (edit_history_refines_partial h1 1 g1 eq_refl) as (a & _ & OK & _). exact OK.
Qed.

Example nv_acyclic : acyclic g1 /\ topological_sort g1 = Ok [6; 0; 4; 8].
Proof.
  split; [|reflexivity].
  eapply (toposort_sound g1 [6; 0; 4; 8]); [apply nv_g_ok|reflexivity].
Qed.

(* a cyclic reachable graph: the hypothesis of toposort_cyclic is met *)
Definition g2 : cgraph := nth 0 (wrun [] [ENew; EAddDep 0 0 2; EAddDep 0 2 0]) g_empty.
Example nv_cyclic : g_ok g2 /\ topological_sort g2 = Raise ECyclic.
Proof.
  split; [|reflexivity].
  destruct (edit_history_refines_partial [ENew; EAddDep 0 0 2; EAddDep 0 2 0] 0 g2 eq_refl)
    as (a & _ & OK & _). exact OK.
Qed.

(* A -> {} -> B : the repaired graft keeps A after B ... *)
Definition w_empty_sub : res world :=
  foldM wstep [WNew; WNew; WAddDep 0 0 3; WAddDep 0 3 2; WFlatten 0 true] [].

Example nv_flatten_empty :
  match w_empty_sub with
  | Ok w => map g_abs w = [Ok ([0; 2], [(0, 2)]); Ok ([], [])]
  | Raise _ => False
  end.
Proof. vm_compute. reflexivity. Qed.

(* ... the graft of the pinned tree (no rule for an empty sub-graph) lost it *)
Definition graft_unrepaired (g : cgraph) (s : key) (sub : cgraph) : res cgraph :=
  do deps <- dependencies g s false;
  do dees <- dependees g s;
  do g1 <- remove_node g s;
  do inits <- initial sub;
  do terms <- terminal sub;
  do g2 <- merge g1 sub;
  do g3 <- foldM (fun g dep => foldM (fun g term => add_dependency g term dep) terms g) deps g2;
  foldM (fun g dee => foldM (fun g init => add_dependency g dee init) inits g) dees g3.

Example graft_empty_refuted :
  match foldM wstep [WNew; WNew; WAddDep 0 0 3; WAddDep 0 3 2] [] with
  | Ok [g; sub] => (do g' <- graft_unrepaired g 3 sub; g_abs g') = Ok ([0; 2], [])
  | _ => False
  end.
Proof. vm_compute. reflexivity. Qed.

(* ---------- second round: the full alphabet ---------- *)
From VV Require Import C16.GraftSpec C16.ProofsM C16.History2 C16.Trans.

(* registers: 0 outer, 1 empty graph (key 3), 2 = {6 -> 8} (key 5); A=0 -> {} -> B=2, 4 -> {6->8} -> 2;
   merge, +, invert, graft of the empty and of the non-empty nested graph *)
Definition h2 : list fop :=
  [FNew; FNew; FNew; FAddDep 2 6 8; FAddDep 0 0 3; FAddDep 0 3 2; FAddDep 0 4 5; FAddDep 0 5 2;
   FCopy 0; FGraft 0 3; FGraft 0 5; FInvert 0; FMerge 1 2; FPlus 3 2; FGraft 3 7; FRemoveNode 0 6].

Example nv_history_full :
  map g_abs (wrunf [] h2)
  = [Ok ([0; 4; 2; 8], [(0, 2); (8, 2)]); Ok ([6; 8], [(6, 8)]); Ok ([6; 8], [(6, 8)]);
     Ok ([0; 3; 2; 4; 5], [(0, 3); (3, 2); (4, 5); (5, 2)]);
     Ok ([0; 4; 2; 6; 8], [(2, 0); (2, 8); (6, 4); (8, 6)]);
     Ok ([0; 3; 2; 4; 5; 6; 8], [(0, 3); (3, 2); (4, 5); (5, 2); (6, 8)])]
  /\ arunf [] h2
  = [([2; 4; 2; 0; 8], [(0, 2); (8, 2)]); ([6; 8], [(6, 8)]); ([6; 8], [(6, 8)]);
     ([5; 2; 4; 5; 3; 2; 0; 3], [(5, 2); (4, 5); (3, 2); (0, 3)]);
     ([2; 4; 2; 0; 6; 8], [(2, 0); (8, 6); (2, 8); (6, 4)]);
     ([5; 2; 4; 5; 3; 2; 0; 3; 6; 8], [(5, 2); (4, 5); (3, 2); (0, 3); (6, 8)])].
Proof. split; vm_compute; reflexivity. Qed.

(* the hypotheses of closure_correct / reduction_correct are met by a reachable graph with a
   redundant edge: 0 -> 2 -> 4 and 0 -> 4 *)
Definition g3 : cgraph :=
  nth 0 (wrunf [] [FNew; FAddDep 0 0 2; FAddDep 0 2 4; FAddDep 0 0 4; FAddDep 0 6 0]) g_empty.

Example nv_trans : g_ok g3 /\ acyclic g3 /\
  (do g' <- transitive_reduction g3; g_abs g') = Ok ([0; 2; 4; 6], [(0, 2); (2, 4); (6, 0)]) /\
  (do g' <- transitive_closure g3; g_abs g')
  = Ok ([0; 2; 4; 6], [(0, 2); (0, 4); (2, 4); (6, 0); (6, 2); (6, 4)]).
Proof.
  assert (OK : g_ok g3).
  { destruct (edit_history_refines [FNew; FAddDep 0 0 2; FAddDep 0 2 4; FAddDep 0 0 4; FAddDep 0 6 0]
                0 g3 eq_refl) as (a & _ & OK & _). exact OK. }
  split; [exact OK|]. split; [|split; vm_compute; reflexivity].
  eapply (toposort_sound g3 _ OK). vm_compute. reflexivity.
Qed.

(* C16 — merge / invert / initial / terminal / graft of the DepGraph model refine
   the plain set operations on the mathematical graph (cnode, cedge). *)
From Coq Require Import List Arith Bool PeanoNat Lia Relations.
From VV Require Import Lib.Base C16.Model C16.Inv C16.GraftSpec C16.ProofsR C16.ProofsG.
Import ListNotations.

Lemma cedge_nodes g a b : cedge g a b -> cnode g a /\ cnode g b.
Proof.
  intros (i & j & s & Ha & Hb & _). split; unfold cnode; eapply nth_error_In; eauto.
Qed.

(* ---------- generic facts about foldM / mapM ---------- *)
Lemma foldM_app {A B} (f : A -> B -> res A) l1 l2 a :
  foldM f (l1 ++ l2) a = do a' <- foldM f l1 a; foldM f l2 a'.
Proof.
  revert a; induction l1 as [|b r IH]; intros a; cbn; [reflexivity|].
  destruct (f a b); cbn; [apply IH|reflexivity].
Qed.

Lemma foldM_ext {A B} (f f' : A -> B -> res A) l a :
  (forall a b, In b l -> f a b = f' a b) -> foldM f l a = foldM f' l a.
Proof.
  revert a; induction l as [|b r IH]; intros a H; cbn; [reflexivity|].
  rewrite (H a b) by now left. destruct (f' a b); cbn; [|reflexivity].
  apply IH. intros; apply H; now right.
Qed.

Lemma foldM_map {A B C} (f : A -> C -> res A) (h : B -> C) l a :
  foldM f (map h l) a = foldM (fun a x => f a (h x)) l a.
Proof.
  revert a; induction l as [|b r IH]; intros a; cbn; [reflexivity|].
  destruct (f a (h b)); cbn; [apply IH|reflexivity].
Qed.

Lemma foldM_flat_map {A B C} (f : A -> C -> res A) (h : B -> list C) l a :
  foldM f (flat_map h l) a = foldM (fun a b => foldM f (h b) a) l a.
Proof.
  revert a; induction l as [|b r IH]; intros a; cbn; [reflexivity|].
  rewrite foldM_app. destruct (foldM f (h b) a); cbn; [apply IH|reflexivity].
Qed.

Lemma foldM_filter {A B} (f : A -> B -> res A) (c : B -> bool) l a :
  foldM (fun a b => if c b then Ok a else f a b) l a = foldM f (filter (fun b => negb (c b)) l) a.
Proof.
  revert a; induction l as [|b r IH]; intros a; cbn; [reflexivity|].
  destruct (c b); cbn; [apply IH|]. destruct (f a b); cbn; [apply IH|reflexivity].
Qed.

(* ---------- __iter__ ---------- *)
Lemma In_enumerate {A} (l : list A) : forall o i k,
  In (i, k) (enumerate_from o l) <-> exists m, i = o + m /\ nth_error l m = Some k.
Proof.
  induction l as [|a r IH]; intros o i k; cbn.
  - split; [contradiction|]. intros ([|m] & _ & H); discriminate.
  - rewrite IH. split.
    + intros [H|(m & -> & H)].
      * inversion H; subst. exists 0. split; [lia|reflexivity].
      * exists (S m). split; [lia|exact H].
    + intros ([|m] & -> & H).
      * left. cbn in H. inversion H. f_equal. lia.
      * right. exists m. split; [lia|exact H].
Qed.

Lemma snd_enumerate {A} (l : list A) : forall o, map snd (enumerate_from o l) = l.
Proof. induction l as [|a r IH]; intros o; cbn; [reflexivity|]. now rewrite IH. Qed.

Definition iterR (g : cgraph) (p : nat * key) (q : key * list key) : Prop :=
  fst q = snd p /\ exists s, dget (fst p) (edges g) = Some s /\
     Forall2 (fun j k => nth_error (seq (nodes g)) j = Some k) s (snd q).

Lemma iter_aux g : g_ok g -> forall ps : list (nat * key), (forall p, In p ps -> fst p < glen g) ->
  exists items,
    mapM (fun p => do s <- dgetE (fst p) (edges g); do vs <- names g s; Ok (snd p, vs)) ps = Ok items /\
    Forall2 (iterR g) ps items.
Proof.
  intros OK. induction ps as [|p r IH]; intros H; cbn.
  - exists []. split; [reflexivity|constructor].
  - destruct (edges_at _ OK (fst p)) as [s Hs]; [apply H; now left|].
    unfold dgetE at 1. rewrite Hs. cbn [bind].
    destruct (mapM_names g s OK) as (vs & -> & F).
    { intros j Hj. destruct OK as (_ & _ & _ & T). eapply T; eauto. }
    cbn [bind]. destruct IH as (items & -> & F2); [intros; apply H; now right|]. cbn [bind].
    exists ((snd p, vs) :: items). split; [reflexivity|]. constructor; [|exact F2].
    split; [reflexivity|]. exists s. split; [exact Hs|exact F].
Qed.

Lemma iterR_fst g ps items : Forall2 (iterR g) ps items -> map fst items = map snd ps.
Proof. induction 1 as [|p q ? ? [E _]]; cbn; [reflexivity|]. now rewrite E, IHForall2. Qed.

Lemma g_iter_ok g : g_ok g -> exists items, g_iter g = Ok items /\
  map fst items = seq (nodes g) /\
  (forall k vs v, In (k, vs) items -> In v vs -> cedge g k v) /\
  (forall a b, cedge g a b -> exists vs, In (a, vs) items /\ In b vs).
Proof.
  intros OK. unfold g_iter, enumerate.
  destruct (iter_aux g OK (enumerate_from 0 (seq (nodes g)))) as (items & E & F).
  { intros [i k] Hp. apply In_enumerate in Hp. destruct Hp as (m & -> & Hm). cbn.
    apply (nth_lt g _ _ Hm). }
  exists items. split; [exact E|]. split; [|split].
  - rewrite (iterR_fst _ _ _ F). apply snd_enumerate.
  - intros k vs v Hk Hv. destruct (Forall2_In_r _ _ _ _ F Hk) as ([i k0] & Hp & Ek & s & Hs & F2).
    cbn in Ek, Hs, F2. subst k0. apply In_enumerate in Hp. destruct Hp as (m & -> & Hm). cbn in Hs.
    destruct (Forall2_In_r _ _ _ _ F2 Hv) as (j & Hj & Hjv). exists m, j, s. auto.
  - intros a b (i & j & s & Ha & Hb & Hs & Hj).
    assert (Hp : In (i, a) (enumerate_from 0 (seq (nodes g)))).
    { apply In_enumerate. exists i. split; [reflexivity|exact Ha]. }
    destruct (Forall2_In_l _ _ _ _ F Hp) as ([k vs] & Hq & Ek & s' & Hs' & F2).
    cbn in Ek, Hs', F2. subst k. assert (s' = s) by congruence. subst s'.
    destruct (Forall2_In_l _ _ _ _ F2 Hj) as (v & Hv & Hjv).
    exists vs. split; [exact Hq|]. unfold key in *. congruence.
Qed.

(* ---------- folds of add_dependency ---------- *)
Lemma add_pairs_ok g (ps : list (key * key)) : g_ok g ->
  exists g', foldM (fun g p => add_dependency g (fst p) (snd p)) ps g = Ok g' /\ g_ok g' /\
    (forall x, cnode g' x <-> cnode g x \/ exists p, In p ps /\ (x = fst p \/ x = snd p)) /\
    (forall x y, cedge g' x y <-> cedge g x y \/ In (x, y) ps).
Proof.
  revert g. induction ps as [|p r IH]; intros g OK; cbn.
  - exists g. split; [reflexivity|]. split; [exact OK|]. split.
    + intros x. split; [auto|]. intros [H|(p & [] & _)]. exact H.
    + intros x y. tauto.
  - destruct (add_dependency_ok g (fst p) (snd p) OK) as (g1 & -> & OK1 & N1 & E1). cbn [bind].
    destruct (IH g1 OK1) as (g' & -> & OK' & N' & E'). exists g'. split; [reflexivity|].
    split; [exact OK'|]. split.
    + intros x. rewrite N', N1. split.
      * intros [[H|H]|(q & Hq & H)]; [now left|right; exists p; split; [now left|exact H]|].
        right. exists q. split; [now right|exact H].
      * intros [H|(q & [<-|Hq] & H)]; [left; now left|left; now right|].
        right. exists q. auto.
    + intros x y. rewrite E', E1. split.
      * intros [[H|[-> ->]]|H]; [now left|right; left; now destruct p|right; now right].
      * intros [H|[H|H]]; [left; now left| |now right]. left. right. subst p. auto.
Qed.

Lemma add_deps_ok g k vs : g_ok g -> cnode g k ->
  exists g', foldM (fun g v => add_dependency g k v) vs g = Ok g' /\ g_ok g' /\
    (forall x, cnode g' x <-> cnode g x \/ In x vs) /\
    (forall x y, cedge g' x y <-> cedge g x y \/ (x = k /\ In y vs)).
Proof.
  intros OK Ck.
  destruct (add_pairs_ok g (map (fun v => (k, v)) vs) OK) as (g' & E & OK' & N' & E').
  rewrite foldM_map in E. cbn [fst snd] in E. exists g'. split; [exact E|]. split; [exact OK'|]. split.
  - intros x. rewrite N'. split.
    + intros [H|(p & Hp & H)]; [now left|]. apply in_map_iff in Hp. destruct Hp as (v & <- & Hv).
      cbn in H. destruct H as [->| ->]; [now left|now right].
    + intros [H|H]; [now left|]. right. exists (k, x). split; [|now right].
      apply in_map_iff. eauto.
  - intros x y. rewrite E'. split.
    + intros [H|H]; [now left|]. apply in_map_iff in H. destruct H as (v & [= <- <-] & Hv). auto.
    + intros [H|[-> H]]; [now left|]. right. apply in_map_iff. eauto.
Qed.

(* ---------- merge ---------- *)
Lemma merge_fold (items : list (key * list key)) : forall g, g_ok g ->
  exists g', foldM (fun g p => foldM (fun g v => add_dependency g (fst p) v) (snd p) (add_node g (fst p)))
                   items g = Ok g' /\ g_ok g' /\
    (forall x, cnode g' x <-> cnode g x \/ exists p, In p items /\ (x = fst p \/ In x (snd p))) /\
    (forall x y, cedge g' x y <-> cedge g x y \/ exists vs, In (x, vs) items /\ In y vs).
Proof.
  induction items as [|p r IH]; intros g OK; cbn.
  - exists g. split; [reflexivity|]. split; [exact OK|]. split.
    + intros x. split; [auto|]. intros [H|(p & [] & _)]. exact H.
    + intros x y. split; [auto|]. intros [H|(vs & [] & _)]. exact H.
  - destruct (add_node_ok g OK (fst p)) as (OK0 & N0 & E0).
    destruct (add_deps_ok (add_node g (fst p)) (fst p) (snd p) OK0) as (g1 & -> & OK1 & N1 & E1).
    { apply N0. now right. }
    cbn [bind]. destruct (IH g1 OK1) as (g' & -> & OK' & N' & E'). exists g'. split; [reflexivity|].
    split; [exact OK'|]. split.
    + intros x. rewrite N', N1, N0. split.
      * intros [[[H|H]|H]|(q & Hq & H)]; [now left| | |].
        -- right. exists p. split; [now left|now left].
        -- right. exists p. split; [now left|now right].
        -- right. exists q. split; [now right|exact H].
      * intros [H|(q & [<-|Hq] & [H|H])]; [left; left; now left|left; left; now right|left; now right| |];
          right; exists q; auto.
    + intros x y. rewrite E', E1, E0. split.
      * intros [[H|[-> H]]|(vs & Hv & H)]; [now left| |].
        -- right. exists (snd p). split; [left; now destruct p|exact H].
        -- right. exists vs. split; [now right|exact H].
      * intros [H|(vs & [->|Hv] & H)]; [left; now left|left; right; cbn; auto|].
        right. exists vs. auto.
Qed.

Lemma merge_ok g h : g_ok g -> g_ok h ->
  exists g', merge g h = Ok g' /\ g_ok g' /\
    (forall k, cnode g' k <-> cnode g k \/ cnode h k) /\
    (forall x y, cedge g' x y <-> cedge g x y \/ cedge h x y).
Proof.
  intros OKg OKh. unfold merge.
  destruct (g_iter_ok h OKh) as (items & -> & Hf & Hs & Hc). cbn [bind].
  destruct (merge_fold items g OKg) as (g' & -> & OK' & N' & E'). exists g'. split; [reflexivity|].
  split; [exact OK'|]. split.
  - intros k. rewrite N'. split.
    + intros [H|([a vs] & Hp & [->|H])]; [now left| |].
      * right. unfold cnode. rewrite <- Hf. change a with (fst (a, vs)). now apply in_map.
      * right. cbn in H. exact (proj2 (cedge_nodes _ _ _ (Hs _ _ _ Hp H))).
    + intros [H|H]; [now left|]. right. unfold cnode in H. rewrite <- Hf in H.
      apply in_map_iff in H. destruct H as (p & <- & Hp). exists p. auto.
  - intros x y. rewrite E'. split.
    + intros [H|(vs & Hv & H)]; [now left|]. right. eapply Hs; eauto.
    + intros [H|H]; [now left|]. right. apply Hc, H.
Qed.

(* ---------- initial / terminal ---------- *)
Lemma targets_fold (d : list (nat * list nat)) : forall acc j,
  In j (fold_left (fun acc p => sunion acc (snd p)) d acc) <-> In j acc \/ exists p, In p d /\ In j (snd p).
Proof.
  induction d as [|p r IH]; intros acc j; cbn.
  - split; [auto|]. intros [H|(p & [] & _)]. exact H.
  - rewrite IH, In_sunion. split.
    + intros [[H|H]|(q & Hq & H)]; [now left|right; exists p; auto|right; exists q; auto].
    + intros [H|(q & [<-|Hq] & H)]; [left; now left|left; now right|right; exists q; auto].
Qed.

Lemma initial_ok g : g_ok g -> exists l, initial g = Ok l /\ forall k, In k l <-> is_init g k.
Proof.
  intros OK. assert (RO : rl_ok (nodes g)) by apply OK.
  assert (ND : NoDup (seq (nodes g))) by (apply rl_ok_view in RO; tauto).
  assert (NK : NoDup (map fst (edges g))) by apply OK.
  unfold initial.
  set (targets := fold_left (fun acc p => sunion acc (snd p)) (edges g) []).
  assert (T : forall j, In j targets <-> exists i s, dget i (edges g) = Some s /\ In j s).
  { intros j. unfold targets. rewrite targets_fold. split.
    - intros [[]|([i s] & Hp & Hj)]. exists i, s. split; [now apply In_dget|exact Hj].
    - intros (i & s & Hs & Hj). right. exists (i, s). split; [now apply dget_In|exact Hj]. }
  destruct (mapM_names g (filter (fun i => negb (mem i targets)) (List.seq 0 (glen g))) OK) as (ks & -> & F).
  { intros j Hj. apply filter_In in Hj. destruct Hj as [Hj _]. apply in_seq in Hj. lia. }
  exists ks. split; [reflexivity|]. intros k. unfold is_init. split.
  - intros Hk. destruct (Forall2_In_r _ _ _ _ F Hk) as (j & Hj & Hjk).
    apply filter_In in Hj. destruct Hj as [_ Hj]. apply negb_true_iff, mem_false in Hj.
    split; [eapply nth_error_In, Hjk|]. intros (a & i & j' & s & Ha & Hb & Hs & Hin).
    assert (j' = j) by exact (nth_NoDup _ _ _ _ ND Hb Hjk). subst j'.
    apply Hj, T. eauto.
  - intros [Ck Hn]. apply In_nth_error in Ck. destruct Ck as [j Hj].
    assert (Hf : In j (filter (fun i => negb (mem i targets)) (List.seq 0 (glen g)))).
    { apply filter_In. split; [apply in_seq; pose proof (nth_lt g _ _ Hj); lia|].
      apply negb_true_iff, mem_false. intros Ht. apply T in Ht. destruct Ht as (i & s & Hs & Hin).
      destruct (node_at g i (edges_lt g OK _ _ Hs)) as [a Ha]. apply Hn. exists a, i, j, s. auto. }
    destruct (Forall2_In_l _ _ _ _ F Hf) as (k' & Hk' & Hjk'). unfold key in *.
    assert (k' = k) by congruence. subst. exact Hk'.
Qed.

Lemma terminal_fold g : g_ok g -> forall l acc, (forall n, In n l -> cnode g n) ->
  exists out, foldM (fun acc n => do ds <- dependencies g n false;
                                  Ok (match ds with [] => acc ++ [n] | _ => acc end)) l acc = Ok out /\
    forall k, In k out <-> In k acc \/ (In k l /\ ~ exists b, cedge g k b).
Proof.
  intros OK. induction l as [|n r IH]; intros acc H; cbn.
  - exists acc. split; [reflexivity|]. intros k. split; [auto|]. intros [H1|[[] _]]. exact H1.
  - pose proof (dependencies_ok g n OK) as D. destruct (dependencies g n false) as [ds|c].
    2:{ exfalso. apply D. apply H. now left. }
    destruct D as [_ D]. cbn [bind].
    destruct (IH (match ds with [] => acc ++ [n] | _ => acc end)) as (out & -> & HO);
      [intros; apply H; now right|].
    exists out. split; [reflexivity|]. intros k. rewrite HO. destruct ds as [|d ds'].
    + rewrite in_app_iff. cbn. split.
      * intros [[H1|[<-|[]]]|[H1 H2]]; [now left| |right; tauto].
        right. split; [now left|]. intros [b Hb]. apply D in Hb. exact Hb.
      * intros [H1|[[<-|H1] H2]]; [left; now left|left; right; now left|right; tauto].
    + split.
      * intros [H1|[H1 H2]]; [now left|right; tauto].
      * intros [H1|[[<-|H1] H2]]; [now left| |right; tauto]. exfalso. apply H2. exists d. apply D. now left.
Qed.

Lemma terminal_ok g : g_ok g -> exists l, terminal g = Ok l /\ forall k, In k l <-> is_term g k.
Proof.
  intros OK. unfold terminal.
  destruct (terminal_fold g OK (seq (nodes g)) []) as (out & -> & HO); [auto|].
  exists out. split; [reflexivity|]. intros k. rewrite HO. unfold is_term, cnode. cbn. tauto.
Qed.

(* ---------- invert ---------- *)
Definition inv_step (k : nat) (acc : list (nat * list nat)) (v : nat) : list (nat * list nat) :=
  let acc := setdefault v acc in
  match dget v acc with Some l => dset v (l ++ [k]) acc | None => acc end.

(* [K]: the keys of the accumulated dict; [P a w]: a is listed under w *)
Definition acc_spec (acc : list (nat * list nat)) (K : nat -> Prop) (P : nat -> nat -> Prop) : Prop :=
  NoDup (map fst acc) /\ (forall w, dget w acc <> None <-> K w) /\
  (forall a w, (exists l, dget w acc = Some l /\ In a l) <-> P a w).

Lemma acc_spec_ext acc K P K' P' :
  (forall w, K w <-> K' w) -> (forall a w, P a w <-> P' a w) -> acc_spec acc K P -> acc_spec acc K' P'.
Proof.
  intros HK HP (ND & A & B). split; [exact ND|]. split.
  - intros w. rewrite A. apply HK.
  - intros a w. rewrite B. apply HP.
Qed.

Lemma setdefault_spec v acc : NoDup (map fst acc) ->
  NoDup (map fst (setdefault v acc)) /\
  forall w, dget w (setdefault v acc)
            = if v =? w then Some (match dget v acc with Some l => l | None => [] end) else dget w acc.
Proof.
  intros ND. unfold setdefault. destruct (dget v acc) as [l|] eqn:E.
  - split; [exact ND|]. intros w. destruct (Nat.eqb_spec v w); [subst; exact E|reflexivity].
  - split; [now apply NoDup_dset|]. intros w. apply dget_dset.
Qed.

Lemma inv_step_spec k v acc : NoDup (map fst acc) ->
  NoDup (map fst (inv_step k acc v)) /\
  forall w, dget w (inv_step k acc v)
            = if v =? w then Some ((match dget v acc with Some l => l | None => [] end) ++ [k])
              else dget w acc.
Proof.
  intros ND. unfold inv_step. cbv zeta. destruct (setdefault_spec v acc ND) as [ND' G].
  rewrite (G v), Nat.eqb_refl. split; [now apply NoDup_dset|].
  intros w. rewrite dget_dset. destruct (Nat.eqb_spec v w); [reflexivity|].
  rewrite G. destruct (Nat.eqb_spec v w); [contradiction|reflexivity].
Qed.

Lemma acc_spec_setdefault v acc K P :
  acc_spec acc K P -> acc_spec (setdefault v acc) (fun w => K w \/ w = v) P.
Proof.
  intros (ND & HK & HP). destruct (setdefault_spec v acc ND) as [ND' G]. split; [exact ND'|]. split.
  - intros w. rewrite G. destruct (Nat.eqb_spec v w).
    + subst. split; [now right|discriminate].
    + rewrite HK. split; [now left|]. intros [H|H]; [exact H|congruence].
  - intros a w. rewrite G. destruct (Nat.eqb_spec v w); [|apply HP].
    subst w. rewrite <- HP. destruct (dget v acc) as [l0|] eqn:E; [reflexivity|].
    split; [intros (l & [= <-] & [])|intros (l & [=] & _)].
Qed.

Lemma acc_spec_step k v acc K P :
  acc_spec acc K P ->
  acc_spec (inv_step k acc v) (fun w => K w \/ w = v) (fun a w => P a w \/ (a = k /\ w = v)).
Proof.
  intros (ND & HK & HP). destruct (inv_step_spec k v acc ND) as [ND' G]. split; [exact ND'|]. split.
  - intros w. rewrite G. destruct (Nat.eqb_spec v w).
    + subst. split; [now right|discriminate].
    + rewrite HK. split; [now left|]. intros [H|H]; [exact H|congruence].
  - intros a w. rewrite G. destruct (Nat.eqb_spec v w).
    + subst w. split.
      * intros (l & [= <-] & Hin). apply in_app_iff in Hin. destruct Hin as [Hin|[<-|[]]]; [left|now right].
        apply HP. destruct (dget v acc) as [l0|] eqn:E; [eauto|contradiction].
      * intros [H|[-> _]].
        -- apply HP in H. destruct H as (l & E & Hin). rewrite E. eexists. split; [reflexivity|].
           apply in_app_iff. now left.
        -- eexists. split; [reflexivity|]. apply in_app_iff. right. now left.
    + rewrite HP. split; [now left|]. intros [H|[_ H]]; [exact H|congruence].
Qed.

Lemma acc_spec_inner k vs : forall acc K P,
  acc_spec acc K P ->
  acc_spec (fold_left (inv_step k) vs acc) (fun w => K w \/ In w vs) (fun a w => P a w \/ (a = k /\ In w vs)).
Proof.
  induction vs as [|v r IH]; intros acc K P H; cbn [fold_left].
  - eapply acc_spec_ext; [| |exact H]; cbn; intros; tauto.
  - eapply acc_spec_ext; [| |exact (IH _ _ _ (acc_spec_step k v acc K P H))]; cbn.
    + intros w. split; [intros [[H1| ->]|H1]; auto|intros [H1|[->|H1]]; auto].
    + intros a w. split; [intros [[H1|[-> ->]]|[-> H1]]; auto|intros [H1|[-> [->|H1]]]; auto].
Qed.

Lemma acc_spec_outer (d : list (nat * list nat)) : forall acc K P,
  acc_spec acc K P ->
  acc_spec (fold_left (fun acc p => fold_left (inv_step (fst p)) (snd p) (setdefault (fst p) acc)) d acc)
           (fun w => K w \/ exists p, In p d /\ (w = fst p \/ In w (snd p)))
           (fun a w => P a w \/ exists s, In (a, s) d /\ In w s).
Proof.
  induction d as [|p r IH]; intros acc K P H; cbn [fold_left].
  - eapply acc_spec_ext; [| |exact H]; cbn.
    + intros w. split; [auto|]. intros [H1|(p & [] & _)]. exact H1.
    + intros a w. split; [auto|]. intros [H1|(s & [] & _)]. exact H1.
  - eapply acc_spec_ext;
      [| |exact (IH _ _ _ (acc_spec_inner (fst p) (snd p) _ _ _ (acc_spec_setdefault (fst p) acc K P H)))]; cbn.
    + intros w. split.
      * intros [[[H1| ->]|H1]|(q & Hq & H1)]; [now left| | |].
        -- right. exists p. auto.
        -- right. exists p. auto.
        -- right. exists q. auto.
      * intros [H1|(q & [<-|Hq] & [->|H1])]; [left; left; now left|left; left; now right|left; now right| |];
          right; exists q; auto.
    + intros a w. split.
      * intros [[H1|[-> H1]]|(s & Hs & H1)]; [now left| |].
        -- right. exists (snd p). split; [left; now destruct p|exact H1].
        -- right. exists s. auto.
      * intros [H1|(s & [->|Hs] & H1)]; [left; now left|left; right; cbn; auto|].
        right. exists s. auto.
Qed.

Lemma invert_ok g : g_ok g ->
  g_ok (invert g) /\ (forall k, cnode (invert g) k <-> cnode g k) /\
  (forall x y, cedge (invert g) x y <-> cedge g y x).
Proof.
  intros OK. assert (RO : rl_ok (nodes g)) by apply OK.
  assert (ND : NoDup (seq (nodes g))) by (apply rl_ok_view in RO; tauto).
  assert (NK : NoDup (map fst (edges g))) by apply OK.
  assert (TGT : forall i s j, dget i (edges g) = Some s -> In j s -> j < glen g) by apply OK.
  unfold invert.
  set (inv := fold_left _ (edges g) []).
  assert (S : acc_spec inv (fun w => w < glen g)
                       (fun a w => exists s, dget a (edges g) = Some s /\ In w s)).
  { assert (S0 : acc_spec [] (fun _ => False) (fun _ _ => False)).
    { split; [constructor|]. split.
      - intros w. cbn. split; [congruence|contradiction].
      - intros a w. cbn. split; [intros (l & [=] & _)|contradiction]. }
    eapply acc_spec_ext; [| |exact (acc_spec_outer (edges g) _ _ _ S0)]; cbn.
    - intros w. split.
      + intros [[]|([i s] & Hp & H)]. apply In_dget in Hp; [|exact NK]. cbn in H.
        destruct H as [->|H]; [eapply edges_lt; eauto|eapply TGT; eauto].
      + intros H. right. destruct (edges_at g OK w H) as [s Hs]. exists (w, s).
        split; [now apply dget_In|now left].
    - intros a w. split.
      + intros [[]|(s & Hp & H)]. exists s. split; [now apply In_dget|exact H].
      + intros (s & Hs & H). right. exists s. split; [now apply dget_In|exact H]. }
  destruct S as (NDi & HK & HP).
  unfold mk_graph. destruct (rl_of_list_ok _ ND) as [RO2 S2].
  rewrite complete_closed.
  2:{ intros [w l] v Hp Hv. cbn in Hv. apply In_dget in Hp; [|exact NDi]. apply HK.
      destruct (proj1 (HP v w)) as (s & Hs & _); [eauto|]. eapply edges_lt; eauto. }
  split; [|split].
  - unfold g_ok, glen. cbn [nodes edges]. rewrite S2. split; [exact RO2|split; [|split]].
    + rewrite keys_dmap. exact NDi.
    + intros i. rewrite dget_dmap. fold (glen g). rewrite <- HK.
      destruct (dget i inv); cbn; split; congruence.
    + intros i s j. rewrite dget_dmap. destruct (dget i inv) as [l|] eqn:E; [|discriminate].
      cbn [option_map]. intros [= <-] Hj. apply (proj1 (In_dedup _ _)) in Hj. fold (glen g).
      destruct (proj1 (HP j i)) as (s & Hs & _); [eauto|]. eapply edges_lt; eauto.
  - intros k. unfold cnode. cbn [nodes]. now rewrite S2.
  - intros x y. unfold cedge. cbn [nodes edges]. rewrite S2. split.
    + intros (i & j & s & Hx & Hy & Hs & Hj). rewrite dget_dmap in Hs.
      destruct (dget i inv) as [l|] eqn:E; [|discriminate]. cbn in Hs. inversion Hs; subst.
      apply (proj1 (In_dedup _ _)) in Hj.
      destruct (proj1 (HP j i)) as (s' & Hs' & Hi); [eauto|]. exists j, i, s'. auto.
    + intros (j & i & s' & Hy & Hx & Hs' & Hi).
      destruct (proj2 (HP j i)) as (l & E & Hj); [eauto|]. exists i, j, (dedup l).
      rewrite dget_dmap, E. repeat split; auto. now apply In_dedup.
Qed.

(* ---------- graft ---------- *)
Lemma In_pairs_l {A B} (h : A -> list B) (l : list A) x y :
  In (x, y) (flat_map (fun a => map (fun b => (a, b)) (h a)) l) <-> In x l /\ In y (h x).
Proof.
  rewrite in_flat_map. split.
  - intros (a & Ha & H). apply in_map_iff in H. destruct H as (b & [= <- <-] & Hb). auto.
  - intros [Hx Hy]. exists x. split; [exact Hx|]. apply in_map_iff. eauto.
Qed.

Lemma In_pairs_r {A B} (h : A -> list B) (l : list A) x y :
  In (x, y) (flat_map (fun a => map (fun b => (b, a)) (h a)) l) <-> In y l /\ In x (h y).
Proof.
  rewrite in_flat_map. split.
  - intros (a & Ha & H). apply in_map_iff in H. destruct H as (b & [= <- <-] & Hb). auto.
  - intros [Hy Hx]. exists y. split; [exact Hy|]. apply in_map_iff. eauto.
Qed.

Lemma nest_terms_deps terms deps g :
  foldM (fun g dep => foldM (fun g term => add_dependency g term dep) terms g) deps g
  = foldM (fun g p => add_dependency g (fst p) (snd p))
          (flat_map (fun dep => map (fun t => (t, dep)) terms) deps) g.
Proof.
  rewrite foldM_flat_map. apply foldM_ext. intros a dep _. rewrite foldM_map. reflexivity.
Qed.

Lemma nest_dees_inits dees inits g :
  foldM (fun g dee => foldM (fun g init => add_dependency g dee init) inits g) dees g
  = foldM (fun g p => add_dependency g (fst p) (snd p))
          (flat_map (fun dee => map (fun i => (dee, i)) inits) dees) g.
Proof.
  rewrite foldM_flat_map. apply foldM_ext. intros a dee _. rewrite foldM_map. reflexivity.
Qed.

Lemma nest_repair s dees deps g :
  foldM (fun g dee => foldM (fun g dep => if (dee =? s) || (dep =? s) || (dee =? dep) then Ok g
                                          else add_dependency g dee dep) deps g) dees g
  = foldM (fun g p => add_dependency g (fst p) (snd p))
          (flat_map (fun dee => map (fun dep => (dee, dep))
                                    (filter (fun dep => negb ((dee =? s) || (dep =? s) || (dee =? dep))) deps))
                    dees) g.
Proof.
  rewrite foldM_flat_map. apply foldM_ext. intros a dee _. rewrite foldM_map.
  rewrite <- (foldM_filter (fun a x => add_dependency a dee x)
                           (fun dep => (dee =? s) || (dep =? s) || (dee =? dep))).
  reflexivity.
Qed.

Lemma graft_ok g s sub : g_ok g -> g_ok sub ->
  match graft g s sub with
  | Ok g' => cnode g s /\ g_ok g' /\
             (forall k, cnode g' k <-> graft_node g s sub k) /\
             (forall x y, cedge g' x y <-> graft_edge g s sub x y)
  | Raise c => c = EValue /\ ~ cnode g s
  end.
Proof.
  intros OK OKs. unfold graft.
  pose proof (dependencies_ok g s OK) as DP.
  destruct (dependencies g s false) as [deps|c]; cbn [bind]; [|exact DP]. destruct DP as [Cs DP].
  pose proof (dependees_ok g s OK) as DE.
  destruct (dependees g s) as [dees|c]; cbn [bind]; [|exfalso; apply DE, Cs]. destruct DE as [_ DE].
  destruct (remove_node_ok g s OK) as (g1 & -> & OK1 & N1 & E1). cbn [bind].
  destruct (initial_ok sub OKs) as (inits & -> & HI). cbn [bind].
  destruct (terminal_ok sub OKs) as (terms & -> & HT). cbn [bind].
  destruct (merge_ok g1 sub OK1 OKs) as (g2 & -> & OK2 & N2 & E2). cbn [bind].
  rewrite nest_terms_deps.
  destruct (add_pairs_ok g2 (flat_map (fun dep => map (fun t => (t, dep)) terms) deps) OK2)
    as (g3 & -> & OK3 & N3 & E3). cbn [bind].
  rewrite nest_dees_inits.
  destruct (add_pairs_ok g3 (flat_map (fun dee => map (fun i => (dee, i)) inits) dees) OK3)
    as (g4 & -> & OK4 & N4 & E4). cbn [bind].
  assert (NG4 : forall k, cnode g4 k <-> graft_node g s sub k).
  { intros k. rewrite N4, N3, N2, N1. unfold graft_node. split.
    - intros [[[H|H]|([t d] & Hp & H)]|([d i] & Hp & H)].
      + now left.
      + right. now left.
      + apply (In_pairs_r (fun _ => terms)) in Hp. destruct Hp as [Hd Ht].
        apply HT in Ht. apply DP in Hd. cbn in H. destruct H as [->| ->].
        * right. left. apply Ht.
        * destruct (Nat.eq_dec d s) as [->|Nd].
          -- right. right. split; [reflexivity|]. split; [exact Hd|]. left. eauto.
          -- left. split; [apply (cedge_nodes _ _ _ Hd)|exact Nd].
      + apply (In_pairs_l (fun _ => inits)) in Hp. destruct Hp as [Hd Hi].
        apply HI in Hi. apply DE in Hd. cbn in H. destruct H as [->| ->].
        * destruct (Nat.eq_dec d s) as [->|Nd].
          -- right. right. split; [reflexivity|]. split; [exact Hd|]. right. eauto.
          -- left. split; [apply (cedge_nodes _ _ _ Hd)|exact Nd].
        * right. left. apply Hi.
    - intros [H|[H|(-> & Hss & [[t Ht]|[i Hi]])]].
      + left. left. now left.
      + left. left. now right.
      + left. right. exists (t, s). split; [|now right].
        apply (In_pairs_r (fun _ => terms)). split; [apply DP, Hss|apply HT, Ht].
      + right. exists (s, i). split; [|now left].
        apply (In_pairs_l (fun _ => inits)). split; [apply DE, Hss|apply HI, Hi]. }
  assert (EG4 : forall x y, cedge g4 x y <->
            (cedge g x y /\ x <> s /\ y <> s) \/ cedge sub x y \/
            (is_term sub x /\ cedge g s y) \/ (cedge g x s /\ is_init sub y)).
  { intros x y. rewrite E4, E3, E2, E1.
    rewrite (In_pairs_r (fun _ => terms)), (In_pairs_l (fun _ => inits)).
    rewrite (HT x), (DP y), (DE x), (HI y). tauto. }
  assert (EMP : glen sub = 0 <-> forall k, ~ cnode sub k).
  { unfold glen, cnode. destruct (seq (nodes sub)) as [|a r]; cbn.
    - split; [intros _ k []|reflexivity].
    - split; [discriminate|]. intros H. exfalso. apply (H a). now left. }
  destruct (Nat.eqb_spec (glen sub) 0) as [Z|NZ].
  - rewrite nest_repair.
    match goal with |- context [foldM _ ?ps g4] =>
      destruct (add_pairs_ok g4 ps OK4) as (g5 & -> & OK5 & N5 & E5) end.
    assert (P5 : forall x y,
      In (x, y) (flat_map (fun dee => map (fun dep => (dee, dep))
                   (filter (fun dep => negb ((dee =? s) || (dep =? s) || (dee =? dep))) deps)) dees)
      <-> cedge g x s /\ cedge g s y /\ x <> s /\ y <> s /\ x <> y).
    { intros x y.
      rewrite (In_pairs_l (fun dee => filter (fun dep => negb ((dee =? s) || (dep =? s) || (dee =? dep))) deps)).
      rewrite filter_In, (DE x), (DP y), negb_true_iff, !orb_false_iff, !Nat.eqb_neq. tauto. }
    split; [exact Cs|]. split; [exact OK5|]. split.
    + intros k. rewrite N5, NG4. split; [|now left].
      intros [H|([x y] & Hp & H)]; [exact H|]. apply P5 in Hp.
      destruct Hp as (Hx & Hy & Nx & Ny & _). left. cbn in H. destruct H as [->| ->].
      * split; [apply (cedge_nodes _ _ _ Hx)|exact Nx].
      * split; [apply (cedge_nodes _ _ _ Hy)|exact Ny].
    + intros x y. rewrite E5, EG4, P5. unfold graft_edge. pose proof (proj1 EMP Z) as Z'. tauto.
  - split; [exact Cs|]. split; [exact OK4|]. split; [exact NG4|].
    intros x y. rewrite EG4. unfold graft_edge. rewrite <- EMP. tauto.
Qed.

(* C16 — vocabulary for merge / invert / graft / flatten statements. Definitions only. *)
From Coq Require Import List Arith Bool PeanoNat Relations.
From VV Require Import Lib.Base C16.Model C16.Inv.
Import ListNotations.

(* initial nodes: nobody depends on them; terminal nodes: they depend on nobody *)
Definition is_init (g : cgraph) (k : key) : Prop := cnode g k /\ ~ exists a, cedge g a k.
Definition is_term (g : cgraph) (k : key) : Prop := cnode g k /\ ~ exists b, cedge g k b.

(* the mathematical graph that graft(s) produces when the node s is the graph [sub] *)
Definition graft_node (g : cgraph) (s : key) (sub : cgraph) (k : key) : Prop :=
  (cnode g k /\ k <> s) \/ cnode sub k \/
  (k = s /\ cedge g s s /\ ((exists t, is_term sub t) \/ (exists i, is_init sub i))).

Definition graft_edge (g : cgraph) (s : key) (sub : cgraph) (x y : key) : Prop :=
  (cedge g x y /\ x <> s /\ y <> s) \/ cedge sub x y \/
  (is_term sub x /\ cedge g s y) \/ (cedge g x s /\ is_init sub y) \/
  ((forall k, ~ cnode sub k) /\ cedge g x s /\ cedge g s y /\ x <> s /\ y <> s /\ x <> y).

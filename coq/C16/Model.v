(* C16 — executable model of valjean/cosette/rlist.py (RList) and
   valjean/cosette/depgraph.py (DepGraph) as they are in /repo after the fix
   commits 3f34351 + 284a47d (graft of an empty sub-graph), be7c21f (<= by identity) and
   the flatten order fix (empty sub-graphs last).

   Nodes are identities: a node is its key (Python: id(obj)), a [nat].
   Even keys are plain nodes; the odd key 2r+1 is the graph object held in
   register r of the world (nested graph).  Python dicts are association
   lists (insertion order kept, never observed), Python sets of ints are
   duplicate-free lists.  Exceptions are values ([Raise cls]).  No proofs. *)
From Coq Require Import List Arith Bool PeanoNat.
From VV Require Import Lib.Base.
Import ListNotations.

Definition key := nat.

(* exception classes the property distinguishes *)
Definition EValue := 0.   (* ValueError: node not in the graph *)
Definition EKey := 1.     (* KeyError: missing edge / missing dict key *)
Definition ECyclic := 2.  (* DepGraphError *)
Definition EIndex := 3.   (* IndexError *)
Definition EFuel := 9.    (* recursion that does not end (RecursionError / endless loop) *)

Definition bind {A B} (x : res A) (f : A -> res B) : res B :=
  match x with Ok a => f a | Raise c => Raise c end.
Notation "'do' x <- e ; f" := (bind e (fun x => f))
  (at level 200, x pattern, e at level 100, f at level 200, right associativity).

Fixpoint foldM {A B} (f : A -> B -> res A) (l : list B) (a : A) : res A :=
  match l with
  | [] => Ok a
  | b :: r => do a' <- f a b; foldM f r a'
  end.

Fixpoint mapM {A B} (f : A -> res B) (l : list A) : res (list B) :=
  match l with
  | [] => Ok []
  | a :: r => do b <- f a; do bs <- mapM f r; Ok (b :: bs)
  end.

Fixpoint forallM {A} (f : A -> res bool) (l : list A) : res bool :=
  match l with
  | [] => Ok true
  | a :: r => do b <- f a; if b then forallM f r else Ok false
  end.

(* ---------- dict with nat keys ---------- *)
Fixpoint dget {V} (k : nat) (d : list (nat * V)) : option V :=
  match d with
  | [] => None
  | (k', v) :: r => if k' =? k then Some v else dget k r
  end.

Fixpoint dset {V} (k : nat) (v : V) (d : list (nat * V)) : list (nat * V) :=
  match d with
  | [] => [(k, v)]
  | (k', v') :: r => if k' =? k then (k, v) :: r else (k', v') :: dset k v r
  end.

Definition ddel {V} (k : nat) (d : list (nat * V)) : list (nat * V) :=
  filter (fun p => negb (fst p =? k)) d.

Definition dmap {V W} (f : V -> W) (d : list (nat * V)) : list (nat * W) :=
  map (fun p => (fst p, f (snd p))) d.

Definition dgetE {V} (k : nat) (d : list (nat * V)) : res V :=
  match dget k d with Some v => Ok v | None => Raise EKey end.

(* ---------- sets of ints ---------- *)
Definition mem (x : nat) (l : list nat) : bool := existsb (Nat.eqb x) l.
Definition sadd (x : nat) (l : list nat) : list nat := if mem x l then l else l ++ [x].
Definition srem (x : nat) (l : list nat) : list nat := filter (fun y => negb (y =? x)) l.
Definition sunion (a b : list nat) : list nat := fold_left (fun acc x => sadd x acc) b a.
Definition dedup (l : list nat) : list nat := sunion [] l.

(* ---------- RList (rlist.py 145-290) ---------- *)
Record rlist := mkR { seq : list key; index : list (key * list nat) }.

Definition rl_empty : rlist := mkR [] [].

(* self._index[key].append(i)  on a defaultdict(list) *)
Definition idx_push (k : key) (i : nat) (ix : list (key * list nat)) :=
  match dget k ix with
  | Some l => dset k (l ++ [i]) ix
  | None => dset k [i] ix
  end.

(* insert (index >= 0) *)
Definition rl_insert (r : rlist) (idx : nat) (v : key) : rlist :=
  let idx := Nat.min (length (seq r)) idx in
  mkR (firstn idx (seq r) ++ v :: skipn idx (seq r))
      (idx_push v idx (dmap (map (fun i => if i <? idx then i else S i)) (index r))).

(* MutableSequence.append *)
Definition rl_append (r : rlist) (v : key) : rlist := rl_insert r (length (seq r)) v.

(* list.remove: first occurrence; None = ValueError *)
Fixpoint remove1 (i : nat) (l : list nat) : option (list nat) :=
  match l with
  | [] => None
  | x :: r => if x =? i then Some r
              else match remove1 i r with Some r' => Some (x :: r') | None => None end
  end.

Fixpoint set_nth {A} (i : nat) (v : A) (l : list A) : list A :=
  match l, i with
  | [], _ => []
  | _ :: r, 0 => v :: r
  | x :: r, S i' => x :: set_nth i' v r
  end.

Definition rl_get (r : rlist) (i : nat) : res key :=
  match nth_error (seq r) i with Some k => Ok k | None => Raise EIndex end.

(* __setitem__ (index >= 0) *)
Definition rl_setitem (r : rlist) (i : nat) (v : key) : res rlist :=
  match nth_error (seq r) i with
  | None => Raise EIndex
  | Some old =>
    let inds := match dget old (index r) with Some l => l | None => [] end in
    match remove1 i inds with
    | None => Raise EValue
    | Some inds' =>
      let ix := match inds' with
                | [] => ddel old (index r)
                | _ => dset old inds' (index r)
                end in
      Ok (mkR (set_nth i v (seq r)) (idx_push v i ix))
    end
  end.

(* __delitem__ (index >= 0) *)
Definition rl_delitem (r : rlist) (i : nat) : res rlist :=
  if i <? length (seq r) then
    Ok (mkR (firstn i (seq r) ++ skipn (S i) (seq r))
            (flat_map (fun p =>
               match map (fun j => if j <? i then j else j - 1)
                         (filter (fun j => negb (j =? i)) (snd p)) with
               | [] => []
               | l => [(fst p, l)]
               end) (index r)))
  else Raise EIndex.

Definition rl_swap (r : rlist) (i j : nat) : res rlist :=
  match nth_error (seq r) i, nth_error (seq r) j with
  | Some a, Some b => do r1 <- rl_setitem r i b; rl_setitem r1 j a
  | _, _ => Raise EIndex
  end.

Definition rl_get_index (r : rlist) (v : key) : res (option nat) :=
  match dget v (index r) with
  | None => Ok None
  | Some [] => Raise EIndex
  | Some (i :: _) => Ok (Some i)
  end.

Definition rl_index (r : rlist) (v : key) : res nat :=
  match dget v (index r) with
  | Some (i :: _) => Ok i
  | _ => Raise EValue
  end.

Definition rl_contains (r : rlist) (v : key) : bool :=
  match dget v (index r) with Some _ => true | None => false end.

Definition rl_of_list (l : list key) : rlist := fold_left rl_append l rl_empty.
Definition rl_copy (r : rlist) : rlist := rl_of_list (seq r).

(* ---------- DepGraph (depgraph.py 297-810) ---------- *)
Record cgraph := mkG { nodes : rlist; edges : list (nat * list nat) }.

Definition g_empty : cgraph := mkG rl_empty [].
Definition glen (g : cgraph) : nat := length (seq (nodes g)).

Definition setdefault (k : nat) (d : list (nat * list nat)) :=
  match dget k d with Some _ => d | None => dset k [] d end.

(* DepGraph._complete *)
Definition complete (d : list (nat * list nat)) : list (nat * list nat) :=
  dmap dedup
       (fold_left (fun c p => fold_left (fun c v => setdefault v c) (snd p) c) d d).

(* DepGraph(nodes, edges) *)
Definition mk_graph (ns : list key) (es : list (nat * list nat)) : cgraph :=
  mkG (rl_of_list ns) (complete es).

Definition copy (g : cgraph) : cgraph := mk_graph (seq (rl_copy (nodes g))) (edges g).

Definition add_node (g : cgraph) (n : key) : cgraph :=
  if rl_contains (nodes g) n then g
  else mkG (rl_append (nodes g) n) (dset (glen g) [] (edges g)).

Definition remove_node (g : cgraph) (n : key) : res cgraph :=
  do oi <- rl_get_index (nodes g) n;
  match oi with
  | None => Ok g
  | Some i =>
    let last := glen g - 1 in
    do ns <- rl_swap (nodes g) i last;
    do ei <- dgetE i (edges g);
    do el <- dgetE last (edges g);
    let e1 := dset last ei (dset i el (edges g)) in
    let sw := fun k => if k =? i then last else if k =? last then i else k in
    let e2 := dmap (map sw) e1 in
    let e3 := ddel last e2 in
    let e4 := dmap (filter (fun k => negb (k =? last))) e3 in
    do ns' <- rl_delitem ns last;
    Ok (mkG ns' e4)
  end.

Definition add_dependency (g : cgraph) (a b : key) : res cgraph :=
  let g1 := add_node (add_node g a) b in
  do ia <- rl_index (nodes g1) a;
  do ib <- rl_index (nodes g1) b;
  do s <- dgetE ia (edges g1);
  Ok (mkG (nodes g1) (dset ia (sadd ib s) (edges g1))).

Definition remove_dependency (g : cgraph) (a b : key) : res cgraph :=
  do ia <- rl_index (nodes g) a;
  do ib <- rl_index (nodes g) b;
  do s <- dgetE ia (edges g);
  if mem ib s then Ok (mkG (nodes g) (dset ia (srem ib s) (edges g)))
  else Raise EKey.

Definition invert (g : cgraph) : cgraph :=
  let inv :=
    fold_left (fun acc p =>
      fold_left (fun acc v =>
        let acc := setdefault v acc in
        match dget v acc with
        | Some l => dset v (l ++ [fst p]) acc
        | None => acc
        end) (snd p) (setdefault (fst p) acc))
      (edges g) [] in
  mk_graph (seq (nodes g)) inv.

Fixpoint enumerate_from {A} (k : nat) (l : list A) : list (nat * A) :=
  match l with
  | [] => []
  | a :: r => (k, a) :: enumerate_from (S k) r
  end.
Definition enumerate {A} (l : list A) := enumerate_from 0 l.

Definition names (g : cgraph) (js : list nat) : res (list key) := mapM (rl_get (nodes g)) js.

(* __iter__ *)
Definition g_iter (g : cgraph) : res (list (key * list key)) :=
  mapM (fun p => do s <- dgetE (fst p) (edges g); do vs <- names g s; Ok (snd p, vs))
       (enumerate (seq (nodes g))).

Definition merge (g h : cgraph) : res cgraph :=
  do items <- g_iter h;
  foldM (fun g p => foldM (fun g v => add_dependency g (fst p) v) (snd p) (add_node g (fst p)))
        items g.

(* dependencies(node, recurse=True): the work-list loop *)
Fixpoint deps_loop (fuel : nat) (g : cgraph) (queue seen deps : list nat) : res (list nat) :=
  match fuel with
  | 0 => Raise EFuel
  | S f =>
    match rev queue with
    | [] => Ok deps
    | nxt :: rq =>
      let seen := sadd nxt seen in
      do result <- dgetE nxt (edges g);
      deps_loop f g (rev rq ++ filter (fun n => negb (mem n seen)) result) seen (sunion deps result)
    end
  end.

Definition dependencies (g : cgraph) (n : key) (recurse : bool) : res (list key) :=
  do i <- rl_index (nodes g) n;
  if recurse then
    do ds <- deps_loop (S (glen g) * S (glen g) * S (glen g)) g [i] [] []; names g ds
  else
    do ds <- dgetE i (edges g); names g ds.

Definition dependees (g : cgraph) (n : key) : res (list key) :=
  do i <- rl_index (nodes g) n;
  do ks <- foldM (fun acc k => do s <- dgetE k (edges g);
                               Ok (if mem i s then acc ++ [k] else acc))
                 (List.seq 0 (glen g)) [];
  names g ks.

Fixpoint depends_loop (fuel : nat) (g : cgraph) (ind2 : nat) (deps1 : list nat) (recurse : bool)
  : res bool :=
  match fuel with
  | 0 => Raise EFuel
  | S f =>
    match deps1 with
    | [] => Ok false
    | _ =>
      if mem ind2 deps1 then Ok true
      else if negb recurse then Ok false
      else do nxt <- foldM (fun acc i => do s <- dgetE i (edges g); Ok (sunion acc s)) deps1 [];
           depends_loop f g ind2 nxt recurse
    end
  end.

Definition depends (g : cgraph) (a b : key) (recurse : bool) : res bool :=
  do i1 <- rl_index (nodes g) a;
  do i2 <- rl_index (nodes g) b;
  do d1 <- dgetE i1 (edges g);
  depends_loop (glen g + 2) g i2 d1 recurse.

Definition initial (g : cgraph) : res (list key) :=
  let targets := fold_left (fun acc p => sunion acc (snd p)) (edges g) [] in
  names g (filter (fun i => negb (mem i targets)) (List.seq 0 (glen g))).

Definition terminal (g : cgraph) : res (list key) :=
  foldM (fun acc n => do ds <- dependencies g n false;
                      Ok (match ds with [] => acc ++ [n] | _ => acc end))
        (seq (nodes g)) [].

(* topological_sort: marks keyed by the node; true = PERM, false = TEMP *)
Fixpoint ts_visit (fuel : nat) (g : cgraph) (st : list (key * bool) * list key) (node : key)
  : res (list (key * bool) * list key) :=
  match fuel with
  | 0 => Raise EFuel
  | S f =>
    match dget node (fst st) with
    | Some false => Raise ECyclic
    | Some true => Ok st
    | None =>
      let marks := dset node false (fst st) in
      do idx <- rl_index (nodes g) node;
      let targets := match dget idx (edges g) with Some s => s | None => [] end in
      do st' <- foldM (fun st t => do nd <- rl_get (nodes g) t; ts_visit f g st nd)
                      targets (marks, snd st);
      Ok (dset node true (fst st'), snd st' ++ [node])
    end
  end.

Definition topological_sort (g : cgraph) : res (list key) :=
  do st <- foldM (fun st node => match dget node (fst st) with
                                 | Some _ => Ok st
                                 | None => ts_visit (glen g + 2) g st node
                                 end)
                 (seq (nodes g)) ([], []);
  Ok (snd st).

(* transitive_reduction / transitive_closure: _visit(start_edges, current) *)
Fixpoint tr_visit (fuel : nat) (g : cgraph) (keep : nat -> bool) (cur : nat) : res (list nat) :=
  match fuel with
  | 0 => Raise EFuel
  | S f =>
    do ce <- dgetE cur (edges g);
    foldM (fun acc dest =>
             let acc := if keep dest then sadd dest acc else acc in
             do sub <- tr_visit f g keep dest; Ok (sunion acc sub))
          ce []
  end.

Definition transitive_reduction (g : cgraph) : res cgraph :=
  foldM (fun g i =>
           do start <- dgetE i (edges g);
           do rm <- foldM (fun acc j => do s <- tr_visit (glen g + 1) g (fun d => mem d start) j;
                                        Ok (sunion acc s)) start [];
           do s' <- foldM (fun s j => if mem j s then Ok (srem j s) else Raise EKey) rm start;
           Ok (mkG (nodes g) (dset i s' (edges g))))
        (List.seq 0 (glen g)) g.

Definition transitive_closure (g : cgraph) : res cgraph :=
  foldM (fun g i =>
           do start <- dgetE i (edges g);
           do ad <- foldM (fun acc j => do s <- tr_visit (glen g + 1) g (fun d => negb (mem d start)) j;
                                        Ok (sunion acc s)) start [];
           Ok (mkG (nodes g) (dset i (sunion start ad) (edges g))))
        (List.seq 0 (glen g)) g.

(* isomorphic_to / __eq__ (other is a DepGraph) *)
Definition isomorphic (g h : cgraph) : res bool :=
  if negb (glen g =? glen h) then Ok false else
  let size := glen g in
  do maps <- foldM (fun st p =>
      match st with
      | None => Ok None
      | Some (i2o, o2i) =>
        do oi <- rl_get_index (nodes h) (snd p);
        match oi with
        | None => Ok None
        | Some o => if o <? size then Ok (Some (dset (fst p) o i2o, dset o (fst p) o2i))
                    else Raise EIndex
        end
      end) (enumerate (seq (nodes g))) (Some ([], []));
  match maps with
  | None => Ok false
  | Some (i2o, o2i) =>
    if negb (forallb (fun o => match dget o o2i with Some _ => true | None => false end)
                     (List.seq 0 size)) then Ok false
    else
      forallM (fun p =>
        match dget (fst p) i2o with
        | None => Raise EIndex
        | Some o =>
          do ovs <- dgetE o (edges h);
          do back <- mapM (fun x => match dget x o2i with Some i => Ok i | None => Raise EIndex end) ovs;
          Ok (forallb (fun x => mem x back) (snd p) && forallb (fun x => mem x (snd p)) back)
        end) (edges g)
  end.

(* __le__ (other is a DepGraph), after be7c21f *)
Definition le (g h : cgraph) : res bool :=
  if forallb (rl_contains (nodes h)) (seq (nodes g)) then
    forallM (fun node => do ds <- dependencies g node false;
                         forallM (fun dep => depends h node dep false) ds)
            (seq (nodes g))
  else Ok false.

(* graft(node): [s] is the key of the node, [sub] the graph it is; after 3f34351 *)
Definition graft (g : cgraph) (s : key) (sub : cgraph) : res cgraph :=
  do deps <- dependencies g s false;
  do dees <- dependees g s;
  do g1 <- remove_node g s;
  do inits <- initial sub;
  do terms <- terminal sub;
  do g2 <- merge g1 sub;
  do g3 <- foldM (fun g dep => foldM (fun g term => add_dependency g term dep) terms g) deps g2;
  do g4 <- foldM (fun g dee => foldM (fun g init => add_dependency g dee init) inits g) dees g3;
  if glen sub =? 0 then
    foldM (fun g dee => foldM (fun g dep => if (dee =? s) || (dep =? s) || (dee =? dep) then Ok g
                                            else add_dependency g dee dep) deps g) dees g4
  else Ok g4.

(* flatten: [subs k] is the graph the node k is, None for a plain node *)
Fixpoint flatten (fuel : nat) (subs : key -> option cgraph) (recurse : bool) (g : cgraph)
  : res cgraph :=
  match fuel with
  | 0 => Raise EFuel
  | S f =>
    match filter (fun n => match subs n with Some _ => true | None => false end) (seq (nodes g)) with
    | [] => Ok g
    | ns =>
      (* empty sub-graphs are grafted last (recursive mode: once no other sub-graph is left) *)
      let non_empty := filter (fun n => match subs n with
                                        | Some sub => negb (glen sub =? 0) | None => false end) ns in
      let empty := filter (fun n => match subs n with
                                    | Some sub => glen sub =? 0 | None => false end) ns in
      let todo := match non_empty with
                  | _ :: _ => if recurse then non_empty else non_empty ++ empty
                  | [] => empty
                  end in
      do g' <- foldM (fun g n => match subs n with
                                 | Some sub => graft g n sub
                                 | None => Raise EValue
                                 end) todo g;
      if recurse then flatten f subs recurse g' else Ok g'
    end
  end.

(* ---------- the abstraction: node set and edge set ---------- *)
Definition g_abs (g : cgraph) : res (list key * list (key * key)) :=
  do items <- g_iter g;
  Ok (map fst items, flat_map (fun p => map (fun v => (fst p, v)) (snd p)) items).

(* ---------- worlds: registers holding graph objects ---------- *)
Definition world := list cgraph.
Definition gkey (r : nat) : key := 2 * r + 1.
Definition sub_of (w : world) (k : key) : option cgraph :=
  if Nat.odd k then nth_error w (Nat.div2 k) else None.

Inductive wop :=
| WNew                                  (* DepGraph() in a new register *)
| WAddNode (r : nat) (n : key)
| WRemoveNode (r : nat) (n : key)
| WAddDep (r : nat) (a b : key)
| WRemoveDep (r : nat) (a b : key)
| WMerge (r r' : nat)                   (* r += r' *)
| WPlus (r r' : nat)                    (* new = r + r' *)
| WCopy (r : nat)                       (* new = r.copy() *)
| WInvert (r : nat)                     (* new = r.invert() *)
| WGraft (r : nat) (n : key)
| WFlatten (r : nat) (recurse : bool)
| WReduce (r : nat)
| WClose (r : nat).

Definition wget (w : world) (r : nat) : res cgraph :=
  match nth_error w r with Some g => Ok g | None => Raise EIndex end.

Definition wstep (w : world) (o : wop) : res world :=
  match o with
  | WNew => Ok (w ++ [g_empty])
  | WAddNode r n => do g <- wget w r; Ok (set_nth r (add_node g n) w)
  | WRemoveNode r n => do g <- wget w r; do g' <- remove_node g n; Ok (set_nth r g' w)
  | WAddDep r a b => do g <- wget w r; do g' <- add_dependency g a b; Ok (set_nth r g' w)
  | WRemoveDep r a b => do g <- wget w r; do g' <- remove_dependency g a b; Ok (set_nth r g' w)
  | WMerge r r' => do g <- wget w r; do h <- wget w r'; do g' <- merge g h; Ok (set_nth r g' w)
  | WPlus r r' => do g <- wget w r; do h <- wget w r'; do g' <- merge (copy g) h; Ok (w ++ [g'])
  | WCopy r => do g <- wget w r; Ok (w ++ [copy g])
  | WInvert r => do g <- wget w r; Ok (w ++ [invert g])
  | WGraft r n => do g <- wget w r;
                  match sub_of w n with
                  | Some sub => do g' <- graft g n sub; Ok (set_nth r g' w)
                  | None => Raise EValue
                  end
  | WFlatten r rec => do g <- wget w r;
                      do g' <- flatten (length w + length w) (sub_of w) rec g; Ok (set_nth r g' w)
  | WReduce r => do g <- wget w r; do g' <- transitive_reduction g; Ok (set_nth r g' w)
  | WClose r => do g <- wget w r; do g' <- transitive_closure g; Ok (set_nth r g' w)
  end.

(* ---------- boolean reflections used by theorems and by the check ---------- *)
Definition keq (a b : key * key) : bool := (fst a =? fst b) && (snd a =? snd b).
Definition pmem (p : key * key) (l : list (key * key)) : bool := existsb (keq p) l.
Definition set_eqb (a b : list nat) : bool :=
  forallb (fun x => mem x b) a && forallb (fun x => mem x a) b.
Definition pset_eqb (a b : list (key * key)) : bool :=
  forallb (fun x => pmem x b) a && forallb (fun x => pmem x a) b.
Fixpoint nodupb (l : list nat) : bool :=
  match l with [] => true | x :: r => negb (mem x r) && nodupb r end.

(* position of a key in a list *)
Fixpoint pos (x : nat) (l : list nat) : option nat :=
  match l with
  | [] => None
  | y :: r => if y =? x then Some 0 else option_map S (pos x r)
  end.

(* [order] lists every node once, every node after all its dependencies *)
Definition valid_order (ns : list key) (es : list (key * key)) (order : list key) : bool :=
  set_eqb ns order && nodupb order &&
  forallb (fun e => match pos (fst e) order, pos (snd e) order with
                    | Some i, Some j => j <? i
                    | _, _ => false
                    end) es.

(* reachability over an edge list (successors = dependencies) *)
Definition succs (es : list (key * key)) (a : key) : list key :=
  map snd (filter (fun e => fst e =? a) es).
Fixpoint reach_from (fuel : nat) (es : list (key * key)) (l : list key) : list key :=
  match fuel with
  | 0 => l
  | S f => reach_from f es (sunion l (flat_map (succs es) l))
  end.
(* nodes reachable from [a] in at least one step *)
Definition reach1 (n : nat) (es : list (key * key)) (a : key) : list key :=
  reach_from n es (dedup (succs es a)).
Definition reach_eqb (ns : list key) (es1 es2 : list (key * key)) : bool :=
  forallb (fun a => set_eqb (reach1 (length ns) es1 a) (reach1 (length ns) es2 a)) ns.

(* ---------- what one generated case checks ---------- *)
Definition snapshot := (list key * list (key * key))%type.

Definition of_snapshot (s : snapshot) : res cgraph :=
  foldM (fun g e => add_dependency g (fst e) (snd e)) (snd s) (fold_left add_node (fst s) g_empty).

Inductive step :=
| SMut (o : wop) (raised : option nat) (touched : list (nat * snapshot))
| SDeps (r : nat) (n : key) (rec : bool) (exp : res (list key))
| SDependees (r : nat) (n : key) (exp : res (list key))
| SDepends (r : nat) (a b : key) (rec : bool) (exp : res bool)
| SEq (r r' : nat) (exp : bool)
| SLe (r r' : nat) (exp : bool)
| SInitial (r : nat) (exp : list key)
| STerminal (r : nat) (exp : list key)
| SSort (r : nat) (exp : res (list key))
| SContains (r : nat) (n : key) (exp : bool)
| SLen (r : nat) (exp : nat)
| SWorld (exp : list snapshot)
| SFlat (r : nat) (exp : snapshot).   (* r.flatten(): same nodes, same reachability; then resynchronise *)

Definition snap_eqb (g : cgraph) (s : snapshot) : bool :=
  match g_abs g with
  | Ok (ns, es) => set_eqb ns (fst s) && nodupb ns && (length ns =? length (fst s))
                   && pset_eqb es (snd s) && (length es =? length (snd s))
  | Raise _ => false
  end.

Definition keys_res_eqb (a b : res (list key)) : bool :=
  match a, b with
  | Ok x, Ok y => set_eqb x y && (length x =? length y)
  | Raise c, Raise c' => c =? c'
  | _, _ => false
  end.

Definition bool_res_eqb (a b : res bool) : bool :=
  match a, b with
  | Ok x, Ok y => Bool.eqb x y
  | Raise c, Raise c' => c =? c'
  | _, _ => false
  end.

Definition with_reg (w : world) (r : nat) (f : cgraph -> bool) : bool :=
  match nth_error w r with Some g => f g | None => false end.

(* one step: new world (unchanged when the operation raised) and verdict *)
Definition check_step (w : world) (s : step) : world * bool :=
  match s with
  | SMut o raised touched =>
    match wstep w o, raised with
    | Ok w', None =>
      (w', forallb (fun t => with_reg w' (fst t) (fun g => snap_eqb g (snd t))) touched)
    | Raise c, Some c' => (w, c =? c')
    | Ok w', Some _ => (w', false)
    | Raise _, None => (w, false)
    end
  | SDeps r n rec exp => (w, with_reg w r (fun g => keys_res_eqb (dependencies g n rec) exp))
  | SDependees r n exp => (w, with_reg w r (fun g => keys_res_eqb (dependees g n) exp))
  | SDepends r a b rec exp => (w, with_reg w r (fun g => bool_res_eqb (depends g a b rec) exp))
  | SEq r r' exp =>
    (w, with_reg w r (fun g => with_reg w r' (fun h => bool_res_eqb (isomorphic g h) (Ok exp))))
  | SLe r r' exp =>
    (w, with_reg w r (fun g => with_reg w r' (fun h => bool_res_eqb (le g h) (Ok exp))))
  | SInitial r exp => (w, with_reg w r (fun g => keys_res_eqb (initial g) (Ok exp)))
  | STerminal r exp => (w, with_reg w r (fun g => keys_res_eqb (terminal g) (Ok exp)))
  | SSort r exp =>
    (w, with_reg w r (fun g =>
          match topological_sort g, exp, g_abs g with
          | Ok mine, Ok theirs, Ok (ns, es) => valid_order ns es mine && valid_order ns es theirs
          | Raise c, Raise c', _ => c =? c'
          | _, _, _ => false
          end))
  | SContains r n exp => (w, with_reg w r (fun g => Bool.eqb (rl_contains (nodes g) n) exp))
  | SLen r exp => (w, with_reg w r (fun g => glen g =? exp))
  | SWorld exp =>
    (w, (length w =? length exp)
        && forallb (fun p => snap_eqb (fst p) (snd p)) (combine w exp))
  | SFlat r exp =>
    match wstep w (WFlatten r true), of_snapshot exp with
    | Ok w', Ok g' =>
      (set_nth r g' w',
       with_reg w' r (fun g =>
         match g_abs g with
         | Ok (ns, es) => set_eqb ns (fst exp) && nodupb ns && (length ns =? length (fst exp))
                          && reach_eqb ns es (snd exp)
         | Raise _ => false
         end))
    | _, _ => (w, false)
    end
  end.

Fixpoint check_steps (w : world) (l : list step) : bool :=
  match l with
  | [] => true
  | s :: r => let (w', ok) := check_step w s in ok && check_steps w' r
  end.

Definition check_case (c : list step) : bool := check_steps [] c.

(* C16 — flattening nested dependency graphs preserves the ordering constraints
   between plain nodes (general, unbounded statement).

   [subs k] tells which node keys are nested graphs ([None] = plain node) and which
   graph they are.  [inside g k]: k is transitively contained in g.  Virtual nodes:
   [P k] a plain node, [T q] "after everything in the nested graph q", [B q] "before
   everything in q".  [vstep g u v]: u must come after v.  The theorems say that one
   graft step, and the whole recursive flatten, keep the relation "must come after"
   between plain nodes (transitive closure of [vstep]), and that the result of the
   flatten has exactly the plain inside nodes, with [cedge] standing for it. *)
From Coq Require Import List Arith Bool PeanoNat Lia Relations.
From VV Require Import Lib.Base C16.Model C16.Inv C16.GraftSpec C16.ProofsR C16.ProofsG C16.ProofsM.
Import ListNotations.

(* ---------- closures ---------- *)
Section Clos.
Context {A : Type} (R : A -> A -> Prop).

Lemma rt_or_t x y : clos_refl_trans A R x y -> x = y \/ clos_trans A R x y.
Proof.
  induction 1 as [x y H| x | x y z _ [->|H1] _ [->|H2]]; auto.
  - right. now apply t_step.
  - right. eapply t_trans; eauto.
Qed.

Lemma t_rt x y : clos_trans A R x y -> clos_refl_trans A R x y.
Proof. induction 1; [now apply rt_step|eapply rt_trans; eauto]. Qed.

Lemma t_rt_t x y z : clos_trans A R x y -> clos_refl_trans A R y z -> clos_trans A R x z.
Proof. intros H1 H2. destruct (rt_or_t _ _ H2) as [<-|H3]; [exact H1|eapply t_trans; eauto]. Qed.

Lemma rt_step_r x y z : clos_refl_trans A R x y -> R y z -> clos_refl_trans A R x z.
Proof. intros H1 H2. eapply rt_trans; [exact H1|now apply rt_step]. Qed.

Lemma t_flip x y : clos_trans A (fun a b => R b a) x y -> clos_trans A R y x.
Proof. induction 1; [now apply t_step|eapply t_trans; eauto]. Qed.

Lemma rt_flip x y : clos_refl_trans A (fun a b => R b a) x y -> clos_refl_trans A R y x.
Proof. induction 1; [now apply rt_step|apply rt_refl|eapply rt_trans; eauto]. Qed.
End Clos.

(* ---------- a finite acyclic relation: every node is reached from a source ---------- *)
Section Finite.
Variable E : key -> key -> Prop.
Variable ns : list key.
Hypothesis Edec : forall z, (exists a, E a z) \/ ~ (exists a, E a z).
Hypothesis Ens : forall a b, E a b -> In a ns.
Hypothesis Eac : forall a, ~ clos_trans key E a a.

Lemma walk_back n : forall z l, NoDup l -> incl l ns ->
  (forall v, In v l -> clos_trans key E z v) -> In z ns -> length ns <= length l + n ->
  exists i, ~ (exists a, E a i) /\ clos_refl_trans key E i z.
Proof.
  induction n as [|n IH]; intros z l ND IL HR Hz HL.
  - exfalso. assert (ND' : NoDup (z :: l)).
    { constructor; [|exact ND]. intros Hin. exact (Eac z (HR z Hin)). }
    assert (IL' : incl (z :: l) ns) by (intros v [<-|Hv]; [exact Hz|now apply IL]).
    pose proof (NoDup_incl_length ND' IL') as HH. cbn in HH. lia.
  - destruct (Edec z) as [[a Ha]|Hn].
    + destruct (IH a (z :: l)) as (i & Hi & Hr).
      * constructor; [|exact ND]. intros Hin. exact (Eac z (HR z Hin)).
      * intros v [<-|Hv]; [exact Hz|now apply IL].
      * intros v [<-|Hv]; [now apply t_step|]. eapply t_trans; [apply t_step, Ha|now apply HR].
      * eapply Ens, Ha.
      * cbn. lia.
      * exists i. split; [exact Hi|]. eapply rt_step_r; eauto.
    + exists z. split; [exact Hn|apply rt_refl].
Qed.

Lemma has_source z : In z ns -> exists i, ~ (exists a, E a i) /\ clos_refl_trans key E i z.
Proof.
  intros Hz. apply (walk_back (length ns) z []); [constructor|intros ? []|intros ? []|exact Hz|cbn; lia].
Qed.
End Finite.

Lemma cedge_pred_dec g : g_ok g -> forall z, (exists a, cedge g a z) \/ ~ (exists a, cedge g a z).
Proof.
  intros OK z. destruct (g_iter_ok g OK) as (items & _ & _ & H1 & H2).
  destruct (Exists_dec (fun p : key * list key => In z (snd p)) items) as [H|H].
  - intros p. apply (in_dec Nat.eq_dec).
  - left. apply Exists_exists in H. destruct H as ([a vs] & Hp & Hz). exists a. eapply H1; eauto.
  - right. intros [a Ha]. apply H, Exists_exists. destruct (H2 _ _ Ha) as (vs & Hp & Hz).
    exists (a, vs). auto.
Qed.

Lemma cedge_succ_dec g : g_ok g -> forall z, (exists b, cedge g z b) \/ ~ (exists b, cedge g z b).
Proof.
  intros OK z. destruct (g_iter_ok g OK) as (items & _ & _ & H1 & H2).
  destruct (Exists_dec (fun p : key * list key => fst p = z /\ snd p <> []) items) as [H|H].
  - intros [a vs]. cbn. destruct (Nat.eq_dec a z) as [->|Ne]; [|right; tauto].
    destruct vs; [right; tauto|left; split; [reflexivity|discriminate]].
  - left. apply Exists_exists in H. destruct H as ([a [|v vs]] & Hp & Ha & Hv); cbn in *; [congruence|].
    subst a. exists v. eapply H1; [exact Hp|now left].
  - right. intros [b Hb]. apply H, Exists_exists. destruct (H2 _ _ Hb) as (vs & Hp & Hz).
    exists (z, vs). split; [exact Hp|]. cbn. split; [reflexivity|]. intros ->. destruct Hz.
Qed.

(* every node of a finite acyclic graph is reached from an initial node and reaches a
   terminal node *)
Lemma init_reaches g : g_ok g -> acyclic g -> forall z, cnode g z ->
  exists i, is_init g i /\ clos_refl_trans key (cedge g) i z.
Proof.
  intros OK AC z Hz.
  destruct (has_source (cedge g) (seq (nodes g)) (cedge_pred_dec g OK)
              (fun a b H => proj1 (cedge_nodes g a b H)) AC z Hz) as (i & Hi & Hr).
  exists i. split; [|exact Hr]. split; [|exact Hi].
  destruct (rt_or_t _ _ _ Hr) as [->|Ht]; [exact Hz|].
  apply clos_trans_t1n in Ht. destruct Ht as [? Ht|? ? Ht _]; apply (cedge_nodes g _ _ Ht).
Qed.

Lemma reaches_term g : g_ok g -> acyclic g -> forall z, cnode g z ->
  exists t, is_term g t /\ clos_refl_trans key (cedge g) z t.
Proof.
  intros OK AC z Hz.
  destruct (has_source (fun a b => cedge g b a) (seq (nodes g)) (cedge_succ_dec g OK)
              (fun a b H => proj2 (cedge_nodes g b a H))
              (fun a H => AC a (t_flip _ _ _ H)) z Hz) as (i & Hi & Hr).
  apply rt_flip in Hr.
  exists i. split; [|exact Hr]. split; [|exact Hi].
  destruct (rt_or_t _ _ _ Hr) as [<-|Ht]; [exact Hz|].
  apply clos_trans_tn1 in Ht. destruct Ht as [? Ht|? ? Ht _]; apply (cedge_nodes g _ _ Ht).
Qed.

(* ---------- nesting: inside nodes, virtual nodes, the constraint relation ---------- *)
Inductive vnode := P (k : key) | T (q : key) | B (q : key).

Section Flat.
Variable subs : key -> option cgraph.

Inductive inside (g : cgraph) : key -> Prop :=
| in_node k : cnode g k -> inside g k
| in_sub q s k : inside g q -> subs q = Some s -> cnode s k -> inside g k.

Definition top (k : key) : vnode := match subs k with Some _ => T k | None => P k end.
Definition bot (k : key) : vnode := match subs k with Some _ => B k | None => P k end.

(* [vstep g u v]: u must come after v *)
Inductive vstep (g : cgraph) : vnode -> vnode -> Prop :=
| vs_edge x y : cedge g x y -> vstep g (bot x) (top y)
| vs_tb q s : inside g q -> subs q = Some s -> vstep g (T q) (B q)
| vs_top q s x : inside g q -> subs q = Some s -> cnode s x -> vstep g (T q) (top x)
| vs_bot q s x : inside g q -> subs q = Some s -> cnode s x -> vstep g (bot x) (B q)
| vs_sub q s x y : inside g q -> subs q = Some s -> cedge s x y -> vstep g (bot x) (top y).

Notation tc g := (clos_trans vnode (vstep g)).
Notation rtc g := (clos_refl_trans vnode (vstep g)).

Definition vacyclic (g : cgraph) : Prop := forall v, ~ tc g v v.

Lemma top_some k s : subs k = Some s -> top k = T k.
Proof. unfold top. now intros ->. Qed.
Lemma bot_some k s : subs k = Some s -> bot k = B k.
Proof. unfold bot. now intros ->. Qed.
Lemma top_none k : subs k = None -> top k = P k.
Proof. unfold top. now intros ->. Qed.
Lemma bot_none k : subs k = None -> bot k = P k.
Proof. unfold bot. now intros ->. Qed.
Lemma top_T k q : top k = T q -> k = q.
Proof. unfold top. destruct (subs k); congruence. Qed.
Lemma bot_B k q : bot k = B q -> k = q.
Proof. unfold bot. destruct (subs k); congruence. Qed.
Lemma top_B k q : top k <> B q.
Proof. unfold top. destruct (subs k); congruence. Qed.
Lemma bot_T k q : bot k <> T q.
Proof. unfold bot. destruct (subs k); congruence. Qed.
Lemma top_P k a : top k = P a -> k = a /\ subs a = None.
Proof. unfold top. destruct (subs k) eqn:E; [congruence|]. intros [= <-]. auto. Qed.
Lemma bot_P k a : bot k = P a -> k = a /\ subs a = None.
Proof. unfold bot. destruct (subs k) eqn:E; [congruence|]. intros [= <-]. auto. Qed.

Lemma top_bot c k : inside c k -> rtc c (top k) (bot k).
Proof.
  intros H. unfold top, bot. destruct (subs k) eqn:E; [|apply rt_refl].
  apply rt_step. eapply vs_tb; eauto.
Qed.

(* a path of graph edges is a path of constraints *)
Lemma cpath c x y : clos_refl_trans key (cedge c) x y -> cnode c x ->
  rtc c (top x) (top y) /\ rtc c (bot x) (bot y) /\ cnode c y.
Proof.
  induction 1 as [x y H| x | x y z _ IH1 _ IH2]; intros Hx.
  - destruct (cedge_nodes _ _ _ H) as [_ Hy]. split; [|split; [|exact Hy]].
    + eapply rt_trans; [apply top_bot, in_node, Hx|]. apply rt_step, vs_edge, H.
    + eapply rt_trans; [apply rt_step, vs_edge, H|]. apply top_bot, in_node, Hy.
  - repeat split; try apply rt_refl. exact Hx.
  - destruct (IH1 Hx) as (A1 & A2 & Hy). destruct (IH2 Hy) as (B1 & B2 & Hz).
    repeat split; try exact Hz; eapply rt_trans; eauto.
Qed.

Lemma cedge_bot_bot c x y : cedge c x y -> tc c (bot x) (bot y).
Proof.
  intros H. eapply t_rt_t; [apply t_step, vs_edge, H|].
  apply top_bot, in_node. apply (cedge_nodes _ _ _ H).
Qed.

(* the edges of an inside nested graph *)
Lemma sub_bot_bot c q s x y : inside c q -> subs q = Some s -> cedge s x y -> tc c (bot x) (bot y).
Proof.
  intros Hq Hs H. eapply t_rt_t; [apply t_step; eapply vs_sub; eauto|].
  apply top_bot. eapply in_sub; eauto. apply (cedge_nodes _ _ _ H).
Qed.

Lemma sub_acyclic c q s : vacyclic c -> inside c q -> subs q = Some s -> acyclic s.
Proof.
  intros AC Hq Hs a Ha. apply (AC (bot a)).
  assert (G : forall x y, clos_trans key (cedge s) x y -> tc c (bot x) (bot y)).
  { induction 1; [eapply sub_bot_bot; eauto|eapply t_trans; eauto]. }
  apply G, Ha.
Qed.

Lemma rt_mono {A} (R S : A -> A -> Prop) x y :
  (forall a b, R a b -> S a b) -> clos_refl_trans A R x y -> clos_refl_trans A S x y.
Proof. intros M. induction 1; [apply rt_step; auto|apply rt_refl|eapply rt_trans; eauto]. Qed.

(* ---------- one graft step, from the mathematical description of the result ---------- *)
Section Graft.
Variables (g g' sub : cgraph) (q : key).
Hypothesis Hq : subs q = Some sub.
Hypothesis Cq : cnode g q.
Hypothesis AC : vacyclic g.
Hypothesis Nq : ~ cnode sub q.
Hypothesis OKs : g_ok sub.
Hypothesis N : forall k, cnode g' k <-> graft_node g q sub k.
Hypothesis E : forall x y, cedge g' x y <-> graft_edge g q sub x y.

Let F0 : inside g q := in_node g q Cq.

Lemma topq : top q = T q.
Proof. exact (top_some _ _ Hq). Qed.
Lemma botq : bot q = B q.
Proof. exact (bot_some _ _ Hq). Qed.

Lemma no_self : ~ cedge g q q.
Proof.
  intros H. apply (AC (T q)). eapply t_trans; [apply t_step; eapply vs_tb; eauto|].
  apply t_step. pose proof (vs_edge g q q H) as S. now rewrite topq, botq in S.
Qed.

Lemma N' k : cnode g' k <-> (cnode g k /\ k <> q) \/ cnode sub k.
Proof.
  rewrite N. unfold graft_node. split; [|tauto].
  intros [H|[H|(_ & H & _)]]; [tauto|tauto|]. destruct (no_self H).
Qed.

Lemma ins1 k : inside g' k -> inside g k.
Proof.
  induction 1 as [k H|q0 s k _ IH Hs Hk].
  - apply N' in H. destruct H as [[H _]|H]; [now apply in_node|]. eapply in_sub; eauto.
  - eapply in_sub; eauto.
Qed.

Lemma ins2 k : inside g k -> k <> q -> inside g' k.
Proof.
  induction 1 as [k H|q0 s k _ IH Hs Hk]; intros Nk.
  - apply in_node, N'. left. auto.
  - destruct (Nat.eq_dec q0 q) as [->|N0].
    + assert (s = sub) by congruence. subst s. apply in_node, N'. now right.
    + eapply in_sub; eauto.
Qed.

Lemma dirA_step u v : vstep g' u v -> tc g u v.
Proof.
  destruct 1 as [x y H|q' s Hi Hs|q' s x Hi Hs Hx|q' s x Hi Hs Hx|q' s x y Hi Hs H].
  - apply E in H. destruct H as [(H & _ & _)|[H|[(Ht & H)|[(H & Hi)|(_ & H1 & H2 & _)]]]].
    + apply t_step, vs_edge, H.
    + apply t_step. eapply vs_sub; eauto.
    + eapply t_trans; [apply t_step; eapply vs_bot; [exact F0|exact Hq|apply Ht]|].
      apply t_step. pose proof (vs_edge g q y H) as S. now rewrite botq in S.
    + eapply t_trans; [|apply t_step; eapply vs_top; [exact F0|exact Hq|apply Hi]].
      apply t_step. pose proof (vs_edge g x q H) as S. now rewrite topq in S.
    + pose proof (vs_edge g x q H1) as S1. rewrite topq in S1.
      pose proof (vs_edge g q y H2) as S2. rewrite botq in S2.
      eapply t_trans; [apply t_step, S1|]. eapply t_trans; [|apply t_step, S2].
      apply t_step. eapply vs_tb; eauto.
  - apply t_step. exact (vs_tb g q' s (ins1 _ Hi) Hs).
  - apply t_step. exact (vs_top g q' s x (ins1 _ Hi) Hs Hx).
  - apply t_step. exact (vs_bot g q' s x (ins1 _ Hi) Hs Hx).
  - apply t_step. exact (vs_sub g q' s x y (ins1 _ Hi) Hs H).
Qed.

Lemma dirA u v : tc g' u v -> tc g u v.
Proof. induction 1; [now apply dirA_step|eapply t_trans; eauto]. Qed.

Lemma AC' : vacyclic g'.
Proof. intros v H. exact (AC v (dirA _ _ H)). Qed.

Definition ext (v : vnode) : Prop := v <> T q /\ v <> B q.

Lemma ext_P a : ext (P a).
Proof. split; discriminate. Qed.
Lemma ext_T k : k <> q -> ext (T k).
Proof. split; congruence. Qed.
Lemma ext_B k : k <> q -> ext (B k).
Proof. split; congruence. Qed.
Lemma ext_top k : k <> q -> ext (top k).
Proof. intros Nk. split; [intros H; apply top_T in H; auto|apply top_B]. Qed.
Lemma ext_bot k : k <> q -> ext (bot k).
Proof. intros Nk. split; [apply bot_T|intros H; apply bot_B in H; auto]. Qed.

(* --- the sub-graph has a node --- *)
Section NonEmpty.
Hypothesis NE : exists x, cnode sub x.

Let SA : acyclic sub := sub_acyclic g q sub AC F0 Hq.

Lemma subpath x y : clos_refl_trans key (cedge sub) x y -> cnode sub x ->
  rtc g' (top x) (top y) /\ rtc g' (bot x) (bot y).
Proof.
  intros H Hx. destruct (cpath g' x y) as (A1 & A2 & _); [| |auto].
  - eapply rt_mono; [|exact H]. intros a b Hab. apply E. right. now left.
  - apply N'. now right.
Qed.

Definition InvN (u v : vnode) : Prop :=
  (ext v -> rtc g' u v) /\
  (v = T q -> forall i, is_init sub i -> rtc g' u (top i)) /\
  (v = B q -> exists z, cnode sub z /\ rtc g' u (bot z)).

Lemma mkN_ext u v : ext v -> rtc g' u v -> InvN u v.
Proof. intros [H1 H2] H. split; [auto|]. split; intros ->; congruence. Qed.
Lemma mkN_T u : (forall i, is_init sub i -> rtc g' u (top i)) -> InvN u (T q).
Proof. intros H. split; [intros [? _]; congruence|]. split; [auto|discriminate]. Qed.
Lemma mkN_B u z : cnode sub z -> rtc g' u (bot z) -> InvN u (B q).
Proof. intros H1 H2. split; [intros [_ ?]; congruence|]. split; [discriminate|eauto]. Qed.

Lemma stepN u v w : InvN u v -> vstep g v w -> InvN u w.
Proof.
  intros I S.
  destruct S as [x y H|q' s Hi Hs|q' s x Hi Hs Hx|q' s x Hi Hs Hx|q' s x y Hi Hs H].
  - destruct (Nat.eq_dec x q) as [->|Nx].
    + rewrite botq in I. assert (Ny : y <> q) by (intros ->; exact (no_self H)).
      apply mkN_ext; [apply ext_top, Ny|].
      destruct I as (_ & _ & IB). destruct (IB eq_refl) as (z & Hz & Pz).
      destruct (reaches_term sub OKs SA z Hz) as (t & Ht & Pt).
      eapply rt_trans; [exact Pz|]. eapply rt_step_r; [apply (subpath z t Pt Hz)|].
      apply vs_edge, E. right; right; left. split; assumption.
    + pose proof (proj1 I (ext_bot x Nx)) as Pu. destruct (Nat.eq_dec y q) as [->|Ny].
      * rewrite topq. apply mkN_T. intros i Hinit. eapply rt_step_r; [exact Pu|].
        apply vs_edge, E. right; right; right; left. split; assumption.
      * apply mkN_ext; [apply ext_top, Ny|]. eapply rt_step_r; [exact Pu|].
        apply vs_edge, E. left. auto.
  - destruct (Nat.eq_dec q' q) as [->|Nq'].
    + destruct I as (_ & IT & _). specialize (IT eq_refl). destruct NE as [x0 Hx0].
      destruct (init_reaches sub OKs SA x0 Hx0) as (i & Hinit & _).
      apply (mkN_B u i); [apply Hinit|]. eapply rt_trans; [apply IT, Hinit|].
      apply top_bot, in_node, N'. right. apply Hinit.
    + pose proof (proj1 I (ext_T q' Nq')) as Pu. apply mkN_ext; [apply ext_B, Nq'|].
      eapply rt_step_r; [exact Pu|]. eapply vs_tb; [apply ins2; eauto|eauto].
  - destruct (Nat.eq_dec q' q) as [->|Nq'].
    + assert (s = sub) by congruence. subst s.
      assert (Nx : x <> q) by (intros ->; exact (Nq Hx)).
      destruct I as (_ & IT & _). specialize (IT eq_refl).
      destruct (init_reaches sub OKs SA x Hx) as (i & Hinit & Pi).
      apply mkN_ext; [apply ext_top, Nx|]. eapply rt_trans; [apply IT, Hinit|].
      apply (subpath i x Pi), Hinit.
    + pose proof (proj1 I (ext_T q' Nq')) as Pu.
      assert (Hi' : inside g' q') by (apply ins2; auto).
      destruct (Nat.eq_dec x q) as [->|Nx].
      * rewrite topq. apply mkN_T. intros i Hinit.
        pose proof (vs_top g' q' s q Hi' Hs Hx) as S1. rewrite topq in S1.
        pose proof (vs_top g' q sub i (in_sub g' q' s q Hi' Hs Hx) Hq (proj1 Hinit)) as S2.
        eapply rt_step_r; [eapply rt_step_r; [exact Pu|exact S1]|exact S2].
      * apply mkN_ext; [apply ext_top, Nx|]. eapply rt_step_r; [exact Pu|]. eapply vs_top; eauto.
  - destruct (Nat.eq_dec q' q) as [->|Nq'].
    + assert (s = sub) by congruence. subst s.
      assert (Nx : x <> q) by (intros ->; exact (Nq Hx)).
      apply (mkN_B u x Hx). apply (proj1 I), ext_bot, Nx.
    + assert (Hi' : inside g' q') by (apply ins2; auto).
      destruct (Nat.eq_dec x q) as [->|Nx].
      * rewrite botq in I. destruct (proj2 (proj2 I) eq_refl) as (z & Hz & Pz).
        apply mkN_ext; [apply ext_B, Nq'|].
        pose proof (vs_bot g' q sub z (in_sub g' q' s q Hi' Hs Hx) Hq Hz) as S1.
        pose proof (vs_bot g' q' s q Hi' Hs Hx) as S2. rewrite botq in S2.
        eapply rt_step_r; [eapply rt_step_r; [exact Pz|exact S1]|exact S2].
      * apply mkN_ext; [apply ext_B, Nq'|].
        eapply rt_step_r; [apply (proj1 I), ext_bot, Nx|]. eapply vs_bot; eauto.
  - destruct (cedge_nodes _ _ _ H) as [Hx Hy]. destruct (Nat.eq_dec q' q) as [->|Nq'].
    + assert (s = sub) by congruence. subst s.
      assert (Nx : x <> q) by (intros ->; exact (Nq Hx)).
      assert (Ny : y <> q) by (intros ->; exact (Nq Hy)).
      apply mkN_ext; [apply ext_top, Ny|].
      eapply rt_step_r; [apply (proj1 I), ext_bot, Nx|]. apply vs_edge, E. right. now left.
    + assert (Hi' : inside g' q') by (apply ins2; auto).
      destruct (Nat.eq_dec x q) as [->|Nx].
      * rewrite botq in I.
        assert (Ny : y <> q).
        { intros ->. apply (AC (T q)). eapply t_trans; [apply t_step; eapply vs_tb; eauto|].
          apply t_step. pose proof (vs_sub g q' s q q Hi Hs H) as S. now rewrite topq, botq in S. }
        destruct (proj2 (proj2 I) eq_refl) as (z & Hz & Pz).
        apply mkN_ext; [apply ext_top, Ny|].
        pose proof (vs_bot g' q sub z (in_sub g' q' s q Hi' Hs Hx) Hq Hz) as S1.
        pose proof (vs_sub g' q' s q y Hi' Hs H) as S2. rewrite botq in S2.
        eapply rt_step_r; [eapply rt_step_r; [exact Pz|exact S1]|exact S2].
      * pose proof (proj1 I (ext_bot x Nx)) as Pu. destruct (Nat.eq_dec y q) as [->|Ny].
        -- rewrite topq. apply mkN_T. intros i Hinit.
           pose proof (vs_sub g' q' s x q Hi' Hs H) as S1. rewrite topq in S1.
           pose proof (vs_top g' q sub i (in_sub g' q' s q Hi' Hs Hy) Hq (proj1 Hinit)) as S2.
           eapply rt_step_r; [eapply rt_step_r; [exact Pu|exact S1]|exact S2].
        -- apply mkN_ext; [apply ext_top, Ny|]. eapply rt_step_r; [exact Pu|]. eapply vs_sub; eauto.
Qed.

Lemma simN u v : tc g u v -> ext u -> InvN u v.
Proof.
  intros H Hu. apply clos_trans_tn1 in H. induction H as [w S|w x S _ IH].
  - eapply stepN; [|exact S]. apply mkN_ext; [exact Hu|apply rt_refl].
  - eapply stepN; eauto.
Qed.

Lemma dirB_N a b : tc g (P a) (P b) -> tc g' (P a) (P b).
Proof.
  intros H. pose proof (simN _ _ H (ext_P a)) as I.
  destruct (rt_or_t _ _ _ (proj1 I (ext_P b))) as [Eq|Ht]; [|exact Ht].
  exfalso. rewrite Eq in H. exact (AC _ H).
Qed.
End NonEmpty.

(* --- the sub-graph is empty, and so is every nested node of g --- *)
Section Empty.
Hypothesis EM : forall x, ~ cnode sub x.
Hypothesis SIDE : forall k s', cnode g k -> subs k = Some s' -> forall x, ~ cnode s' x.

Lemma ins_g k : inside g k -> cnode g k.
Proof. induction 1 as [k H|q0 s k _ IH Hs Hk]; [exact H|]. destruct (SIDE q0 s IH Hs k Hk). Qed.

Definition InvE (u v : vnode) : Prop :=
  (ext v -> rtc g' u v) /\
  (v = T q \/ v = B q -> exists x, cedge g x q /\ rtc g' u (bot x)).

Lemma mkE_ext u v : ext v -> rtc g' u v -> InvE u v.
Proof. intros [H1 H2] H. split; [auto|]. intros [->| ->]; congruence. Qed.
Lemma mkE_q u v x : v = T q \/ v = B q -> cedge g x q -> rtc g' u (bot x) -> InvE u v.
Proof. intros Hv H1 H2. split; [intros [? ?]; destruct Hv; congruence|eauto]. Qed.

Lemma stepE u v w : InvE u v -> vstep g v w -> InvE u w.
Proof.
  intros I S.
  destruct S as [x y H|q' s Hi Hs|q' s x Hi Hs Hx|q' s x Hi Hs Hx|q' s x y Hi Hs H].
  - destruct (Nat.eq_dec x q) as [->|Nx].
    + rewrite botq in I. assert (Ny : y <> q) by (intros ->; exact (no_self H)).
      destruct (proj2 I (or_intror eq_refl)) as (x0 & Hx0 & Px).
      assert (N0 : x0 <> q) by (intros ->; exact (no_self Hx0)).
      assert (N1 : x0 <> y).
      { intros ->. apply (AC (T q)). eapply t_trans; [apply t_step; eapply vs_tb; eauto|].
        pose proof (vs_edge g q y H) as S1. rewrite botq in S1.
        pose proof (vs_edge g y q Hx0) as S2. rewrite topq in S2.
        eapply t_trans; [apply t_step, S1|]. eapply clos_rt_t; [|apply t_step, S2].
        apply top_bot, in_node. apply (cedge_nodes _ _ _ H). }
      apply mkE_ext; [apply ext_top, Ny|]. eapply rt_step_r; [exact Px|].
      apply vs_edge, E. right; right; right; right. auto 10.
    + pose proof (proj1 I (ext_bot x Nx)) as Pu. destruct (Nat.eq_dec y q) as [->|Ny].
      * rewrite topq. apply (mkE_q u _ x); auto.
      * apply mkE_ext; [apply ext_top, Ny|]. eapply rt_step_r; [exact Pu|].
        apply vs_edge, E. left. auto.
  - destruct (Nat.eq_dec q' q) as [->|Nq'].
    + destruct (proj2 I (or_introl eq_refl)) as (x0 & Hx0 & Px). apply (mkE_q u _ x0); auto.
    + pose proof (proj1 I (ext_T q' Nq')) as Pu. apply mkE_ext; [apply ext_B, Nq'|].
      eapply rt_step_r; [exact Pu|]. eapply vs_tb; [apply ins2; eauto|eauto].
  - destruct (SIDE q' s (ins_g _ Hi) Hs x Hx).
  - destruct (SIDE q' s (ins_g _ Hi) Hs x Hx).
  - destruct (SIDE q' s (ins_g _ Hi) Hs x (proj1 (cedge_nodes _ _ _ H))).
Qed.

Lemma simE u v : tc g u v -> ext u -> InvE u v.
Proof.
  intros H Hu. apply clos_trans_tn1 in H. induction H as [w S|w x S _ IH].
  - eapply stepE; [|exact S]. apply mkE_ext; [exact Hu|apply rt_refl].
  - eapply stepE; eauto.
Qed.

Lemma dirB_E a b : tc g (P a) (P b) -> tc g' (P a) (P b).
Proof.
  intros H. pose proof (simE _ _ H (ext_P a)) as I.
  destruct (rt_or_t _ _ _ (proj1 I (ext_P b))) as [Eq|Ht]; [|exact Ht].
  exfalso. rewrite Eq in H. exact (AC _ H).
Qed.
End Empty.

Lemma graft_math :
  (exists x, cnode sub x) \/
  (forall k s', cnode g k -> subs k = Some s' -> forall x, ~ cnode s' x) ->
  (forall k, cnode g' k <-> (cnode g k /\ k <> q) \/ cnode sub k) /\
  (forall k, subs k = None -> (inside g' k <-> inside g k)) /\
  vacyclic g' /\
  (forall a b, tc g' (P a) (P b) <-> tc g (P a) (P b)).
Proof.
  intros SD. split; [exact N'|]. split; [|split; [exact AC'|]].
  - intros k Hk. split; [apply ins1|]. intros H. apply ins2; [exact H|]. congruence.
  - intros a b. split; [apply dirA|]. destruct SD as [NE|SD].
    + now apply dirB_N.
    + apply dirB_E; [|exact SD]. exact (SD q sub Cq Hq).
Qed.
End Graft.

(* ---------- well-founded nesting ---------- *)
Variable rank : key -> nat.
Hypothesis subs_ok : forall k s, subs k = Some s -> g_ok s.
Hypothesis rank_ok : forall k s x, subs k = Some s -> cnode s x -> subs x <> None -> rank x < rank k.

Definition side (g : cgraph) (sub : cgraph) : Prop :=
  (exists x, cnode sub x) \/
  (forall k s', cnode g k -> subs k = Some s' -> forall x, ~ cnode s' x).

Lemma graft_step g q sub : g_ok g -> subs q = Some sub -> cnode g q -> vacyclic g -> side g sub ->
  exists g', graft g q sub = Ok g' /\ g_ok g' /\
    (forall k, cnode g' k <-> (cnode g k /\ k <> q) \/ cnode sub k) /\
    (forall k, subs k = None -> (inside g' k <-> inside g k)) /\
    vacyclic g' /\
    (forall a b, tc g' (P a) (P b) <-> tc g (P a) (P b)).
Proof.
  intros OK Hq Cq AC SD. pose proof (graft_ok g q sub OK (subs_ok _ _ Hq)) as G.
  destruct (graft g q sub) as [g'|c]; [|destruct G as [_ G]; destruct (G Cq)].
  destruct G as (_ & OK' & N & E). exists g'. split; [reflexivity|]. split; [exact OK'|].
  apply (graft_math g g' sub q Hq Cq AC); auto.
  - intros H. apply (Nat.lt_irrefl (rank q)). eapply rank_ok; eauto. congruence.
  - eapply subs_ok; eauto.
Qed.

(* ---------- one pass of the flatten loop ---------- *)
Definition gr (c : cgraph) (n : key) : res cgraph :=
  match subs n with Some sub => graft c n sub | None => Raise EValue end.

(* what the loop keeps, relative to the graph [g] it started from *)
Definition Iv (g c : cgraph) : Prop :=
  g_ok c /\ (forall k, subs k = None -> (inside c k <-> inside g k)) /\ vacyclic c /\
  (forall a b, tc c (P a) (P b) <-> tc g (P a) (P b)).

Lemma pass g l : forall c, Iv g c -> NoDup l ->
  (forall n, In n l -> cnode c n /\ subs n <> None) ->
  ((forall n s, In n l -> subs n = Some s -> exists x, cnode s x) \/
   (forall k s', cnode c k -> subs k = Some s' -> forall x, ~ cnode s' x)) ->
  exists c', foldM gr l c = Ok c' /\ Iv g c' /\
    (forall k, cnode c' k ->
       (cnode c k /\ ~ In k l) \/ exists n s, In n l /\ subs n = Some s /\ cnode s k).
Proof.
  induction l as [|n r IH]; intros c I ND HL SD.
  - exists c. cbn. split; [reflexivity|]. split; [exact I|]. intros k Hk. left. auto.
  - destruct (HL n (or_introl eq_refl)) as [Cn Sn].
    destruct (subs n) as [s|] eqn:Hs; [clear Sn|congruence].
    destruct I as (OK & I1 & AC & I2).
    destruct (graft_step c n s OK Hs Cn AC) as (c1 & G & OK1 & N1 & J1 & AC1 & J2).
    { destruct SD as [SD|SD]; [left; eapply SD; eauto; now left|right; exact SD]. }
    inversion ND as [|? ? Hnr NDr]; subst.
    destruct (IH c1) as (c' & F & I' & HN).
    + split; [exact OK1|]. split; [|split; [exact AC1|]].
      * intros k Hk. rewrite (J1 k Hk). apply I1, Hk.
      * intros a b. rewrite J2. apply I2.
    + exact NDr.
    + intros m Hm. split; [|apply HL; now right]. apply N1. left.
      split; [apply HL; now right|]. intros ->. exact (Hnr Hm).
    + destruct SD as [SD|SD]; [left; intros m s' Hm; apply SD; now right|]. right.
      intros k s' Hk Hs' x. apply N1 in Hk. destruct Hk as [[Hk _]|Hk]; [exact (SD k s' Hk Hs' x)|].
      destruct (SD n s Cn Hs k Hk).
    + exists c'. split; [cbn [foldM]; unfold gr at 1; rewrite Hs, G; exact F|].
      split; [exact I'|]. intros k Hk.
      destruct (HN k Hk) as [[H1 H2]|(m & s' & Hm & Hs' & Hx)].
      * apply N1 in H1. destruct H1 as [[H1 H3]|H1].
        -- left. split; [exact H1|]. intros [->|H4]; auto.
        -- right. exists n, s. split; [now left|]. auto.
      * right. exists m, s'. split; [now right|auto].
Qed.

(* ---------- the loop ---------- *)
Definition nestedb (n : key) : bool := match subs n with Some _ => true | None => false end.
Definition neb (n : key) : bool :=
  match subs n with Some sub => negb (glen sub =? 0) | None => false end.
Definition emb (n : key) : bool :=
  match subs n with Some sub => glen sub =? 0 | None => false end.

Lemma flatten_S f c : flatten (S f) subs true c =
  match filter nestedb (seq (nodes c)) with
  | [] => Ok c
  | ns => bind (foldM gr (match filter neb ns with
                          | _ :: _ => filter neb ns
                          | [] => filter emb ns
                          end) c) (flatten f subs true)
  end.
Proof. reflexivity. Qed.

Lemma glen0 s : (glen s =? 0) = true -> forall x, ~ cnode s x.
Proof. unfold glen, cnode. destruct (seq (nodes s)); cbn; [auto|discriminate]. Qed.
Lemma glenS s : (glen s =? 0) = false -> exists x, cnode s x.
Proof. unfold glen, cnode. destruct (seq (nodes s)) as [|k l]; cbn; [discriminate|]. exists k. now left. Qed.

Lemma filter_nil {A} (f : A -> bool) l : filter f l = [] -> forall x, In x l -> f x = false.
Proof.
  intros H x Hx. destruct (f x) eqn:Ex; [|reflexivity].
  assert (H0 : In x (filter f l)) by (apply filter_In; auto). rewrite H in H0. destruct H0.
Qed.
Lemma nil_filter {A} (f : A -> bool) l : (forall x, In x l -> f x = false) -> filter f l = [].
Proof.
  induction l as [|a l IH]; cbn; intros H; [reflexivity|]. rewrite H by now left.
  apply IH. intros; apply H; now right.
Qed.

(* the non-empty nested nodes of c have rank < n *)
Definition rk_lt (c : cgraph) (n : nat) : Prop :=
  forall k s x, cnode c k -> subs k = Some s -> cnode s x -> rank k < n.

Lemma flat_loop g : forall fuel n c, Iv g c -> rk_lt c n -> n + 2 <= fuel ->
  exists g', flatten fuel subs true c = Ok g' /\ Iv g g' /\ (forall k, cnode g' k -> subs k = None).
Proof.
  induction fuel as [|f IH]; intros n c I RK HF; [lia|].
  rewrite flatten_S. destruct (filter nestedb (seq (nodes c))) as [|k0 ns0] eqn:Ens.
  - exists c. split; [reflexivity|]. split; [exact I|]. intros k Hk.
    pose proof (filter_nil _ _ Ens k Hk) as H. unfold nestedb in H.
    destruct (subs k); [discriminate|reflexivity].
  - rewrite <- Ens. clear Ens k0 ns0. cbv zeta. set (ns := filter nestedb (seq (nodes c))).
    assert (ND : NoDup (seq (nodes c))) by (destruct I as (((ND & _) & _) & _); exact ND).
    assert (Hns : forall k, In k ns <-> cnode c k /\ subs k <> None).
    { intros k. unfold ns. rewrite filter_In. unfold nestedb, cnode.
      destruct (subs k); split; intros [? ?]; split; auto; congruence. }
    destruct (filter neb ns) as [|k1 ne0] eqn:Ene.
    + (* only empty sub-graphs are left *)
      assert (EMP : forall k s', cnode c k -> subs k = Some s' -> forall x, ~ cnode s' x).
      { intros k s' Hk Hs'. assert (Hin : In k ns) by (apply Hns; split; [auto|congruence]).
        pose proof (filter_nil _ _ Ene k Hin) as H. unfold neb in H. rewrite Hs' in H.
        apply negb_false_iff in H. now apply glen0. }
      destruct (pass g (filter emb ns) c I) as (c' & F & I' & HN).
      * apply NoDup_filter, NoDup_filter, ND.
      * intros m Hm. apply filter_In in Hm. apply Hns, Hm.
      * right. exact EMP.
      * rewrite F. cbn [bind]. destruct f as [|f']; [lia|]. rewrite flatten_S.
        assert (PL : forall k, cnode c' k -> subs k = None).
        { intros k Hk. destruct (HN k Hk) as [[H1 H2]|(m & s' & Hm & Hs' & Hx)].
          - destruct (subs k) as [s'|] eqn:Hs'; [|reflexivity]. exfalso. apply H2.
            apply filter_In. split; [apply Hns; split; [auto|congruence]|].
            unfold emb. rewrite Hs'. destruct (glen s' =? 0) eqn:G0; [reflexivity|].
            destruct (glenS _ G0) as [x Hx]. destruct (EMP k s' H1 Hs' x Hx).
          - exfalso. apply filter_In in Hm. destruct Hm as [Hm1 Hm2]. apply Hns in Hm1.
            exact (EMP m s' (proj1 Hm1) Hs' k Hx). }
        rewrite (nil_filter nestedb); [exists c'; auto|].
        intros k Hk. unfold nestedb. now rewrite (PL k Hk).
    + (* the non-empty sub-graphs are grafted *)
      rewrite <- Ene. set (todo := filter neb ns).
      assert (Htodo : forall m, In m todo <->
                cnode c m /\ exists s, subs m = Some s /\ exists x, cnode s x).
      { intros m. unfold todo. rewrite filter_In, Hns. unfold neb. split.
        - intros [[H1 H2] H3]. split; [auto|]. destruct (subs m) as [s|]; [|discriminate].
          exists s. split; [reflexivity|]. apply glenS. now apply negb_true_iff.
        - intros [H1 (s & Hs & x & Hx)]. rewrite Hs. split; [split; [auto|congruence]|].
          apply negb_true_iff. destruct (glen s =? 0) eqn:G0; [|reflexivity].
          destruct (glen0 _ G0 x Hx). }
      destruct n as [|n].
      { exfalso. assert (H : In k1 todo) by (unfold todo; rewrite Ene; now left).
        apply Htodo in H. destruct H as [H1 (s & Hs & x & Hx)].
        pose proof (RK k1 s x H1 Hs Hx). lia. }
      destruct (pass g todo c I) as (c' & F & I' & HN).
      * apply NoDup_filter, NoDup_filter, ND.
      * intros m Hm. apply Htodo in Hm. destruct Hm as [H1 (s & Hs & _)]. split; [auto|congruence].
      * left. intros m s Hm Hs. apply Htodo in Hm. destruct Hm as [_ (s' & Hs' & Hx)].
        assert (s' = s) by congruence. subst s'. exact Hx.
      * rewrite F. cbn [bind]. apply (IH n c' I'); [|lia].
        intros k s x Hk Hs Hx. destruct (HN k Hk) as [[H1 H2]|(m & s' & Hm & Hs' & Hk')].
        -- exfalso. apply H2, Htodo. eauto.
        -- apply Htodo in Hm. destruct Hm as [Hm _]. pose proof (RK m s' k Hm Hs' Hk').
           assert (rank k < rank m) by (eapply rank_ok; eauto; congruence). lia.
Qed.

(* ---------- a graph without nested node ---------- *)
Section Plain.
Variable c : cgraph.
Hypothesis PL : forall k, cnode c k -> subs k = None.

Lemma plain_inside k : inside c k -> cnode c k.
Proof.
  induction 1 as [k H|q0 s k _ IH Hs Hk]; [exact H|]. rewrite (PL _ IH) in Hs. discriminate.
Qed.

Lemma plain_vstep u v : vstep c u v -> exists x y, u = P x /\ v = P y /\ cedge c x y.
Proof.
  destruct 1 as [x y H|q' s Hi Hs|q' s x Hi Hs Hx|q' s x Hi Hs Hx|q' s x y Hi Hs H];
    try (rewrite (PL _ (plain_inside _ Hi)) in Hs; discriminate).
  destruct (cedge_nodes _ _ _ H) as [Hx Hy]. exists x, y.
  rewrite (bot_none _ (PL _ Hx)), (top_none _ (PL _ Hy)). auto.
Qed.

Lemma plain_tc u v : tc c u v ->
  exists x y, u = P x /\ v = P y /\ clos_trans key (cedge c) x y.
Proof.
  induction 1 as [u v H|u v w _ (x & y & -> & -> & H1) _ (y' & z & Ey & -> & H2)].
  - destruct (plain_vstep _ _ H) as (x & y & -> & -> & H1). exists x, y. auto using t_step.
  - injection Ey as <-. exists x, z. split; [reflexivity|]. split; [reflexivity|].
    eapply t_trans; eauto.
Qed.

Lemma plain_tc' a b : clos_trans key (cedge c) a b -> tc c (P a) (P b).
Proof.
  induction 1 as [a b H|a b d _ IH1 _ IH2]; [|eapply t_trans; eauto].
  destruct (cedge_nodes _ _ _ H) as [Ha Hb]. apply t_step.
  pose proof (vs_edge c a b H) as S. now rewrite (bot_none _ (PL _ Ha)), (top_none _ (PL _ Hb)) in S.
Qed.
End Plain.

Lemma flatten_order bound fuel g :
  g_ok g -> vacyclic g ->
  (forall k, inside g k -> subs k <> None -> rank k < bound) ->
  bound + 3 <= fuel ->
  exists g', flatten fuel subs true g = Ok g' /\ g_ok g' /\
    (forall k, cnode g' k <-> inside g k /\ subs k = None) /\
    (forall a b, subs a = None -> subs b = None ->
       (clos_trans key (cedge g') a b <-> tc g (P a) (P b))).
Proof.
  intros OK AC BD HF.
  destruct (flat_loop g fuel bound g) as (g' & F & (OK' & I1 & AC' & I2) & PL).
  - split; [exact OK|]. split; [tauto|]. split; [exact AC|tauto].
  - intros k s x Hk Hs Hx. apply BD; [now apply in_node|congruence].
  - lia.
  - exists g'. split; [exact F|]. split; [exact OK'|]. split.
    + intros k. split.
      * intros Hk. split; [|now apply PL]. apply I1; [now apply PL|now apply in_node].
      * intros [Hk Hs]. apply plain_inside; [exact PL|]. now apply I1.
    + intros a b _ _. rewrite <- I2. split; [now apply plain_tc'|].
      intros H. destruct (plain_tc g' PL _ _ H) as (x & y & [= <-] & [= <-] & H1). exact H1.
Qed.
End Flat.

(* ---------- the statements ---------- *)

(* One graft step.  [sub] is the graph the node [q] of [g] is.  Side condition (the flatten
   loop guarantees it): [sub] has a node, or every nested node of [g] is empty.
   (The last conjunct holds for all keys a b, in particular for plain ones; [graft_step]
   above also gives the node set of the result.) *)
Theorem graft_preserves_order :
  forall (subs : key -> option cgraph) (rank : key -> nat) (g : cgraph) (q : key) (sub : cgraph),
  g_ok g ->
  (forall k s, subs k = Some s -> g_ok s) ->
  (forall k s x, subs k = Some s -> cnode s x -> subs x <> None -> rank x < rank k) ->
  subs q = Some sub -> cnode g q ->
  (forall v, ~ clos_trans vnode (vstep subs g) v v) ->
  ((exists x, cnode sub x) \/
   (forall k s', cnode g k -> subs k = Some s' -> forall x, ~ cnode s' x)) ->
  exists g', graft g q sub = Ok g' /\ g_ok g' /\
    (forall k, subs k = None -> (inside subs g' k <-> inside subs g k)) /\
    (forall v, ~ clos_trans vnode (vstep subs g') v v) /\
    (forall a b, clos_trans vnode (vstep subs g') (P a) (P b) <->
                 clos_trans vnode (vstep subs g) (P a) (P b)).
Proof.
  intros subs rank g q sub OK SO RO Hq Cq AC SD.
  destruct (graft_step subs rank SO RO g q sub OK Hq Cq AC SD) as (g' & G & OK' & _ & H1 & H2 & H3).
  exists g'. auto.
Qed.

(* The recursive flatten.  [rank]/[bound]: a nested graph only contains nested graphs of
   smaller rank, and the nested nodes inside [g] have rank < bound. *)
Theorem flatten_preserves_order :
  forall (subs : key -> option cgraph) (rank : key -> nat) (bound fuel : nat) (g : cgraph),
  g_ok g ->
  (forall k s, subs k = Some s -> g_ok s) ->
  (forall k s x, subs k = Some s -> cnode s x -> subs x <> None -> rank x < rank k) ->
  (forall k, inside subs g k -> subs k <> None -> rank k < bound) ->
  (forall v, ~ clos_trans vnode (vstep subs g) v v) ->
  bound + 3 <= fuel ->
  exists g', flatten fuel subs true g = Ok g' /\ g_ok g' /\
    (forall k, cnode g' k <-> inside subs g k /\ subs k = None) /\
    (forall a b, subs a = None -> subs b = None ->
       (clos_trans key (cedge g') a b <-> clos_trans vnode (vstep subs g) (P a) (P b))).
Proof.
  intros subs rank bound fuel g OK SO RO BD AC HF.
  exact (flatten_order subs rank SO RO bound fuel g OK AC BD HF).
Qed.

(* the flattened graph is acyclic *)
Corollary flatten_acyclic :
  forall (subs : key -> option cgraph) (rank : key -> nat) (bound fuel : nat) (g g' : cgraph),
  g_ok g ->
  (forall k s, subs k = Some s -> g_ok s) ->
  (forall k s x, subs k = Some s -> cnode s x -> subs x <> None -> rank x < rank k) ->
  (forall k, inside subs g k -> subs k <> None -> rank k < bound) ->
  (forall v, ~ clos_trans vnode (vstep subs g) v v) ->
  bound + 3 <= fuel -> flatten fuel subs true g = Ok g' -> acyclic g'.
Proof.
  intros subs rank bound fuel g g' OK SO RO BD AC HF F.
  destruct (flatten_preserves_order subs rank bound fuel g OK SO RO BD AC HF)
    as (g2 & F2 & _ & HN & HR).
  assert (g2 = g') by congruence. subst g2. intros a Ha.
  assert (Hs : subs a = None).
  { assert (Hc : cnode g' a).
    { clear -Ha. induction Ha as [a b H|]; [apply (cedge_nodes _ _ _ H)|assumption]. }
    apply HN in Hc. apply Hc. }
  exact (AC _ (proj1 (HR a a Hs Hs) Ha)).
Qed.

(* the world operation r.flatten(recurse=True): the nested graphs are the registers *)
Corollary wflatten_preserves_order :
  forall (w : world) (r : nat) (g : cgraph) (rank : key -> nat) (bound : nat),
  nth_error w r = Some g -> g_ok g ->
  (forall k s, sub_of w k = Some s -> g_ok s) ->
  (forall k s x, sub_of w k = Some s -> cnode s x -> sub_of w x <> None -> rank x < rank k) ->
  (forall k, inside (sub_of w) g k -> sub_of w k <> None -> rank k < bound) ->
  (forall v, ~ clos_trans vnode (vstep (sub_of w) g) v v) ->
  bound + 3 <= length w + length w ->
  exists g', wstep w (WFlatten r true) = Ok (set_nth r g' w) /\ g_ok g' /\
    (forall k, cnode g' k <-> inside (sub_of w) g k /\ sub_of w k = None) /\
    (forall a b, sub_of w a = None -> sub_of w b = None ->
       (clos_trans key (cedge g') a b <->
        clos_trans vnode (vstep (sub_of w) g) (P a) (P b))).
Proof.
  intros w r g rank bound Hr OK SO RO BD AC HF.
  destruct (flatten_preserves_order (sub_of w) rank bound _ g OK SO RO BD AC HF)
    as (g' & F & OK' & HN & HR).
  exists g'. split; [|auto]. unfold wstep, wget. rewrite Hr. cbn [bind]. now rewrite F.
Qed.

(* ---------- the hypotheses can be met: a level function proves [vstep] acyclic ---------- *)
Lemma vacyclic_of_level subs g (lvl : vnode -> nat) :
  (forall u v, vstep subs g u v -> lvl v < lvl u) ->
  forall v, ~ clos_trans vnode (vstep subs g) v v.
Proof.
  intros L. assert (G : forall u v, clos_trans vnode (vstep subs g) u v -> lvl v < lvl u).
  { induction 1 as [u v H|u v w _ IH1 _ IH2]; [now apply L|lia]. }
  intros v H. apply G in H. lia.
Qed.

(* graphs built from an edge list *)
Lemma build_ok es : forall g0, g_ok g0 ->
  exists g, foldM (fun g e => add_dependency g (fst e) (snd e)) es g0 = Ok g /\ g_ok g /\
    (forall k, cnode g k <-> cnode g0 k \/ In k (flat_map (fun e => [fst e; snd e]) es)) /\
    (forall x y, cedge g x y <-> cedge g0 x y \/ In (x, y) es).
Proof.
  induction es as [|[a b] r IH]; intros g0 OK.
  - exists g0. cbn. split; [reflexivity|]. split; [exact OK|]. split; intros; tauto.
  - destruct (add_dependency_ok g0 a b OK) as (g1 & A & OK1 & N1 & E1).
    destruct (IH g1 OK1) as (g & F & OKg & Ng & Eg).
    exists g. cbn [foldM fst snd]. rewrite A. cbn [bind]. split; [exact F|]. split; [exact OKg|].
    split.
    + intros k. rewrite Ng, N1. cbn. intuition congruence.
    + intros x y. rewrite Eg, E1. cbn. split.
      * intros [[H|[-> ->]]|H]; auto.
      * intros [H|[[= -> ->]|H]]; auto.
Qed.

(* A world with sharing: register 0 holds {0 -> g1, 0 -> g2, g1 -> 8}, register 1 holds
   g1 = {2 -> g2}, register 2 holds g2 = {4 -> 6}; g2 (key 5) is a node of register 0 and
   of g1.  All the hypotheses of [wflatten_preserves_order] hold (bound 2, 3 registers). *)
Example nv_flatten_sharing : exists (w : world) (g : cgraph) (rank : key -> nat),
  length w = 3 /\ nth_error w 0 = Some g /\ g_ok g /\
  (forall k s, sub_of w k = Some s -> g_ok s) /\
  (forall k s x, sub_of w k = Some s -> cnode s x -> sub_of w x <> None -> rank x < rank k) /\
  (forall k, inside (sub_of w) g k -> sub_of w k <> None -> rank k < 2) /\
  (forall v, ~ clos_trans vnode (vstep (sub_of w) g) v v) /\
  (exists s, sub_of w 3 = Some s /\ cnode g 3 /\ cnode g 5 /\ cnode s 5 /\ sub_of w 5 <> None) /\
  (forall k, inside (sub_of w) g k /\ sub_of w k = None <-> In k [0; 8; 2; 4; 6]).
Proof.
  destruct (build_ok [(0, 3); (0, 5); (3, 8)] g_empty g_empty_ok) as (g0 & _ & OK0 & N0 & E0).
  destruct (build_ok [(2, 5)] g_empty g_empty_ok) as (g1 & _ & OK1 & N1 & E1).
  destruct (build_ok [(4, 6)] g_empty g_empty_ok) as (g2 & _ & OK2 & N2 & E2).
  destruct g_empty_abs as [NE EE].
  assert (N0' : forall k, cnode g0 k <-> In k [0; 3; 5; 8]).
  { intros k. rewrite N0. cbn. pose proof (NE k). tauto. }
  assert (N1' : forall k, cnode g1 k <-> In k [2; 5]).
  { intros k. rewrite N1. cbn. pose proof (NE k). tauto. }
  assert (N2' : forall k, cnode g2 k <-> In k [4; 6]).
  { intros k. rewrite N2. cbn. pose proof (NE k). tauto. }
  assert (E0' : forall x y, cedge g0 x y <-> In (x, y) [(0, 3); (0, 5); (3, 8)]).
  { intros x y. rewrite E0. pose proof (EE x y). tauto. }
  assert (E1' : forall x y, cedge g1 x y <-> In (x, y) [(2, 5)]).
  { intros x y. rewrite E1. pose proof (EE x y). tauto. }
  assert (E2' : forall x y, cedge g2 x y <-> In (x, y) [(4, 6)]).
  { intros x y. rewrite E2. pose proof (EE x y). tauto. }
  clear N0 N1 N2 E0 E1 E2.
  set (w := [g0; g1; g2]).
  assert (SUB : forall k s, sub_of w k = Some s ->
            (k = 1 /\ s = g0) \/ (k = 3 /\ s = g1) \/ (k = 5 /\ s = g2)).
  { intros k s. do 6 (destruct k as [|k]; [cbn; intros [= <-] || discriminate; auto|]).
    unfold sub_of. destruct (Nat.odd _); [|discriminate]. cbn. destruct (Nat.div2 k); discriminate. }
  assert (INS : forall k, inside (sub_of w) g0 k -> In k [0; 3; 5; 8; 2; 4; 6]).
  { induction 1 as [k H|q s k _ IH Hs Hk].
    - apply N0' in H. cbn in *. tauto.
    - destruct (SUB _ _ Hs) as [[-> ->]|[[-> ->]|[-> ->]]].
      + cbn in IH. intuition discriminate.
      + apply N1' in Hk. cbn in *. tauto.
      + apply N2' in Hk. cbn in *. tauto. }
  exists w, g0, (fun k => match k with 1 => 2 | 3 => 1 | _ => 0 end).
  split; [reflexivity|]. split; [reflexivity|]. split; [exact OK0|]. split; [|split; [|split; [|split; [|split]]]].
  - intros k s H. destruct (SUB _ _ H) as [[-> ->]|[[-> ->]|[-> ->]]]; assumption.
  - intros k s x H Hx Hn. destruct (SUB _ _ H) as [[-> ->]|[[-> ->]|[-> ->]]].
    + apply N0' in Hx. cbn in Hx. destruct Hx as [<-|[<-|[<-|[<-|[]]]]]; cbn in *; try lia; congruence.
    + apply N1' in Hx. cbn in Hx. destruct Hx as [<-|[<-|[]]]; cbn in *; try lia; congruence.
    + apply N2' in Hx. cbn in Hx. destruct Hx as [<-|[<-|[]]]; cbn in *; try lia; congruence.
  - intros k H Hn. apply INS in H. cbn in H.
    destruct H as [<-|[<-|[<-|[<-|[<-|[<-|[<-|[]]]]]]]]; cbn in *; try lia; congruence.
  - apply (vacyclic_of_level _ _ (fun v => match v with
        | P 0 => 8 | T 3 => 7 | P 2 => 6 | T 5 => 5 | P 4 => 4 | P 6 => 3 | B 5 => 2 | B 3 => 1
        | _ => 0 end)).
    intros u v S.
    destruct S as [x y H|q' s Hi Hs|q' s x Hi Hs Hx|q' s x Hi Hs Hx|q' s x y Hi Hs H].
    + apply E0' in H. cbn in H. destruct H as [[= <- <-]|[[= <- <-]|[[= <- <-]|[]]]]; cbn; lia.
    + apply INS in Hi. destruct (SUB _ _ Hs) as [[-> ->]|[[-> ->]|[-> ->]]]; cbn in *; lia.
    + apply INS in Hi. destruct (SUB _ _ Hs) as [[-> ->]|[[-> ->]|[-> ->]]].
      * cbn in Hi. intuition discriminate.
      * apply N1' in Hx. cbn in Hx. destruct Hx as [<-|[<-|[]]]; cbn; lia.
      * apply N2' in Hx. cbn in Hx. destruct Hx as [<-|[<-|[]]]; cbn; lia.
    + apply INS in Hi. destruct (SUB _ _ Hs) as [[-> ->]|[[-> ->]|[-> ->]]].
      * cbn in Hi. intuition discriminate.
      * apply N1' in Hx. cbn in Hx. destruct Hx as [<-|[<-|[]]]; cbn; lia.
      * apply N2' in Hx. cbn in Hx. destruct Hx as [<-|[<-|[]]]; cbn; lia.
    + apply INS in Hi. destruct (SUB _ _ Hs) as [[-> ->]|[[-> ->]|[-> ->]]].
      * cbn in Hi. intuition discriminate.
      * apply E1' in H. cbn in H. destruct H as [[= <- <-]|[]]; cbn; lia.
      * apply E2' in H. cbn in H. destruct H as [[= <- <-]|[]]; cbn; lia.
  - exists g1. split; [reflexivity|]. rewrite !N0', N1'. cbn. repeat split; auto. discriminate.
  - intros k. split.
    + intros [H Hn]. apply INS in H. cbn in *.
      destruct H as [<-|[<-|[<-|[<-|[<-|[<-|[<-|[]]]]]]]]; auto 10; discriminate.
    + assert (I3 : inside (sub_of w) g0 3) by (apply in_node, N0'; cbn; auto).
      assert (I5 : inside (sub_of w) g0 5) by (apply in_node, N0'; cbn; auto).
      cbn. intros [<-|[<-|[<-|[<-|[<-|[]]]]]]; (split; [|reflexivity]).
      * apply in_node, N0'. cbn. auto.
      * apply in_node, N0'. cbn. auto.
      * apply (in_sub _ _ 3 g1); [exact I3|reflexivity|apply N1'; cbn; auto].
      * apply (in_sub _ _ 5 g2); [exact I5|reflexivity|apply N2'; cbn; auto].
      * apply (in_sub _ _ 5 g2); [exact I5|reflexivity|apply N2'; cbn; auto].
Qed.

(* ... and the theorem applies to it: the flatten succeeds and leaves the five plain nodes *)
Example nv_flatten_sharing_result : exists (w : world) (g' : cgraph),
  wstep w (WFlatten 0 true) = Ok (set_nth 0 g' w) /\ g_ok g' /\
  (forall k, cnode g' k <-> In k [0; 8; 2; 4; 6]).
Proof.
  destruct nv_flatten_sharing as (w & g & rank & L & Hr & OK & SO & RO & BD & AC & _ & HN).
  destruct (wflatten_preserves_order w 0 g rank 2 Hr OK SO RO BD AC) as (g' & W & OK' & HN' & _);
    [rewrite L; cbn; lia|].
  exists w, g'. split; [exact W|]. split; [exact OK'|].
  intros k. rewrite HN'. apply HN.
Qed.

(* C16 — transitive_closure and transitive_reduction of the model are correct on
   every acyclic graph that satisfies the representation invariant (unbounded:
   induction on the fuel, on the adjacency lists and on the positions; no
   computation).

   Plan.  All the graph theory is done on POSITIONS: [pedge g i j] says that
   [j] is in the adjacency set of position [i].
   1. finite acyclic relations: every descending chain of a transitive
      irreflexive relation on 0..n-1 has fewer than n steps ([fin_bnd], a
      pigeonhole on the current path), hence the fuel [glen g + 1] of
      [tr_visit] is enough and the relation is well-founded;
   2. [tr_visit] returns exactly the kept nodes reachable in >= 1 step;
   3. one round of the outer loop replaces the adjacency set of position [i]
      by { d | i ->+ d } (closure) or by { d | i -> d, no j with i -> j ->+ d }
      (reduction); both keep the reachability relation;
   4. the loop invariants, then the transfer from positions to keys
      (under [g_ok] position -> key is a bijection). *)
From Coq Require Import List Arith Bool PeanoNat Lia Relations.
From VV Require Import Lib.Base C16.Model C16.Inv C16.ProofsR C16.ProofsG.
Import ListNotations.

(* ---------- 1. relations on a finite set of naturals ---------- *)
Lemma ct_first (R : nat -> nat -> Prop) x y :
  clos_trans nat R x y <-> exists j, R x j /\ (j = y \/ clos_trans nat R j y).
Proof.
  split.
  - intros H. apply clos_trans_t1n in H. destruct H as [y H | j y H1 H2].
    + exists y; auto.
    + exists j. split; auto. right. apply clos_t1n_trans; auto.
  - intros (j & H1 & [-> | H2]).
    + now apply t_step.
    + eapply t_trans; [apply t_step; eauto | auto].
Qed.

Lemma ct_mono (R R' : nat -> nat -> Prop) :
  (forall a b, R a b -> R' a b) -> forall a b, clos_trans nat R a b -> clos_trans nat R' a b.
Proof.
  intros H a b. induction 1 as [a b E | a c b _ IH1 _ IH2]; [apply t_step; auto | eapply t_trans; eauto].
Qed.

(* [bnd T f d]: every T-descending chain from [d] has fewer than [f] steps *)
Inductive bnd (T : nat -> nat -> Prop) : nat -> nat -> Prop :=
| bnd_intro f d : (forall a, T a d -> bnd T f a) -> bnd T (S f) d.

Lemma bnd_mono (T T' : nat -> nat -> Prop) :
  (forall a b, T' a b -> T a b) -> forall f d, bnd T f d -> bnd T' f d.
Proof. intros H f d B. induction B as [f d _ IH]. constructor. intros a Ha. apply IH, H, Ha. Qed.

Lemma bnd_Acc T f d : bnd T f d -> Acc T d.
Proof. induction 1 as [f d _ IH]. constructor. exact IH. Qed.

Lemma fin_bnd (T : nat -> nat -> Prop) n :
  (forall a b, T a b -> a < n) -> (forall a b c, T a b -> T b c -> T a c) -> (forall a, ~ T a a) ->
  forall f vis d, NoDup vis -> (forall a, In a vis -> a < n) -> (forall a, In a vis -> T d a) -> d < n ->
    n <= length vis + f -> bnd T f d.
Proof.
  intros FLD TR IRR. induction f as [|f IH]; intros vis d ND LT RCH Ld LEN.
  - exfalso.
    assert (H : NoDup (d :: vis)). { constructor; auto. intros H. apply (IRR d). auto. }
    assert (H0 : incl (d :: vis) (List.seq 0 n)).
    { intros a [<-|Ha]; apply in_seq; [lia|]. specialize (LT _ Ha). lia. }
    pose proof (NoDup_incl_length H H0) as H1. rewrite seq_length in H1. cbn in H1. lia.
  - constructor. intros a Ha. apply (IH (d :: vis)).
    + constructor; auto. intros H. apply (IRR d); auto.
    + intros b [<-|Hb]; auto.
    + intros b [<-|Hb]; eauto.
    + eapply FLD; eauto.
    + cbn. lia.
Qed.

Lemma fin_wf (T : nat -> nat -> Prop) n :
  (forall a b, T a b -> a < n) -> (forall a b c, T a b -> T b c -> T a c) -> (forall a, ~ T a a) ->
  well_founded T.
Proof.
  intros FLD TR IRR d. constructor. intros a Ha. apply (bnd_Acc T n).
  apply (fin_bnd T n FLD TR IRR n [] a); cbn; try tauto; [constructor|eapply FLD; eauto|lia].
Qed.

(* one round of the closure: the successors of [i] become everything reachable from [i] *)
Lemma closure_step_ct (R R' : nat -> nat -> Prop) i :
  (forall x y, R' x y <-> (x <> i /\ R x y) \/ (x = i /\ clos_trans nat R i y)) ->
  forall x y, clos_trans nat R' x y <-> clos_trans nat R x y.
Proof.
  intros H x y. split.
  - induction 1 as [x y E | x z y _ IH1 _ IH2]; [|eapply t_trans; eauto].
    apply H in E. destruct E as [[_ E]|[-> E]]; [now apply t_step | exact E].
  - apply ct_mono. clear x y. intros x y E. apply H.
    destruct (Nat.eq_dec x i) as [->|N]; [right; split; auto; now apply t_step | left; auto].
Qed.

(* one round of the reduction: the successors of [i] that are reachable through
   another successor are dropped (all at once); reachability does not change *)
Lemma reduction_step_ct (R R' : nat -> nat -> Prop) n i :
  (forall a b, R a b -> a < n) -> (forall a, ~ clos_trans nat R a a) ->
  (forall y, R i y -> (exists j, R i j /\ clos_trans nat R j y) \/ ~ (exists j, R i j /\ clos_trans nat R j y)) ->
  (forall x y, R' x y <-> (x <> i /\ R x y) \/
                          (x = i /\ R i y /\ ~ exists j, R i j /\ clos_trans nat R j y)) ->
  forall x y, clos_trans nat R' x y <-> clos_trans nat R x y.
Proof.
  intros FLD AC DEC H x y. split.
  - apply ct_mono. clear x y. intros x y E. apply H in E. destruct E as [[_ E]|(-> & E & _)]; exact E.
  - (* a path that never meets [i] is kept *)
    assert (AV : forall j y, clos_trans nat R j y -> j <> i -> ~ clos_trans nat R j i ->
                             clos_trans nat R' j y).
    { intros j y0 P. apply clos_trans_t1n in P. induction P as [j y0 E | j z y0 E P IH]; intros Nj NR.
      - apply t_step, H. left. auto.
      - eapply t_trans; [apply t_step, H; left; split; [exact Nj|exact E]|]. apply IH.
        + intros ->. apply NR. now apply t_step.
        + intros P'. apply NR. eapply t_trans; [apply t_step; exact E|exact P']. }
    assert (WF : well_founded (clos_trans nat R)).
    { apply (fin_wf _ n); [|intros; eapply t_trans; eauto|exact AC].
      intros a b P. apply ct_first in P. destruct P as (j & E & _). eapply FLD, E. }
    assert (ED : forall y, R i y -> clos_trans nat R' i y).
    { intros y0. induction (WF y0) as [y0 _ IH]. intros E.
      destruct (DEC y0 E) as [(j & E1 & P)|N].
      - eapply t_trans; [apply (IH j P E1)|]. apply AV; [exact P| |].
        + intros ->. apply (AC i). now apply t_step.
        + intros P'. apply (AC i). eapply t_trans; [apply t_step; exact E1|exact P'].
      - apply t_step, H. right. auto. }
    induction 1 as [x y E | x z y _ IH1 _ IH2]; [|eapply t_trans; eauto].
    destruct (Nat.eq_dec x i) as [->|N]; [now apply ED | apply t_step, H; left; auto].
Qed.

(* ---------- monadic folds ---------- *)
Lemma bind_ok {A B} (x : res A) (f : A -> res B) a : x = Ok a -> bind x f = f a.
Proof. intros ->. reflexivity. Qed.

Lemma foldM_seq_inv {A} (f : A -> nat -> res A) (I : nat -> A -> Prop) n :
  (forall k a, k < n -> I k a -> exists a', f a k = Ok a' /\ I (S k) a') ->
  forall a, I 0 a -> exists a', foldM f (List.seq 0 n) a = Ok a' /\ I n a'.
Proof.
  intros STEP.
  assert (G : forall m s a, s + m = n -> I s a -> exists a', foldM f (List.seq s m) a = Ok a' /\ I n a').
  { induction m as [|m IH]; intros s a E Ha; cbn [List.seq foldM].
    - exists a. split; [reflexivity|]. replace n with s by lia. exact Ha.
    - destruct (STEP s a) as (a1 & E1 & H1); [lia|exact Ha|]. rewrite E1. cbn [bind].
      apply IH; [lia|exact H1]. }
  intros a Ha. apply G; [lia|exact Ha].
Qed.

Lemma NoDup_sadd x l : NoDup l -> NoDup (sadd x l).
Proof.
  intros ND. unfold sadd. destruct (mem x l) eqn:E; [exact ND|].
  apply NoDup_app_snoc; [exact ND|now apply mem_false].
Qed.

Lemma NoDup_sunion a b : NoDup a -> NoDup (sunion a b).
Proof.
  unfold sunion. revert a. induction b as [|x r IH]; intros a ND; cbn; [exact ND|].
  apply IH, NoDup_sadd, ND.
Qed.

(* the loop of [_visit] over the adjacency set of the current node *)
Lemma visit_fold (visit : nat -> res (list nat)) (keep : nat -> bool) (P : nat -> nat -> Prop) l :
  (forall dest, In dest l -> exists s, visit dest = Ok s /\ forall d, In d s <-> keep d = true /\ P dest d) ->
  forall acc, exists out,
    foldM (fun acc dest => let acc := if keep dest then sadd dest acc else acc in
                           do sub <- visit dest; Ok (sunion acc sub)) l acc = Ok out /\
    forall d, In d out <-> In d acc \/ exists dest, In dest l /\ keep d = true /\ (dest = d \/ P dest d).
Proof.
  induction l as [|x r IH]; intros HV acc; cbn [foldM].
  - exists acc. split; [reflexivity|]. intros d. split; [auto|intros [H|(? & [] & _)]; exact H].
  - destruct (HV x) as (s & Es & Hs); [now left|]. rewrite Es. cbn [bind].
    destruct (IH (fun dest H => HV dest (or_intror H))
                 (sunion (if keep x then sadd x acc else acc) s)) as (out & E & HO).
    exists out. split; [exact E|]. intros d. rewrite HO, In_sunion, Hs. split.
    + intros [[H|[K H]]|(dest & Hd & K & H)].
      * destruct (keep x) eqn:Kx; [|now left]. apply In_sadd in H. destruct H as [->|H]; [|now left].
        right. exists x. split; [now left|]. auto.
      * right. exists x. split; [now left|]. auto.
      * right. exists dest. split; [now right|]. auto.
    + intros [H|(dest & [<-|Hd] & K & H)].
      * left. left. destruct (keep x); [apply In_sadd; now right|exact H].
      * destruct H as [->|H]; [|left; right; auto]. left. left. rewrite K. apply In_sadd. now left.
      * right. exists dest. auto.
Qed.

(* the loop that collects what every start edge reaches *)
Lemma union_fold (visit : nat -> res (list nat)) (Q : nat -> nat -> Prop) l :
  (forall j, In j l -> exists s, visit j = Ok s /\ forall d, In d s <-> Q j d) ->
  forall acc, exists out,
    foldM (fun acc j => do s <- visit j; Ok (sunion acc s)) l acc = Ok out /\
    (forall d, In d out <-> In d acc \/ exists j, In j l /\ Q j d) /\ (NoDup acc -> NoDup out).
Proof.
  induction l as [|x r IH]; intros HV acc; cbn [foldM].
  - exists acc. split; [reflexivity|]. split; [|auto]. intros d. split; [auto|intros [H|(? & [] & _)]; exact H].
  - destruct (HV x) as (s & Es & Hs); [now left|]. rewrite Es. cbn [bind].
    destruct (IH (fun j H => HV j (or_intror H)) (sunion acc s)) as (out & E & HO & ND).
    exists out. split; [exact E|]. split.
    + intros d. rewrite HO, In_sunion, Hs. split.
      * intros [[H|H]|(j & Hj & H)]; [now left|right; exists x; split; [now left|exact H]|].
        right. exists j. split; [now right|exact H].
      * intros [H|(j & [<-|Hj] & H)]; [left; now left|left; now right|right; eauto].
    + intros H. apply ND, NoDup_sunion, H.
Qed.

(* the loop of the reduction that removes the collected targets *)
Lemma rem_fold rm : NoDup rm -> forall s, (forall j, In j rm -> In j s) ->
  exists s', foldM (fun s j => if mem j s then Ok (srem j s) else Raise EKey) rm s = Ok s' /\
             forall d, In d s' <-> In d s /\ ~ In d rm.
Proof.
  induction 1 as [|x r Hx ND IH]; intros s HS; cbn [foldM].
  - exists s. split; [reflexivity|]. intros d. cbn. tauto.
  - assert (M : mem x s = true) by (apply mem_In, HS; now left). rewrite M. cbn [bind].
    destruct (IH (srem x s)) as (s' & E & H').
    { intros j Hj. apply In_srem. split; [apply HS; now right|]. intros ->. contradiction. }
    exists s'. split; [exact E|]. intros d. rewrite H', In_srem. cbn. intuition congruence.
Qed.

(* ---------- 2. the position graph ---------- *)
Definition pedge (g : cgraph) (i j : nat) : Prop := exists s, dget i (edges g) = Some s /\ In j s.
Definition pk (g : cgraph) (i : nat) (a : key) : Prop := nth_error (seq (nodes g)) i = Some a.
Definition pacyclic (g : cgraph) : Prop := forall i, ~ clos_trans nat (pedge g) i i.

Lemma cedge_pedge g a b : cedge g a b <-> exists i j, pk g i a /\ pk g j b /\ pedge g i j.
Proof.
  unfold cedge, pk, pedge. split.
  - intros (i & j & s & Ha & Hb & Hs & Hj). exists i, j. eauto.
  - intros (i & j & Ha & Hb & s & Hs & Hj). exists i, j, s. auto.
Qed.

Section Pos.
Variable g : cgraph.
Hypothesis OK : g_ok g.

Lemma seq_NoDup : NoDup (seq (nodes g)).
Proof. destruct OK as (RO & _). apply rl_ok_view in RO. tauto. Qed.

Lemma pedge_lt i j : pedge g i j -> i < glen g /\ j < glen g.
Proof.
  intros (s & Hs & Hj). split; [eapply edges_lt; eauto|].
  destruct OK as (_ & _ & _ & T). eapply T; eauto.
Qed.

Lemma ct_pedge_lt i j : clos_trans nat (pedge g) i j -> i < glen g /\ j < glen g.
Proof.
  induction 1 as [i j E | i k j _ IH1 _ IH2]; [now apply pedge_lt|tauto].
Qed.

Lemma ct_cedge_pedge a b :
  clos_trans key (cedge g) a b <-> exists i j, pk g i a /\ pk g j b /\ clos_trans nat (pedge g) i j.
Proof.
  split.
  - induction 1 as [a b E | a c b _ IH1 _ IH2].
    + apply cedge_pedge in E. destruct E as (i & j & Hi & Hj & E). exists i, j.
      split; [exact Hi|split; [exact Hj|now apply t_step]].
    + destruct IH1 as (i & k & Hi & Hk & E1). destruct IH2 as (k' & j & Hk' & Hj & E2).
      assert (k = k') by exact (nth_NoDup _ _ _ _ seq_NoDup Hk Hk'). subst k'.
      exists i, j. split; [exact Hi|split; [exact Hj|eapply t_trans; eauto]].
  - intros (i & j & Hi & Hj & E). revert a b Hi Hj.
    induction E as [i j E | i k j E1 IH1 E2 IH2]; intros a b Hi Hj.
    + apply t_step, cedge_pedge. exists i, j. auto.
    + destruct (ct_pedge_lt _ _ E1) as [_ Lk]. destruct (node_at g k Lk) as [c Hc].
      eapply t_trans; [eapply IH1 | eapply IH2]; eauto.
Qed.

Lemma acyclic_pacyclic : acyclic g -> pacyclic g.
Proof.
  intros AC i P. destruct (ct_pedge_lt _ _ P) as [Li _]. destruct (node_at g i Li) as [a Ha].
  apply (AC a). apply ct_cedge_pedge. exists i, i. auto.
Qed.

(* the fuel [glen g + 1] bounds every path *)
Lemma fuel_bnd j : pacyclic g -> j < glen g -> bnd (fun a d => pedge g d a) (glen g + 1) j.
Proof.
  intros AC Lj. apply (bnd_mono (fun a d => clos_trans nat (pedge g) d a)); [intros; now apply t_step|].
  apply (fin_bnd _ (glen g)) with (vis := []); cbn; try tauto.
  - intros a b P. apply ct_pedge_lt in P. tauto.
  - intros a b c P1 P2. eapply t_trans; eauto.
  - constructor.
  - lia.
Qed.

(* ----- tr_visit: the kept nodes reachable in at least one step ----- *)
Lemma tr_visit_ok keep : forall f cur, cur < glen g -> bnd (fun a d => pedge g d a) f cur ->
  exists l, tr_visit f g keep cur = Ok l /\
            forall d, In d l <-> keep d = true /\ clos_trans nat (pedge g) cur d.
Proof.
  induction f as [|f IH]; intros cur Lc B; [inversion B|].
  inversion B as [f' d' HB]; subst. cbn [tr_visit].
  destruct (edges_at g OK cur Lc) as [ce Hce]. unfold dgetE. rewrite Hce. cbn [bind].
  destruct (visit_fold (tr_visit f g keep) keep (clos_trans nat (pedge g)) ce) with (acc := @nil nat)
    as (out & E & HO).
  { intros dest Hd. assert (PE : pedge g cur dest) by (exists ce; auto).
    apply IH; [apply (pedge_lt _ _ PE)|apply HB, PE]. }
  exists out. split; [exact E|]. intros d. rewrite HO, ct_first. split.
  - intros [[]|(dest & Hd & K & H)]. split; [exact K|]. exists dest. split; [exists ce; auto|exact H].
  - intros (K & dest & (s & Hs & Hd) & H). right. exists dest.
    assert (s = ce) by congruence. subst s. auto.
Qed.

Lemma tr_visit_top keep j : pacyclic g -> j < glen g ->
  exists l, tr_visit (glen g + 1) g keep j = Ok l /\
            forall d, In d l <-> keep d = true /\ clos_trans nat (pedge g) j d.
Proof. intros AC Lj. apply tr_visit_ok; [exact Lj|now apply fuel_bnd]. Qed.

(* ----- one round of the two outer loops ----- *)
Definition clos_body (g : cgraph) (i : nat) : res cgraph :=
  do start <- dgetE i (edges g);
  do ad <- foldM (fun acc j => do s <- tr_visit (glen g + 1) g (fun d => negb (mem d start)) j;
                               Ok (sunion acc s)) start [];
  Ok (mkG (nodes g) (dset i (sunion start ad) (edges g))).

Definition red_body (g : cgraph) (i : nat) : res cgraph :=
  do start <- dgetE i (edges g);
  do rm <- foldM (fun acc j => do s <- tr_visit (glen g + 1) g (fun d => mem d start) j;
                               Ok (sunion acc s)) start [];
  do s' <- foldM (fun s j => if mem j s then Ok (srem j s) else Raise EKey) rm start;
  Ok (mkG (nodes g) (dset i s' (edges g))).

Lemma pedge_dset i s' x y :
  pedge (mkG (nodes g) (dset i s' (edges g))) x y <-> (x <> i /\ pedge g x y) \/ (x = i /\ In y s').
Proof.
  unfold pedge. cbn [edges]. rewrite dget_dset. destruct (Nat.eqb_spec i x) as [<-|N].
  - split.
    + intros (s & [= <-] & H). right. auto.
    + intros [[N _]|[_ H]]; [congruence|eauto].
  - split.
    + intros H. left. split; [congruence|exact H].
    + intros [[_ H]|[-> _]]; [exact H|congruence].
Qed.

Lemma clos_body_ok i : pacyclic g -> i < glen g ->
  exists g', clos_body g i = Ok g' /\ g_ok g' /\ nodes g' = nodes g /\
    forall x y, pedge g' x y <-> (x <> i /\ pedge g x y) \/ (x = i /\ clos_trans nat (pedge g) i y).
Proof.
  intros AC Li. unfold clos_body.
  destruct (edges_at g OK i Li) as [start Hs]. unfold dgetE. rewrite Hs. cbn [bind].
  destruct (union_fold (tr_visit (glen g + 1) g (fun d => negb (mem d start)))
              (fun j d => negb (mem d start) = true /\ clos_trans nat (pedge g) j d) start)
    with (acc := @nil nat) as (ad & E & HA & _).
  { intros j Hj. apply tr_visit_top; [exact AC|]. apply (pedge_lt i j). exists start; auto. }
  erewrite bind_ok; [|exact E].
  eexists. split; [reflexivity|].
  destruct (edge_update_ok g OK i (sunion start ad) Li) as (OK' & _ & _).
  { intros j Hj. apply In_sunion in Hj. destruct Hj as [Hj|Hj].
    - apply (pedge_lt i j). exists start; auto.
    - apply HA in Hj. destruct Hj as [[]|(j0 & _ & _ & P)]. apply (ct_pedge_lt _ _ P). }
  split; [exact OK'|]. split; [reflexivity|].
  intros x y. rewrite pedge_dset. apply or_iff_compat_l. apply and_iff_compat_l.
  rewrite In_sunion, HA, ct_first. split.
  - intros [H|[[]|(j & Hj & _ & P)]].
    + exists y. split; [exists start; auto|now left].
    + exists j. split; [exists start; auto|now right].
  - intros (j & (s & Hs' & Hj) & H). assert (s = start) by congruence. subst s.
    destruct H as [<-|P]; [now left|].
    destruct (mem y start) eqn:M; [left; now apply mem_In|].
    right. right. exists j. split; [exact Hj|]. split; [reflexivity|exact P].
Qed.

Lemma red_body_ok i : pacyclic g -> i < glen g ->
  exists g', red_body g i = Ok g' /\ g_ok g' /\ nodes g' = nodes g /\
    (forall y, pedge g i y -> (exists j, pedge g i j /\ clos_trans nat (pedge g) j y) \/
                              ~ (exists j, pedge g i j /\ clos_trans nat (pedge g) j y)) /\
    forall x y, pedge g' x y <->
      (x <> i /\ pedge g x y) \/
      (x = i /\ pedge g i y /\ ~ exists j, pedge g i j /\ clos_trans nat (pedge g) j y).
Proof.
  intros AC Li. unfold red_body.
  destruct (edges_at g OK i Li) as [start Hs]. unfold dgetE. rewrite Hs. cbn [bind].
  assert (PS : forall y, pedge g i y <-> In y start).
  { intros y. split; [intros (s & Hs' & H); congruence|intros H; exists start; auto]. }
  destruct (union_fold (tr_visit (glen g + 1) g (fun d => mem d start))
              (fun j d => mem d start = true /\ clos_trans nat (pedge g) j d) start)
    with (acc := @nil nat) as (rm & E & HR & ND).
  { intros j Hj. apply tr_visit_top; [exact AC|]. apply (pedge_lt i j). now apply PS. }
  erewrite bind_ok; [|exact E].
  assert (HR' : forall y, In y rm <-> In y start /\ exists j, pedge g i j /\ clos_trans nat (pedge g) j y).
  { intros y. rewrite HR. split.
    - intros [[]|(j & Hj & M & P)]. apply mem_In in M. split; [exact M|]. exists j. split; [now apply PS|exact P].
    - intros (M & j & Hj & P). right. exists j. split; [now apply PS|]. split; [now apply mem_In|exact P]. }
  destruct (rem_fold rm (ND (NoDup_nil _)) start) as (s' & E' & HS').
  { intros j Hj. apply HR' in Hj. tauto. }
  erewrite bind_ok; [|exact E'].
  eexists. split; [reflexivity|].
  destruct (edge_update_ok g OK i s' Li) as (OK' & _ & _).
  { intros j Hj. apply HS' in Hj. apply (pedge_lt i j). apply PS. tauto. }
  split; [exact OK'|]. split; [reflexivity|]. split.
  - intros y Hy. apply PS in Hy. destruct (in_dec Nat.eq_dec y rm) as [H|H].
    + left. apply HR' in H. tauto.
    + right. intros H'. apply H, HR'. auto.
  - intros x y. rewrite pedge_dset. apply or_iff_compat_l. apply and_iff_compat_l.
    rewrite HS', HR', PS. tauto.
Qed.
End Pos.

Lemma closure_unfold g : transitive_closure g = foldM clos_body (List.seq 0 (glen g)) g.
Proof. reflexivity. Qed.

Lemma reduction_unfold g : transitive_reduction g = foldM red_body (List.seq 0 (glen g)) g.
Proof. reflexivity. Qed.

Lemma glen_nodes g g' : nodes g' = nodes g -> glen g' = glen g.
Proof. unfold glen. now intros ->. Qed.

(* ---------- 3. the loops, on positions ---------- *)
Lemma closure_pos g : g_ok g -> pacyclic g ->
  exists g', transitive_closure g = Ok g' /\ g_ok g' /\ nodes g' = nodes g /\
    forall x y, pedge g' x y <-> clos_trans nat (pedge g) x y.
Proof.
  intros OK AC. rewrite closure_unfold.
  set (I := fun (k : nat) (h : cgraph) =>
              g_ok h /\ nodes h = nodes g /\
              (forall x y, clos_trans nat (pedge h) x y <-> clos_trans nat (pedge g) x y) /\
              (forall x y, x < k -> (pedge h x y <-> clos_trans nat (pedge g) x y))).
  destruct (foldM_seq_inv clos_body I (glen g)) with (a := g) as (g' & E & OK' & N' & CT' & F').
  - intros k h Lk (OKh & Nh & CTh & Fh).
    assert (ACh : pacyclic h) by (intros a P; apply (AC a), CTh, P).
    destruct (clos_body_ok h OKh k ACh) as (h' & E & OK' & N' & PE); [rewrite (glen_nodes _ _ Nh); exact Lk|].
    exists h'. split; [exact E|]. split; [exact OK'|]. split; [congruence|].
    pose proof (closure_step_ct _ _ k PE) as CT'. split.
    + intros x y. rewrite CT'. apply CTh.
    + intros x y Lx. rewrite PE. destruct (Nat.eq_dec x k) as [->|N].
      * rewrite <- CTh. split; [intros [[N _]|[_ H]]; [congruence|exact H]|auto].
      * rewrite <- (Fh x y) by lia. split; [intros [[_ H]|[H _]]; [exact H|congruence]|auto].
  - split; [exact OK|]. split; [reflexivity|]. split; [reflexivity|]. intros x y L. lia.
  - exists g'. split; [exact E|]. split; [exact OK'|]. split; [exact N'|].
    intros x y. split.
    + intros P. apply F'; [|exact P]. rewrite <- (glen_nodes _ _ N'). apply (pedge_lt g' OK' _ _ P).
    + intros P. apply F'; [|exact P]. apply (ct_pedge_lt g OK _ _ P).
Qed.

Lemma reduction_pos g : g_ok g -> pacyclic g ->
  exists g', transitive_reduction g = Ok g' /\ g_ok g' /\ nodes g' = nodes g /\
    (forall x y, clos_trans nat (pedge g') x y <-> clos_trans nat (pedge g) x y) /\
    forall x y, pedge g' x y <->
      pedge g x y /\ ~ exists c, clos_trans nat (pedge g) x c /\ clos_trans nat (pedge g) c y.
Proof.
  intros OK AC. rewrite reduction_unfold.
  set (I := fun (k : nat) (h : cgraph) =>
              g_ok h /\ nodes h = nodes g /\
              (forall x y, clos_trans nat (pedge h) x y <-> clos_trans nat (pedge g) x y) /\
              (forall x y, k <= x -> (pedge h x y <-> pedge g x y)) /\
              (forall x y, x < k -> (pedge h x y <-> pedge g x y /\
                  ~ exists c, clos_trans nat (pedge g) x c /\ clos_trans nat (pedge g) c y))).
  destruct (foldM_seq_inv red_body I (glen g)) with (a := g) as (g' & E & OK' & N' & CT' & _ & F').
  - intros k h Lk (OKh & Nh & CTh & Uh & Fh).
    assert (ACh : pacyclic h) by (intros a P; apply (AC a), CTh, P).
    destruct (red_body_ok h OKh k ACh) as (h' & E & OK' & N' & DEC & PE);
      [rewrite (glen_nodes _ _ Nh); exact Lk|].
    exists h'. split; [exact E|]. split; [exact OK'|]. split; [congruence|].
    assert (CT' : forall x y, clos_trans nat (pedge h') x y <-> clos_trans nat (pedge h) x y).
    { apply (reduction_step_ct _ _ (glen h) k); [|exact ACh|exact DEC|exact PE].
      intros a b P. apply (pedge_lt h OKh _ _ P). }
    split; [|split].
    + intros x y. rewrite CT'. apply CTh.
    + intros x y Lx. rewrite PE, <- (Uh x y) by lia.
      split; [intros [[_ H]|[H _]]; [exact H|lia]|intros H; left; split; [lia|exact H]].
    + intros x y Lx. rewrite PE. destruct (Nat.eq_dec x k) as [->|N].
      * rewrite (Uh k y) by lia. split.
        -- intros [[N _]|(_ & H & NE)]; [congruence|]. split; [exact H|].
           intros (c & P1 & P2). apply NE. apply CTh in P1. apply ct_first in P1.
           destruct P1 as (j & E1 & Q). exists j. split; [exact E1|]. apply CTh in P2.
           destruct Q as [->|Q]; [exact P2|eapply t_trans; eauto].
        -- intros (H & NE). right. split; [reflexivity|]. split; [exact H|].
           intros (j & E1 & P). apply NE. exists j. split; apply CTh; [now apply t_step|exact P].
      * rewrite <- (Fh x y) by lia. split; [intros [[_ H]|[H _]]; [exact H|congruence]|auto].
  - split; [exact OK|]. split; [reflexivity|]. split; [reflexivity|]. split; [reflexivity|]. intros x y L. lia.
  - exists g'. split; [exact E|]. split; [exact OK'|]. split; [exact N'|]. split; [exact CT'|].
    intros x y. split.
    + intros P. apply F'; [|exact P]. rewrite <- (glen_nodes _ _ N'). apply (pedge_lt g' OK' _ _ P).
    + intros P. apply F'; [|exact P]. destruct P as [P _]. apply (pedge_lt g OK _ _ P).
Qed.

(* ---------- 4. from positions to keys ---------- *)
Lemma pk_nodes g g' i a : nodes g' = nodes g -> (pk g' i a <-> pk g i a).
Proof. unfold pk. now intros ->. Qed.

Theorem closure_correct : forall g, g_ok g -> acyclic g ->
  exists g', transitive_closure g = Ok g' /\ g_ok g' /\
    (forall k, cnode g' k <-> cnode g k) /\
    (forall x y, cedge g' x y <-> clos_trans key (cedge g) x y).
Proof.
  intros g OK AC.
  destruct (closure_pos g OK (acyclic_pacyclic g OK AC)) as (g' & E & OK' & N' & PE).
  exists g'. split; [exact E|]. split; [exact OK'|]. split.
  - intros k. unfold cnode. now rewrite N'.
  - intros x y. rewrite cedge_pedge, (ct_cedge_pedge g OK). split.
    + intros (i & j & Hi & Hj & P). exists i, j.
      split; [now apply (pk_nodes g g')|]. split; [now apply (pk_nodes g g')|now apply PE].
    + intros (i & j & Hi & Hj & P). exists i, j.
      split; [now apply (pk_nodes g g')|]. split; [now apply (pk_nodes g g')|now apply PE].
Qed.

Theorem reduction_correct : forall g, g_ok g -> acyclic g ->
  exists g', transitive_reduction g = Ok g' /\ g_ok g' /\
    (forall k, cnode g' k <-> cnode g k) /\
    (forall x y, cedge g' x y <->
       cedge g x y /\ ~ exists c, clos_trans key (cedge g) x c /\ clos_trans key (cedge g) c y) /\
    (forall x y, clos_trans key (cedge g') x y <-> clos_trans key (cedge g) x y).
Proof.
  intros g OK AC.
  destruct (reduction_pos g OK (acyclic_pacyclic g OK AC)) as (g' & E & OK' & N' & CT & PE).
  pose proof (seq_NoDup g OK) as ND.
  exists g'. split; [exact E|]. split; [exact OK'|]. split; [|split].
  - intros k. unfold cnode. now rewrite N'.
  - intros x y. rewrite !cedge_pedge. split.
    + intros (i & j & Hi & Hj & P). apply (pk_nodes g g') in Hi, Hj; try exact N'.
      apply PE in P. destruct P as [P NE]. split; [exists i, j; auto|].
      intros (c & P1 & P2). apply (ct_cedge_pedge g OK) in P1, P2.
      destruct P1 as (i' & k & Hi' & Hk & P1). destruct P2 as (k' & j' & Hk' & Hj' & P2).
      assert (i' = i) by exact (nth_NoDup _ _ _ _ ND Hi' Hi).
      assert (k' = k) by exact (nth_NoDup _ _ _ _ ND Hk' Hk).
      assert (j' = j) by exact (nth_NoDup _ _ _ _ ND Hj' Hj). subst.
      apply NE. exists k. auto.
    + intros ((i & j & Hi & Hj & P) & NE). exists i, j.
      split; [now apply (pk_nodes g g')|]. split; [now apply (pk_nodes g g')|].
      apply PE. split; [exact P|]. intros (k & P1 & P2).
      destruct (ct_pedge_lt g OK _ _ P1) as [_ Lk]. destruct (node_at g k Lk) as [c Hc].
      apply NE. exists c. split; apply (ct_cedge_pedge g OK); [exists i, k|exists k, j]; auto.
  - intros x y. rewrite (ct_cedge_pedge g OK), (ct_cedge_pedge g' OK'). split.
    + intros (i & j & Hi & Hj & P). exists i, j.
      split; [now apply (pk_nodes g g')|]. split; [now apply (pk_nodes g g')|now apply CT].
    + intros (i & j & Hi & Hj & P). exists i, j.
      split; [now apply (pk_nodes g g')|]. split; [now apply (pk_nodes g g')|now apply CT].
Qed.

(* every edge of the reduction is needed: without it its target is not reachable any more *)
Corollary reduction_edge_needed : forall g g', g_ok g -> acyclic g -> transitive_reduction g = Ok g' ->
  forall x y, cedge g' x y -> ~ clos_trans key (fun a b => cedge g' a b /\ ~ (a = x /\ b = y)) x y.
Proof.
  intros g g' OK AC E x y Exy P.
  destruct (reduction_correct g OK AC) as (g'' & E'' & _ & _ & ED & CT).
  assert (g'' = g') by congruence. subst g''.
  assert (MONO : forall a b, clos_trans key (fun a b => cedge g' a b /\ ~ (a = x /\ b = y)) a b ->
                             clos_trans key (cedge g') a b).
  { intros a b. apply ct_mono. tauto. }
  apply ED in Exy. destruct Exy as [_ NE].
  apply ct_first in P. destruct P as (j & [E1 N1] & Q).
  destruct Q as [->|Q]; [apply N1; auto|].
  apply NE. exists j. split; apply CT; [apply t_step; exact E1|apply MONO, Q].
Qed.


(* C16 — kernel-checked finite sweeps over the executable DepGraph model.

   Every graph is built THROUGH THE MODEL'S OWN OPERATIONS ([add_node], [add_dependency]).
   The sweeps enumerate all loop-free edge relations on n <= 5 nodes (2^(n(n-1)) masks) and
   a family of two-register worlds with one nested graph.  The boolean sweep predicates are
   evaluated by [vm_compute]; the final theorems are lifted to Prop (NoDup / In / nth_error /
   clos_trans) with ordinary lemmas about the boolean reflections. *)
From Coq Require Import List Arith Bool PeanoNat NArith Lia Relations.
From VV Require Import Lib.Base C16.Model.
Import ListNotations.

(* ================================================================== *)
(* 1. enumeration of masks                                             *)
(* ================================================================== *)

(* [all_below bits f lo]: f holds on lo, lo+1, ..., lo + 2^bits - 1 *)
Fixpoint all_below (bits : nat) (f : N -> bool) (lo : N) : bool :=
  match bits with
  | 0 => f lo
  | S b => all_below b f lo && all_below b f (lo + 2 ^ N.of_nat b)%N
  end.

Lemma all_below_spec bits f : forall lo,
  all_below bits f lo = true ->
  forall m, (lo <= m < lo + 2 ^ N.of_nat bits)%N -> f m = true.
Proof.
  induction bits as [|b IH]; intros lo H m Hm.
  - cbn in *. replace m with lo by lia. exact H.
  - cbn [all_below] in H. apply andb_true_iff in H. destruct H as [H1 H2].
    rewrite Nat2N.inj_succ, N.pow_succ_r' in Hm.
    destruct (N.lt_ge_cases m (lo + 2 ^ N.of_nat b)) as [L|L].
    + apply (IH lo H1). lia.
    + apply (IH _ H2). lia.
Qed.

(* the loop-free ordered pairs over a node list, in lexicographic order of positions *)
Definition pairs_of (ns : list key) : list (key * key) :=
  filter (fun p => negb (fst p =? snd p)) (list_prod ns ns).

(* the sub-list selected by the bits of [m] (bit i <-> i-th pair) *)
Fixpoint select (ps : list (key * key)) (m : N) : list (key * key) :=
  match ps with
  | [] => []
  | p :: r => if N.odd m then p :: select r (N.div2 m) else select r (N.div2 m)
  end.

Definition edges_on (ns : list key) (m : N) : list (key * key) := select (pairs_of ns) m.
Definition edges_of_mask (n : nat) (m : N) : list (key * key) := edges_on (List.seq 0 n) m.

(* the graph, built by the model: add_node for every node, then add_dependency for every edge
   (an edge (a,b): a depends on b) *)
Definition graph_on (ns : list key) (es : list (key * key)) : res cgraph :=
  foldM (fun g e => add_dependency g (fst e) (snd e)) es (fold_left add_node ns g_empty).
Definition graph_of (n : nat) (es : list (key * key)) : res cgraph := graph_on (List.seq 0 n) es.

Lemma select_In ps : forall m p, In p (select ps m) -> In p ps.
Proof.
  induction ps as [|q r IH]; intros m p H; cbn in *; [exact H|].
  destruct (N.odd m); [destruct H as [H|H]; [left; exact H|]|]; right; eapply IH, H.
Qed.

Lemma pairs_of_In ns a b : In (a, b) (pairs_of ns) <-> In a ns /\ In b ns /\ a <> b.
Proof.
  unfold pairs_of. rewrite filter_In, in_prod_iff. cbn [fst snd].
  rewrite negb_true_iff, Nat.eqb_neq. tauto.
Qed.

Lemma edges_on_In ns m a b : In (a, b) (edges_on ns m) -> In a ns /\ In b ns /\ a <> b.
Proof. intros H. apply pairs_of_In. eapply select_In, H. Qed.

Lemma edges_of_mask_lt n m a b : In (a, b) (edges_of_mask n m) -> a < n /\ b < n /\ a <> b.
Proof.
  intros H. apply edges_on_In in H. rewrite !in_seq in H. lia.
Qed.

(* the enumeration is complete: every sub-list (as a filter) of the pairs is some mask *)
Lemma select_complete (f : key * key -> bool) ps :
  exists m, (m < 2 ^ N.of_nat (length ps))%N /\ select ps m = filter f ps.
Proof.
  induction ps as [|p r [m [Hm E]]].
  - exists 0%N. split; [reflexivity|reflexivity].
  - cbn [length filter]. rewrite Nat2N.inj_succ, N.pow_succ_r'.
    destruct (f p).
    + exists (2 * m + 1)%N. split; [lia|]. cbn [select].
      assert (X : N.odd (2 * m + 1) = true /\ N.div2 (2 * m + 1) = m) by (destruct m; split; reflexivity).
      destruct X as [-> ->]. now rewrite E.
    + exists (2 * m)%N. split; [lia|]. cbn [select].
      assert (X : N.odd (2 * m) = false /\ N.div2 (2 * m) = m) by (destruct m; split; reflexivity).
      destruct X as [-> ->]. exact E.
Qed.

(* ================================================================== *)
(* 2. meaning of the boolean reflections                               *)
(* ================================================================== *)

Lemma mem_In x l : mem x l = true <-> In x l.
Proof.
  unfold mem. rewrite existsb_exists. split.
  - intros [y [H E]]. apply Nat.eqb_eq in E. now subst.
  - intros H. exists x. split; [exact H|apply Nat.eqb_refl].
Qed.

Lemma keq_eq p q : keq p q = true <-> p = q.
Proof.
  destruct p as [a b], q as [c d]. unfold keq. cbn [fst snd].
  rewrite andb_true_iff, !Nat.eqb_eq. split; [intros [-> ->]; reflexivity|intros E; inversion E; auto].
Qed.

Lemma pmem_In p l : pmem p l = true <-> In p l.
Proof.
  unfold pmem. rewrite existsb_exists. split.
  - intros [y [H E]]. apply keq_eq in E. now subst.
  - intros H. exists p. split; [exact H|now apply keq_eq].
Qed.

Lemma set_eqb_spec a b : set_eqb a b = true <-> (forall x, In x a <-> In x b).
Proof.
  unfold set_eqb. rewrite andb_true_iff, !forallb_forall. split.
  - intros [H1 H2] x. split; intros H; [apply mem_In, H1, H|apply mem_In, H2, H].
  - intros H. split; intros x Hx; apply mem_In, H, Hx.
Qed.

Lemma pset_eqb_spec a b : pset_eqb a b = true <-> (forall x, In x a <-> In x b).
Proof.
  unfold pset_eqb. rewrite andb_true_iff, !forallb_forall. split.
  - intros [H1 H2] x. split; intros H; [apply pmem_In, H1, H|apply pmem_In, H2, H].
  - intros H. split; intros x Hx; apply pmem_In, H, Hx.
Qed.

Lemma nodupb_NoDup l : nodupb l = true -> NoDup l.
Proof.
  induction l as [|x r IH]; cbn; intros H; [constructor|].
  apply andb_true_iff in H. destruct H as [H1 H2]. constructor; [|apply IH, H2].
  intros Hin. apply mem_In in Hin. rewrite Hin in H1. discriminate.
Qed.

Lemma nat_list_eqb l1 l2 : list_eqb Nat.eqb l1 l2 = true <-> l1 = l2.
Proof. apply list_eqb_spec, Nat.eqb_eq. Qed.

Lemma pair_list_eqb l1 l2 : list_eqb keq l1 l2 = true <-> l1 = l2.
Proof. apply list_eqb_spec, keq_eq. Qed.

Lemma forallb_false_ex {A} (f : A -> bool) l :
  forallb f l = false -> exists x, In x l /\ f x = false.
Proof.
  induction l as [|a r IH]; cbn; [discriminate|].
  destruct (f a) eqn:E; cbn.
  - intros H. destruct (IH H) as [x [Hx Fx]]. exists x. auto.
  - intros _. exists a. auto.
Qed.

Lemma pos_nth x l : forall i, pos x l = Some i -> nth_error l i = Some x.
Proof.
  induction l as [|y r IH]; intros i H; cbn in H; [discriminate|].
  destruct (y =? x) eqn:E.
  - apply Nat.eqb_eq in E. inversion H. subst. reflexivity.
  - destruct (pos x r) as [j|]; cbn in H; [|discriminate].
    inversion H. subst. cbn. apply IH. reflexivity.
Qed.

(* what [valid_order] means *)
Lemma valid_order_spec ns es order :
  valid_order ns es order = true ->
  NoDup order /\ (forall k, In k order <-> In k ns) /\
  (forall a b, In (a, b) es ->
     exists i j, nth_error order i = Some a /\ nth_error order j = Some b /\ j < i).
Proof.
  unfold valid_order. rewrite !andb_true_iff. intros [[H1 H2] H3].
  split; [apply nodupb_NoDup, H2|]. split.
  - intros k. symmetry. revert k. apply set_eqb_spec, H1.
  - intros a b Hab. rewrite forallb_forall in H3. specialize (H3 _ Hab). cbn [fst snd] in H3.
    destruct (pos a order) as [i|] eqn:Pa; [|discriminate].
    destruct (pos b order) as [j|] eqn:Pb; [|discriminate].
    exists i, j. split; [apply pos_nth, Pa|]. split; [apply pos_nth, Pb|].
    apply Nat.ltb_lt, H3.
Qed.

(* ---------- reachability ---------- *)
Definition rel (es : list (key * key)) : key -> key -> Prop := fun a b => In (a, b) es.
(* b reachable from a in at least one step *)
Definition reachable (es : list (key * key)) (a b : key) : Prop := clos_trans key (rel es) a b.
Definition acyclic_rel (es : list (key * key)) : Prop := forall a, ~ reachable es a a.

Lemma sadd_In x l y : In y (sadd x l) <-> y = x \/ In y l.
Proof.
  unfold sadd. destruct (mem x l) eqn:E.
  - apply mem_In in E. split; [auto|intros [->|H]; auto].
  - rewrite in_app_iff. cbn. split; [intros [H|[H|[]]]; auto|intros [H|H]; auto].
Qed.

Lemma sunion_In b : forall a y, In y (sunion a b) <-> In y a \/ In y b.
Proof.
  unfold sunion. induction b as [|x r IH]; intros a y; cbn.
  - tauto.
  - rewrite IH, sadd_In. split; [intros [[H|H]|H]|intros [H|[H|H]]]; auto.
Qed.

Lemma dedup_In l y : In y (dedup l) <-> In y l.
Proof. unfold dedup. rewrite sunion_In. cbn. tauto. Qed.

Lemma succs_In es a b : In b (succs es a) <-> In (a, b) es.
Proof.
  unfold succs. rewrite in_map_iff. split.
  - intros [[x y] [E H]]. apply filter_In in H. destruct H as [H F]. cbn in *.
    apply Nat.eqb_eq in F. now subst.
  - intros H. exists (a, b). split; [reflexivity|]. apply filter_In. split; [exact H|].
    cbn. apply Nat.eqb_refl.
Qed.

Lemma reach_from_incl es f : forall l x, In x l -> In x (reach_from f es l).
Proof.
  induction f as [|f IH]; intros l x H; cbn; [exact H|].
  apply IH, sunion_In. left. exact H.
Qed.

Lemma reach_from_step es f l x y :
  In x l -> In (x, y) es -> In y (reach_from (S f) es l).
Proof.
  intros Hx Hxy. cbn. apply reach_from_incl, sunion_In. right.
  apply in_flat_map. exists x. split; [exact Hx|apply succs_In, Hxy].
Qed.

Lemma reach_from_sound es a f : forall l,
  (forall x, In x l -> reachable es a x) ->
  forall x, In x (reach_from f es l) -> reachable es a x.
Proof.
  induction f as [|f IH]; intros l Hl x H; cbn in H; [apply Hl, H|].
  eapply IH; [|exact H]. intros y Hy. apply sunion_In in Hy. destruct Hy as [Hy|Hy]; [apply Hl, Hy|].
  apply in_flat_map in Hy. destruct Hy as [z [Hz Hzy]]. apply succs_In in Hzy.
  eapply t_trans; [apply Hl, Hz|]. apply t_step. exact Hzy.
Qed.

(* [reach1] only finds real paths, for every fuel *)
Lemma reach1_sound k es a b : In b (reach1 k es a) -> reachable es a b.
Proof.
  unfold reach1. apply reach_from_sound. intros x Hx. apply dedup_In, succs_In in Hx.
  apply t_step. exact Hx.
Qed.

(* [R] contains the successors of [a] and is closed under successors *)
Definition closed_at (es : list (key * key)) (a : key) (R : list key) : bool :=
  forallb (fun e => if (fst e =? a) || mem (fst e) R then mem (snd e) R else true) es.

(* ... then it contains everything reachable from [a] *)
Lemma closed_complete es a R :
  closed_at es a R = true -> forall b, reachable es a b -> In b R.
Proof.
  unfold closed_at. rewrite forallb_forall. intros H b Hb.
  apply clos_trans_tn1 in Hb. induction Hb as [y Hy|y z Hyz _ IH].
  - specialize (H _ Hy). cbn [fst snd] in H. rewrite Nat.eqb_refl in H. cbn in H.
    apply mem_In, H.
  - specialize (H _ Hyz). cbn [fst snd] in H. apply mem_In in IH. rewrite IH, orb_true_r in H.
    apply mem_In, H.
Qed.

Lemma reachable_first es a b : reachable es a b -> exists c, In (a, c) es.
Proof. induction 1 as [x y H|x y z _ IH _ _]; [exists y; exact H|exact IH]. Qed.

Lemma reachable_incl es1 es2 a b :
  (forall p, In p es1 -> In p es2) -> reachable es1 a b -> reachable es2 a b.
Proof.
  intros I. induction 1 as [x y H|x y z _ IH1 _ IH2]; [apply t_step, I, H|eapply t_trans; eauto].
Qed.

(* the independent acyclicity test of the sweeps *)
Definition acyclic_on (ns : list key) (k : nat) (es : list (key * key)) : bool :=
  forallb (fun a => negb (mem a (reach1 k es a))) ns.
Definition acyclicb (n : nat) (es : list (key * key)) : bool := acyclic_on (List.seq 0 n) n es.
Definition closed_on (ns : list key) (k : nat) (es : list (key * key)) : bool :=
  forallb (fun a => closed_at es a (reach1 k es a)) ns.

Lemma acyclic_on_false ns k es : acyclic_on ns k es = false -> ~ acyclic_rel es.
Proof.
  intros H A. apply forallb_false_ex in H. destruct H as [a [_ H]].
  apply negb_false_iff, mem_In, reach1_sound in H. exact (A a H).
Qed.

Lemma closed_on_reach ns k es a b :
  closed_on ns k es = true -> In a ns -> (reachable es a b <-> In b (reach1 k es a)).
Proof.
  unfold closed_on. rewrite forallb_forall. intros H Ha. split.
  - apply closed_complete, H, Ha.
  - apply reach1_sound.
Qed.

Lemma acyclic_on_true ns k es :
  acyclic_on ns k es = true -> closed_on ns k es = true ->
  (forall a c, In (a, c) es -> In a ns) -> acyclic_rel es.
Proof.
  unfold acyclic_on. rewrite forallb_forall. intros H C S a Ha.
  destruct (reachable_first _ _ _ Ha) as [c Hc]. pose proof (S _ _ Hc) as Hin.
  apply (closed_on_reach _ _ _ _ _ C Hin) in Ha. apply mem_In in Ha.
  specialize (H _ Hin). rewrite Ha in H. discriminate.
Qed.

(* a 2-cycle: cheap witness of a cyclic relation (used to shorten the sweep) *)
Definition has2 (es : list (key * key)) : bool := existsb (fun e => pmem (snd e, fst e) es) es.

Lemma has2_ex es : has2 es = true -> exists a b, In (a, b) es /\ In (b, a) es.
Proof.
  unfold has2. rewrite existsb_exists. intros [[a b] [H1 H2]]. cbn in H2. apply pmem_In in H2.
  exists a, b. auto.
Qed.

Lemma two_cycle_acyclicb n es a b :
  a < n -> In (a, b) es -> In (b, a) es -> acyclicb n es = false.
Proof.
  intros L H1 H2. destruct (acyclicb n es) eqn:E; [|reflexivity]. exfalso.
  unfold acyclicb, acyclic_on in E. rewrite forallb_forall in E.
  assert (Ha : In a (List.seq 0 n)) by (apply in_seq; lia).
  specialize (E _ Ha). apply negb_true_iff in E.
  assert (M : In a (reach1 n es a)).
  { unfold reach1. destruct n as [|f]; [lia|].
    eapply reach_from_step; [|exact H2]. apply dedup_In, succs_In, H1. }
  apply mem_In in M. rewrite M in E. discriminate.
Qed.

(* every loop-free relation on 0..n-1 (n <= 5) is, as a set, the relation of some mask *)
Lemma edges_of_mask_complete_le5 n (es : list (key * key)) :
  n <= 5 -> (forall a b, In (a, b) es -> a < n /\ b < n /\ a <> b) ->
  exists m, (m < 2 ^ N.of_nat (n * (n - 1)))%N /\
            forall p, In p (edges_of_mask n m) <-> In p es.
Proof.
  intros Hn Hes.
  destruct (select_complete (fun p => pmem p es) (pairs_of (List.seq 0 n))) as [m [Hm E]].
  exists m. split.
  - replace (n * (n - 1)) with (length (pairs_of (List.seq 0 n))); [exact Hm|].
    do 6 (destruct n as [|n]; [reflexivity|]). lia.
  - intros [a b]. unfold edges_of_mask, edges_on. rewrite E, filter_In, pmem_In, pairs_of_In.
    rewrite !in_seq. split; [tauto|]. intros H. specialize (Hes _ _ H). split; [lia|exact H].
Qed.

(* ================================================================== *)
(* 3. the sweep predicates on n <= 5 nodes                             *)
(* ================================================================== *)

(* g_abs of the built graph: exactly the nodes and the edges it was built from *)
Definition built_ok (ns : list key) (es : list (key * key)) (g : cgraph) : bool :=
  match g_abs g with
  | Ok (ns', es') => list_eqb Nat.eqb ns' ns && list_eqb keq es' es
  | Raise _ => false
  end.

Lemma built_ok_spec ns es g : built_ok ns es g = true -> g_abs g = Ok (ns, es).
Proof.
  unfold built_ok. destruct (g_abs g) as [[ns' es']|]; [|discriminate].
  rewrite andb_true_iff, nat_list_eqb, pair_list_eqb. intros [-> ->]. reflexivity.
Qed.

Definition topo_cyc (g : cgraph) : bool :=
  match topological_sort g with Raise c => c =? ECyclic | Ok _ => false end.
Definition topo_ok (n : nat) es (g : cgraph) : bool :=
  match topological_sort g with Ok order => valid_order (List.seq 0 n) es order | Raise _ => false end.

(* an alternative path a -> ... -> c -> ... -> b *)
Definition alt_path n es a b : bool :=
  existsb (fun c => mem c (reach1 n es a) && mem b (reach1 n es c)) (List.seq 0 n).
Definition remove_edge (e : key * key) (es : list (key * key)) := filter (fun x => negb (keq x e)) es.

Definition red_ok (n : nat) es (g : cgraph) : bool :=
  match transitive_reduction g with
  | Ok g' =>
    match g_abs g' with
    | Ok (ns', es') =>
      list_eqb Nat.eqb ns' (List.seq 0 n)
      && pset_eqb es' (filter (fun e => negb (alt_path n es (fst e) (snd e))) es)
      && reach_eqb (List.seq 0 n) es es'
      && forallb (fun e => let es2 := remove_edge e es' in
                           let R := reach1 n es2 (fst e) in
                           negb (mem (snd e) R) && closed_at es2 (fst e) R) es'
    | Raise _ => false
    end
  | Raise _ => false
  end.

Definition clo_ok (n : nat) es (g : cgraph) : bool :=
  match transitive_closure g with
  | Ok g' =>
    match g_abs g' with
    | Ok (ns', es') =>
      list_eqb Nat.eqb ns' (List.seq 0 n)
      && pset_eqb es' (flat_map (fun a => map (pair a) (reach1 n es a)) (List.seq 0 n))
    | Raise _ => false
    end
  | Raise _ => false
  end.

Definition dag_check (n : nat) (m : N) : bool :=
  let es := edges_of_mask n m in
  match graph_of n es with
  | Ok g =>
    built_ok (List.seq 0 n) es g &&
    (if has2 es then topo_cyc g
     else if acyclicb n es then
       closed_on (List.seq 0 n) n es && topo_ok n es g && red_ok n es g && clo_ok n es g
     else topo_cyc g)
  | Raise _ => false
  end.

(* ---------- the sweeps (kernel computations) ---------- *)
Lemma sweep_le4 :
  forallb (fun n => all_below (n * (n - 1)) (dag_check n) 0) (List.seq 0 5) = true.
Proof. vm_compute. reflexivity. Qed.

Lemma sweep_5_0 : all_below 18 (dag_check 5) 0 = true.
Proof. vm_compute. reflexivity. Qed.
Lemma sweep_5_1 : all_below 18 (dag_check 5) 262144 = true.
Proof. vm_compute. reflexivity. Qed.
Lemma sweep_5_2 : all_below 18 (dag_check 5) 524288 = true.
Proof. vm_compute. reflexivity. Qed.
Lemma sweep_5_3 : all_below 18 (dag_check 5) 786432 = true.
Proof. vm_compute. reflexivity. Qed.

Lemma sweep_le5 n m :
  n <= 5 -> (m < 2 ^ N.of_nat (n * (n - 1)))%N -> dag_check n m = true.
Proof.
  intros Hn Hm. destruct (Nat.eq_dec n 5) as [->|Hne].
  - change (N.of_nat (5 * (5 - 1))) with 20%N in Hm. change (2 ^ 20)%N with 1048576%N in Hm.
    assert (S18 : (2 ^ N.of_nat 18 = 262144)%N) by reflexivity.
    destruct (N.lt_ge_cases m 262144); [apply (all_below_spec _ _ _ sweep_5_0); lia|].
    destruct (N.lt_ge_cases m 524288); [apply (all_below_spec _ _ _ sweep_5_1); lia|].
    destruct (N.lt_ge_cases m 786432); [apply (all_below_spec _ _ _ sweep_5_2); lia|].
    apply (all_below_spec _ _ _ sweep_5_3); lia.
  - pose proof sweep_le4 as S. rewrite forallb_forall in S.
    assert (Hin : In n (List.seq 0 5)) by (apply in_seq; lia).
    apply (all_below_spec _ _ _ (S _ Hin)). lia.
Qed.

(* ---------- what a successful check means ---------- *)
Definition dag_fact (n : nat) (es : list (key * key)) : Prop :=
  exists g, graph_of n es = Ok g /\ g_abs g = Ok (List.seq 0 n, es) /\
    ((acyclicb n es = false /\ ~ acyclic_rel es /\ topological_sort g = Raise ECyclic) \/
     (acyclicb n es = true /\ acyclic_rel es /\
      (forall a b, reachable es a b <-> a < n /\ In b (reach1 n es a)) /\
      topo_ok n es g = true /\ red_ok n es g = true /\ clo_ok n es g = true)).

Lemma topo_cyc_spec g : topo_cyc g = true -> topological_sort g = Raise ECyclic.
Proof.
  unfold topo_cyc. destruct (topological_sort g) as [o|c]; [discriminate|].
  intros H. apply Nat.eqb_eq in H. now subst.
Qed.

Lemma dag_check_fact n m : dag_check n m = true -> dag_fact n (edges_of_mask n m).
Proof.
  unfold dag_check, dag_fact. set (es := edges_of_mask n m).
  assert (Hsrc : forall a c, In (a, c) es -> In a (List.seq 0 n)).
  { intros a c H. apply edges_of_mask_lt in H. apply in_seq. lia. }
  destruct (graph_of n es) as [g|]; [|discriminate].
  intros H. apply andb_true_iff in H. destruct H as [B H]. exists g. split; [reflexivity|].
  split; [apply built_ok_spec, B|].
  destruct (has2 es) eqn:H2.
  - left. apply has2_ex in H2. destruct H2 as [a [b [Hab Hba]]].
    split; [|split].
    + apply (two_cycle_acyclicb n es a b); [|exact Hab|exact Hba].
      apply Hsrc in Hab. apply in_seq in Hab. lia.
    + intros A. apply (A a). eapply t_trans; apply t_step; eassumption.
    + apply topo_cyc_spec, H.
  - destruct (acyclicb n es) eqn:Ac.
    + right. rewrite !andb_true_iff in H. destruct H as [[[C T] R] K].
      split; [reflexivity|]. split; [eapply acyclic_on_true; eauto|].
      split; [|auto]. intros a b. split.
      * intros Hr. destruct (reachable_first _ _ _ Hr) as [c Hc]. apply Hsrc in Hc.
        split; [apply in_seq in Hc; lia|]. apply (closed_on_reach _ _ _ _ _ C Hc), Hr.
      * intros [_ Hr]. eapply reach1_sound, Hr.
    + left. split; [reflexivity|]. split; [eapply acyclic_on_false, Ac|apply topo_cyc_spec, H].
Qed.

(* ================================================================== *)
(* 4. the theorems on n <= 5 nodes                                     *)
(* ================================================================== *)

(* the boolean acyclicity test is the real thing, on this domain *)
Theorem acyclicb_correct_le5 : forall n m,
  n <= 5 -> (m < 2 ^ N.of_nat (n * (n - 1)))%N ->
  let es := edges_of_mask n m in
  (acyclicb n es = true <-> acyclic_rel es) /\
  (acyclicb n es = true -> forall a b, reachable es a b <-> a < n /\ In b (reach1 n es a)).
Proof.
  intros n m Hn Hm es. destruct (dag_check_fact n m (sweep_le5 n m Hn Hm)) as [g [_ [_ D]]].
  fold es in D. destruct D as [[A [NA _]]|[A [YA [R _]]]].
  - split; [split; [congruence|tauto]|congruence].
  - split; [tauto|intros _; exact R].
Qed.

Theorem toposort_correct_le5 : forall n m,
  n <= 5 -> (m < 2 ^ N.of_nat (n * (n - 1)))%N ->
  let es := edges_of_mask n m in
  exists g, graph_of n es = Ok g /\ g_abs g = Ok (List.seq 0 n, es) /\
    topological_sort g <> Raise EFuel /\
    (acyclicb n es = true <-> acyclic_rel es) /\
    (acyclic_rel es ->
       exists order, topological_sort g = Ok order /\
         valid_order (List.seq 0 n) es order = true /\
         NoDup order /\ (forall k, In k order <-> k < n) /\
         (forall a b, In (a, b) es ->
            exists i j, nth_error order i = Some a /\ nth_error order j = Some b /\ j < i)) /\
    (~ acyclic_rel es -> topological_sort g = Raise ECyclic).
Proof.
  intros n m Hn Hm es. destruct (dag_check_fact n m (sweep_le5 n m Hn Hm)) as [g [G [B D]]].
  fold es in G, B, D. exists g. split; [exact G|]. split; [exact B|].
  destruct D as [[A [NA T]]|[A [YA [_ [T _]]]]].
  - split; [rewrite T; discriminate|]. split; [split; [congruence|tauto]|]. split; [tauto|auto].
  - unfold topo_ok in T. destruct (topological_sort g) as [order|c] eqn:TS; [|discriminate].
    split; [discriminate|]. split; [tauto|]. split; [|tauto].
    intros _. exists order. split; [reflexivity|]. split; [exact T|].
    destruct (valid_order_spec _ _ _ T) as [ND [I P]]. split; [exact ND|]. split; [|exact P].
    intros k. rewrite I, in_seq. lia.
Qed.

Theorem reduction_minimal_le5 : forall n m,
  n <= 5 -> (m < 2 ^ N.of_nat (n * (n - 1)))%N ->
  let es := edges_of_mask n m in
  acyclic_rel es ->
  exists g g' es', graph_of n es = Ok g /\ transitive_reduction g = Ok g' /\
    g_abs g' = Ok (List.seq 0 n, es') /\
    (* reachability is preserved *)
    (forall a b, reachable es' a b <-> reachable es a b) /\
    reach_eqb (List.seq 0 n) es es' = true /\
    (* exactly the edges without an alternative path are kept *)
    (forall a b, In (a, b) es' <->
                 In (a, b) es /\ ~ exists c, reachable es a c /\ reachable es c b) /\
    (* every kept edge is needed: without it, its target is not reachable from its source *)
    (forall a b, In (a, b) es' -> ~ reachable (remove_edge (a, b) es') a b).
Proof.
  intros n m Hn Hm es Acy. destruct (dag_check_fact n m (sweep_le5 n m Hn Hm)) as [g [G [B D]]].
  fold es in G, B, D. destruct D as [[_ [NA _]]|[_ [_ [R [_ [Red _]]]]]]; [tauto|].
  exists g. unfold red_ok in Red. destruct (transitive_reduction g) as [g'|] eqn:TR; [|discriminate].
  destruct (g_abs g') as [[ns' es']|] eqn:GA; [|discriminate].
  rewrite !andb_true_iff in Red. destruct Red as [[[Ens Ees] Ereach] Eneed].
  apply nat_list_eqb in Ens. subst ns'. exists g', es'.
  split; [exact G|]. split; [reflexivity|]. split; [exact GA|].
  assert (Kept : forall a b, In (a, b) es' <->
                 In (a, b) es /\ ~ exists c, reachable es a c /\ reachable es c b).
  { intros a b. rewrite (proj1 (pset_eqb_spec _ _) Ees (a, b)), filter_In. cbn [fst snd].
    rewrite negb_true_iff. split; intros [H1 H2]; (split; [exact H1|]).
    - intros [c [Hac Hcb]]. apply R in Hac. apply R in Hcb.
      assert (X : alt_path n es a b = true); [|congruence].
      unfold alt_path. apply existsb_exists. exists c. split; [apply in_seq; lia|].
      apply andb_true_iff. split; apply mem_In; tauto.
    - destruct (alt_path n es a b) eqn:X; [|reflexivity]. exfalso. apply H2.
      unfold alt_path in X. apply existsb_exists in X. destruct X as [c [_ X]].
      apply andb_true_iff in X. destruct X as [X1 X2]. apply mem_In, reach1_sound in X1, X2.
      exists c. auto. }
  split; [|split; [exact Ereach|split; [exact Kept|]]].
  - intros a b. split.
    + apply reachable_incl. intros [x y] H. apply Kept in H. tauto.
    + intros H. apply R in H. destruct H as [La H].
      unfold reach_eqb in Ereach. rewrite forallb_forall in Ereach. rewrite seq_length in Ereach.
      assert (Ha : In a (List.seq 0 n)) by (apply in_seq; lia).
      specialize (Ereach _ Ha). eapply reach1_sound, (proj1 (set_eqb_spec _ _) Ereach), H.
  - intros a b Hab Hr. rewrite forallb_forall in Eneed. specialize (Eneed _ Hab).
    cbn [fst snd] in Eneed. apply andb_true_iff in Eneed. destruct Eneed as [E1 E2].
    apply (closed_complete _ _ _ E2) in Hr. apply mem_In in Hr. rewrite Hr in E1. discriminate.
Qed.

Theorem closure_maximal_le5 : forall n m,
  n <= 5 -> (m < 2 ^ N.of_nat (n * (n - 1)))%N ->
  let es := edges_of_mask n m in
  acyclic_rel es ->
  exists g g' es', graph_of n es = Ok g /\ transitive_closure g = Ok g' /\
    g_abs g' = Ok (List.seq 0 n, es') /\
    (* the edges of the closure are exactly the reachable pairs ... *)
    (forall a b, In (a, b) es' <-> reachable es a b) /\
    (forall a b, In (a, b) es' <-> a < n /\ In b (reach1 n es a)) /\
    (* ... so reachability is preserved, and adding any other edge would change it *)
    (forall a b, reachable es' a b <-> reachable es a b).
Proof.
  intros n m Hn Hm es Acy. destruct (dag_check_fact n m (sweep_le5 n m Hn Hm)) as [g [G [B D]]].
  fold es in G, B, D. destruct D as [[_ [NA _]]|[_ [_ [R [_ [_ Clo]]]]]]; [tauto|].
  exists g. unfold clo_ok in Clo. destruct (transitive_closure g) as [g'|] eqn:TR; [|discriminate].
  destruct (g_abs g') as [[ns' es']|] eqn:GA; [|discriminate].
  rewrite !andb_true_iff in Clo. destruct Clo as [Ens Ees].
  apply nat_list_eqb in Ens. subst ns'. exists g', es'.
  split; [exact G|]. split; [reflexivity|]. split; [exact GA|].
  assert (E1 : forall a b, In (a, b) es' <-> a < n /\ In b (reach1 n es a)).
  { intros a b. rewrite (proj1 (pset_eqb_spec _ _) Ees (a, b)), in_flat_map. split.
    - intros [x [Hx H]]. apply in_map_iff in H. destruct H as [y [E H]]. inversion E. subst.
      apply in_seq in Hx. split; [lia|exact H].
    - intros [L H]. exists a. split; [apply in_seq; lia|]. apply in_map, H. }
  assert (E2 : forall a b, In (a, b) es' <-> reachable es a b).
  { intros a b. rewrite E1. symmetry. apply R. }
  split; [exact E2|]. split; [exact E1|].
  intros a b. split.
  - induction 1 as [x y H|x y z _ IH1 _ IH2]; [apply E2, H|eapply t_trans; eauto].
  - intros H. apply t_step, E2, H.
Qed.

(* ================================================================== *)
(* 5. flatten: one nested graph                                        *)
(* ================================================================== *)

(* register 0: the outer graph; its node 3 = gkey 1 is the graph held in register 1 *)
Definition nested : key := gkey 1.
Definition vtop : key := 1.   (* fresh keys: no node of the sweep has key 1 or 5 *)
Definition vbot : key := 5.

(* the outer node lists (insertion orders) and the nested graph's node lists of the sweep *)
Definition outer_shapes : list (list key) :=
  [[0; 2; 4; 3]; [3; 0; 2; 4]; [0; 3; 2; 4];
   [0; 2; 3]; [3; 0; 2]; [0; 3; 2]; [0; 3]; [3; 0]].
Definition sub_shapes : list (list key) := [[]; [6]; [6; 8]].

(* the constraint relation the nested graph stands for: the nested node becomes top/bot *)
Definition virt (oes : list (key * key)) (sns : list key) (ses : list (key * key)) :=
  map (fun e => (if fst e =? nested then vbot else fst e,
                 if snd e =? nested then vtop else snd e)) oes
  ++ (vtop, vbot) :: map (fun s => (vtop, s)) sns ++ map (fun s => (s, vbot)) sns ++ ses.

Definition plain_of (ons sns : list key) : list key :=
  filter (fun k => negb (k =? nested)) ons ++ sns.

Definition fuel8 := 8.

Definition flat_ok (plain : list key) (ves : list (key * key)) (g' : cgraph) : bool :=
  match g_abs g' with
  | Ok (ns', es') =>
    set_eqb ns' plain && nodupb ns'
    && forallb (fun a =>
         let R1 := reach1 fuel8 es' a in
         let R2 := reach1 fuel8 ves a in
         closed_at es' a R1 && closed_at ves a R2
         && forallb (fun b => Bool.eqb (mem b R1) (mem b R2)) plain) plain
  | Raise _ => false
  end.

Definition flat_check (ons sns : list key) (mo ms : N) : bool :=
  let oes := edges_on ons mo in
  let ses := edges_on sns ms in
  match graph_on ons oes, graph_on sns ses with
  | Ok g, Ok sg =>
    let ves := virt oes sns ses in
    let plain := plain_of ons sns in
    built_ok ons oes g && built_ok sns ses sg &&
    (if acyclic_on (plain ++ [vtop; vbot]) fuel8 ves then
       match flatten 4 (sub_of [g; sg]) true g with
       | Ok g' => flat_ok plain ves g'
       | Raise _ => false
       end
     else true)
  | _, _ => false
  end.

Definition nbits (ns : list key) : nat := length ns * (length ns - 1).

Lemma sweep_flatten :
  forallb (fun ons => forallb (fun sns =>
    all_below (nbits ons) (fun mo => all_below (nbits sns) (flat_check ons sns mo) 0) 0)
    sub_shapes) outer_shapes = true.
Proof. vm_compute. reflexivity. Qed.

Theorem flatten_preserves_order_small : forall (ons sns : list key) (mo ms : N),
  In ons [[0; 2; 4; 3]; [3; 0; 2; 4]; [0; 3; 2; 4];
          [0; 2; 3]; [3; 0; 2]; [0; 3; 2]; [0; 3]; [3; 0]] ->
  In sns [[]; [6]; [6; 8]] ->
  (mo < 2 ^ N.of_nat (length ons * (length ons - 1)))%N ->
  (ms < 2 ^ N.of_nat (length sns * (length sns - 1)))%N ->
  let oes := edges_on ons mo in
  let ses := edges_on sns ms in
  let ves := virt oes sns ses in
  let plain := plain_of ons sns in
  acyclic_rel ves ->
  exists g sg g' ns' es',
    graph_on ons oes = Ok g /\ g_abs g = Ok (ons, oes) /\
    graph_on sns ses = Ok sg /\ g_abs sg = Ok (sns, ses) /\
    flatten 4 (sub_of [g; sg]) true g = Ok g' /\
    wstep [g; sg] (WFlatten 0 true) = Ok [g'; sg] /\
    g_abs g' = Ok (ns', es') /\
    NoDup ns' /\ (forall k, In k ns' <-> In k plain) /\
    (forall a b, In a plain -> In b plain -> (reachable es' a b <-> reachable ves a b)).
Proof.
  intros ons sns mo ms Ho Hs Hmo Hms oes ses ves plain Acy.
  change (In ons outer_shapes) in Ho. change (In sns sub_shapes) in Hs.
  pose proof sweep_flatten as S. rewrite forallb_forall in S. specialize (S _ Ho).
  rewrite forallb_forall in S. specialize (S _ Hs).
  pose proof (all_below_spec _ _ _ S mo) as S1. cbv beta in S1.
  assert (S2 : flat_check ons sns mo ms = true).
  { apply (all_below_spec _ _ _ (S1 ltac:(unfold nbits; lia))). unfold nbits. lia. }
  clear S S1. unfold flat_check in S2. fold oes ses in S2. fold ves plain in S2.
  destruct (graph_on ons oes) as [g|] eqn:G1; [|discriminate].
  destruct (graph_on sns ses) as [sg|] eqn:G2; [|discriminate].
  rewrite !andb_true_iff in S2. destruct S2 as [[B1 B2] F].
  destruct (acyclic_on (plain ++ [vtop; vbot]) fuel8 ves) eqn:Ac;
    [|exfalso; exact (acyclic_on_false _ _ _ Ac Acy)].
  destruct (flatten 4 (sub_of [g; sg]) true g) as [g'|] eqn:FL; [|discriminate].
  unfold flat_ok in F. destruct (g_abs g') as [[ns' es']|] eqn:GA; [|discriminate].
  rewrite !andb_true_iff in F. destruct F as [[F1 F2] F3].
  exists g, sg, g', ns', es'.
  split; [first [reflexivity|exact G1]|]. split; [apply built_ok_spec, B1|].
  split; [first [reflexivity|exact G2]|]. split; [apply built_ok_spec, B2|].
  split; [first [reflexivity|exact FL]|]. split.
  { unfold wstep, wget. cbn [nth_error bind length Nat.add]. rewrite FL. reflexivity. }
  split; [first [reflexivity|exact GA]|]. split; [apply nodupb_NoDup, F2|].
  split; [apply set_eqb_spec, F1|].
  intros a b Ha Hb. rewrite forallb_forall in F3. specialize (F3 _ Ha). cbv zeta in F3.
  rewrite !andb_true_iff in F3. destruct F3 as [[C1 C2] E].
  rewrite forallb_forall in E. specialize (E _ Hb). apply eqb_prop in E.
  split; intros H.
  - apply (closed_complete _ _ _ C1), mem_In in H. rewrite E in H. eapply reach1_sound, mem_In, H.
  - apply (closed_complete _ _ _ C2), mem_In in H. rewrite <- E in H. eapply reach1_sound, mem_In, H.
Qed.

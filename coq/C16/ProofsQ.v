(* C16 — the remaining observables: depends(), <= and == report the plain graph. *)
From Coq Require Import List Arith Bool PeanoNat Lia.
From VV Require Import Lib.Base C16.Model C16.Inv C16.ProofsR C16.ProofsG.
Import ListNotations.

Lemma forallM_spec {A} (f : A -> res bool) (P : A -> Prop) l :
  (forall x, In x l -> exists b, f x = Ok b /\ (b = true <-> P x)) ->
  exists r, forallM f l = Ok r /\ (r = true <-> forall x, In x l -> P x).
Proof.
  induction l as [|a t IH]; intros H; cbn.
  - exists true. split; [reflexivity|]. split; [intros _ x []|reflexivity].
  - destruct (H a (or_introl eq_refl)) as (b & -> & Hb). cbn [bind].
    destruct IH as (r & E & Hr); [intros x Hx; apply H; now right|].
    destruct b.
    + exists r. split; [exact E|]. rewrite Hr. split.
      * intros Ht x [<-|Hx]; [now apply Hb|auto].
      * intros Ht x Hx. apply Ht. now right.
    + exists false. split; [reflexivity|]. split; [discriminate|].
      intros Ht. apply Hb, Ht. now left.
Qed.

(* depends(a, b) without recursion *)
Lemma depends_ok g a b : g_ok g ->
  match depends g a b false with
  | Ok r => cnode g a /\ cnode g b /\ (r = true <-> cedge g a b)
  | Raise c => c = EValue /\ (~ cnode g a \/ ~ cnode g b)
  end.
Proof.
  intros OK. assert (RO : rl_ok (nodes g)) by apply OK.
  assert (ND : NoDup (seq (nodes g))) by (apply rl_ok_view in RO; tauto).
  unfold depends. rewrite !(rl_index_pos _ RO).
  destruct (pos a (seq (nodes g))) as [ia|] eqn:Pa; cbn [bind];
    [|split; [reflexivity|left; now apply pos_None]].
  destruct (pos b (seq (nodes g))) as [ib|] eqn:Pb; cbn [bind];
    [|split; [reflexivity|right; now apply pos_None]].
  pose proof (pos_nth _ _ _ Pa) as Ha. pose proof (pos_nth _ _ _ Pb) as Hb.
  pose proof (nth_lt _ _ _ Ha) as La.
  destruct (edges_at _ OK _ La) as [s Hs]. unfold dgetE. rewrite Hs. cbn [bind].
  replace (glen g + 2) with (S (glen g + 1)) by lia. cbn [depends_loop].
  assert (EQ : (match s with
                | [] => Ok false
                | _ :: _ => if mem ib s then Ok true else if negb false then Ok false
                            else do nxt <- foldM (fun acc i => do s0 <- dgetE i (edges g); Ok (sunion acc s0)) s [];
                                 depends_loop (glen g + 1) g ib nxt false
                end) = Ok (mem ib s)).
  { destruct s as [|x t]; [reflexivity|]. destruct (mem ib (x :: t)); reflexivity. }
  rewrite EQ. split; [eapply nth_error_In, Ha|]. split; [eapply nth_error_In, Hb|].
  rewrite mem_In. split.
  - intros H. exists ia, ib, s. auto.
  - intros (i & j & s' & Hi & Hj & Hs' & Hin).
    assert (i = ia) by exact (nth_NoDup _ _ _ _ ND Hi Ha). subst i.
    assert (j = ib) by exact (nth_NoDup _ _ _ _ ND Hj Hb). subst j.
    assert (s' = s) by congruence. now subst.
Qed.

Lemma cedge_cnode g a b : cedge g a b -> cnode g a /\ cnode g b.
Proof.
  intros (i & j & s & Ha & Hb & _). split; eapply nth_error_In; eauto.
Qed.

(* g <= h : sub-graph *)
Lemma le_ok g h : g_ok g -> g_ok h ->
  exists r, le g h = Ok r /\
    (r = true <-> (forall k, cnode g k -> cnode h k) /\ (forall x y, cedge g x y -> cedge h x y)).
Proof.
  intros OKg OKh. assert (ROh : rl_ok (nodes h)) by apply OKh. unfold le.
  destruct (forallb (rl_contains (nodes h)) (seq (nodes g))) eqn:FB.
  - rewrite forallb_forall in FB.
    assert (SUB : forall k, cnode g k -> cnode h k).
    { intros k Hk. apply (rl_contains_spec _ ROh), FB, Hk. }
    destruct (forallM_spec
                (fun node => do ds <- dependencies g node false;
                             forallM (fun dep => depends h node dep false) ds)
                (fun node => forall y, cedge g node y -> cedge h node y)
                (seq (nodes g))) as (r & -> & Hr).
    + intros x Hx. pose proof (dependencies_ok g x OKg) as D.
      destruct (dependencies g x false) as [l|c]; [|destruct D as [_ D]; contradiction].
      destruct D as [_ D]. cbn [bind].
      destruct (forallM_spec (fun dep => depends h x dep false) (fun y => cedge h x y) l)
        as (b & E & Hb).
      * intros y Hy. apply D in Hy. pose proof (depends_ok h x y OKh) as DP.
        destruct (depends h x y false) as [b|c].
        -- exists b. split; [reflexivity|]. tauto.
        -- destruct DP as [_ [N|N]]; exfalso; apply N, SUB; [exact Hx|].
           apply (cedge_cnode g x y Hy).
      * exists b. split; [exact E|]. rewrite Hb. split.
        -- intros H y Hy. apply H, D, Hy.
        -- intros H y Hy. apply H, D, Hy.
    + exists r. split; [reflexivity|]. rewrite Hr. split.
      * intros H. split; [exact SUB|]. intros x y Hxy. apply (H x); [|exact Hxy].
        apply (cedge_cnode g x y Hxy).
      * intros [_ H] x _ y Hxy. apply H, Hxy.
  - exists false. split; [reflexivity|]. split; [discriminate|]. intros [SUB _].
    assert (X : forallb (rl_contains (nodes h)) (seq (nodes g)) = true); [|congruence].
    apply forallb_forall. intros k Hk. apply (rl_contains_spec _ ROh), SUB, Hk.
Qed.

(* ----- g == h ----- *)
Section Iso.
Variables g h : cgraph.
Hypothesis OKg : g_ok g.
Hypothesis OKh : g_ok h.

Let G := seq (nodes g).
Let H := seq (nodes h).
Let ROg : rl_ok (nodes g). Proof. apply OKg. Qed.
Let ROh : rl_ok (nodes h). Proof. apply OKh. Qed.
Let NDg : NoDup G. Proof. apply rl_ok_view in ROg. tauto. Qed.
Let NDh : NoDup H. Proof. apply rl_ok_view in ROh. tauto. Qed.

(* both maps represent { (i, o) | i < m, G[i] = H[o] } *)
Definition rel_io (m i o : nat) : Prop :=
  i < m /\ exists k, nth_error G i = Some k /\ nth_error H o = Some k.

Definition inv_io (m : nat) (i2o o2i : list (nat * nat)) : Prop :=
  (forall i o, dget i i2o = Some o <-> rel_io m i o) /\
  (forall o i, dget o o2i = Some i <-> rel_io m i o).

Definition iso_step (size : nat) (st : option (list (nat * nat) * list (nat * nat))) (p : nat * key) :=
  match st with
  | None => Ok None
  | Some (i2o, o2i) =>
    do oi <- rl_get_index (nodes h) (snd p);
    match oi with
    | None => Ok None
    | Some o => if o <? size then Ok (Some (dset (fst p) o i2o, dset o (fst p) o2i))
                else Raise EIndex
    end
  end.

Lemma iso_fold_none size l m : foldM (iso_step size) (enumerate_from m l) None = Ok None.
Proof. revert m; induction l as [|k t IH]; intros m; cbn; [reflexivity|apply IH]. Qed.

Lemma iso_fold l : forall m i2o o2i,
  length H <= glen g ->
  (forall j k, nth_error l j = Some k -> nth_error G (m + j) = Some k) ->
  inv_io m i2o o2i ->
  exists st, foldM (iso_step (glen g)) (enumerate_from m l) (Some (i2o, o2i)) = Ok st /\
    match st with
    | None => exists k, In k l /\ ~ In k H
    | Some (a, b) => inv_io (m + length l) a b /\ forall k, In k l -> In k H
    end.
Proof.
  induction l as [|k t IH]; intros m i2o o2i LH HL INV; cbn [enumerate_from foldM length].
  - exists (Some (i2o, o2i)). split; [reflexivity|]. rewrite Nat.add_0_r. split; [exact INV|intros k []].
  - cbn [iso_step fst snd]. rewrite (rl_get_index_pos _ ROh). cbn [bind].
    fold H. destruct (pos k H) as [o|] eqn:P.
    + pose proof (pos_lt _ _ _ P) as Lo. pose proof (pos_nth _ _ _ P) as Ho.
      assert (Lg : o < glen g) by (unfold key in *; lia). apply Nat.ltb_lt in Lg. rewrite Lg. cbn [bind].
      assert (Gm : nth_error G m = Some k) by (rewrite <- (Nat.add_0_r m); apply HL; reflexivity).
      destruct (IH (S m) (dset m o i2o) (dset o m o2i) LH) as (st & E & HS).
      * intros j k' Hj. replace (S m + j) with (m + S j) by lia. apply HL. exact Hj.
      * destruct INV as [I1 I2]. split.
        -- intros i o'. rewrite dget_dset. destruct (Nat.eqb_spec m i).
           ++ subst i. split.
              ** intros [= <-]. split; [lia|]. exists k. auto.
              ** intros (_ & k' & Hk1 & Hk2). f_equal.
                 assert (k' = k) by (unfold key in *; congruence). subst k'.
                 exact (nth_NoDup _ _ _ _ NDh Ho Hk2).
           ++ rewrite I1. unfold rel_io. split; intros (Li & R); (split; [lia|exact R]).
        -- intros o' i. rewrite dget_dset. destruct (Nat.eqb_spec o o').
           ++ subst o'. split.
              ** intros [= <-]. split; [lia|]. exists k. auto.
              ** intros (_ & k' & Hk1 & Hk2). f_equal.
                 assert (k' = k) by (unfold key in *; congruence). subst k'.
                 exact (nth_NoDup _ _ _ _ NDg Gm Hk1).
           ++ rewrite I2. unfold rel_io. split; intros (Li & k' & Hk1 & Hk2).
              ** split; [lia|]. eauto.
              ** split; [|eauto]. destruct (Nat.eq_dec i m) as [->|]; [|lia].
                 assert (k' = k) by (unfold key in *; congruence). subst k'.
                 exfalso. apply n. exact (nth_NoDup _ _ _ _ NDh Ho Hk2).
      * exists st. split; [exact E|]. destruct st as [[a b]|].
        -- destruct HS as [HI HIn]. replace (m + S (length t)) with (S m + length t) by lia.
           split; [exact HI|]. intros k' [<-|Hk']; [eapply nth_error_In, Ho|auto].
        -- destruct HS as (k' & Hk' & N). exists k'. split; [now right|exact N].
    + cbn [bind]. rewrite iso_fold_none. exists None. split; [reflexivity|].
      exists k. split; [now left|]. now apply pos_None.
Qed.

Lemma same_nodes_length : (forall k, In k G <-> In k H) -> length G = length H.
Proof.
  intros S. apply Nat.le_antisymm; apply NoDup_incl_length; auto; intros k Hk; now apply S.
Qed.

Theorem isomorphic_ok :
  exists r, isomorphic g h = Ok r /\
    (r = true <-> (forall k, cnode g k <-> cnode h k) /\ (forall x y, cedge g x y <-> cedge h x y)).
Proof.
  unfold isomorphic. destruct (Nat.eqb_spec (glen g) (glen h)) as [EL|NL]; cbn [negb].
  2:{ exists false. split; [reflexivity|]. split; [discriminate|]. intros [S _].
      exfalso. apply NL. apply same_nodes_length. exact S. }
  fold (iso_step (glen g)).
  destruct (iso_fold G 0 [] []) as (st & E & HS).
  { unfold H, glen in *. lia. }
  { intros j k Hj. exact Hj. }
  { split; intros a b; cbn; split; try discriminate; intros [L _]; lia. }
  unfold enumerate. fold G. rewrite E. cbn [bind].
  destruct st as [[i2o o2i]|].
  2:{ destruct HS as (k & Hk & N). exists false. split; [reflexivity|]. split; [discriminate|].
      intros [S _]. exfalso. apply N, S, Hk. }
  destruct HS as [[I1 I2] SUB]. cbn [Nat.add] in I1, I2.
  assert (LG : length G = glen g) by reflexivity.
  destruct (forallb (fun o => match dget o o2i with Some _ => true | None => false end)
                    (List.seq 0 (glen g))) eqn:TOT; cbn [negb].
  2:{ exists false. split; [reflexivity|]. split; [discriminate|]. intros [S _].
      assert (X : forallb (fun o => match dget o o2i with Some _ => true | None => false end)
                          (List.seq 0 (glen g)) = true); [|congruence].
      apply forallb_forall. intros o Ho. apply in_seq in Ho.
      destruct (nth_error H o) as [k|] eqn:Hk;
        [|apply nth_error_None in Hk; unfold H, glen in *; lia].
      assert (Hg : In k G) by (apply S; eapply nth_error_In, Hk).
      apply In_nth_error in Hg. destruct Hg as [i Hi].
      assert (R : rel_io (length G) i o).
      { split; [apply nth_error_Some; congruence|]. eauto. }
      apply I2 in R. now rewrite R. }
  rewrite forallb_forall in TOT.
  assert (SAME : forall k, cnode g k <-> cnode h k).
  { intros k. split; [apply SUB|]. intros Hk. apply In_nth_error in Hk. destruct Hk as [o Ho].
    assert (Lo : o < glen g) by (rewrite EL; apply nth_error_Some; unfold key in *; congruence).
    assert (T := TOT o ltac:(apply in_seq; lia)).
    destruct (dget o o2i) as [i|] eqn:D; [|discriminate].
    apply I2 in D. destruct D as (_ & k' & Hk1 & Hk2).
    assert (k' = k) by (unfold H, key in *; congruence). subst. eapply nth_error_In, Hk1. }
  (* the edges *)
  destruct (forallM_spec
    (fun p : nat * list nat =>
       match dget (fst p) i2o with
       | None => Raise EIndex
       | Some o =>
         do ovs <- dgetE o (edges h);
         do back <- mapM (fun x => match dget x o2i with Some i => Ok i | None => Raise EIndex end) ovs;
         Ok (forallb (fun x => mem x back) (snd p) && forallb (fun x => mem x (snd p)) back)
       end)
    (fun p => forall x, nth_error G (fst p) = Some x -> forall y, cedge g x y <-> cedge h x y)
    (edges g)) as (r & -> & Hr).
  - intros [i s] Hp. cbn [fst snd]. apply In_dget in Hp; [|apply OKg].
    pose proof (edges_lt _ OKg _ _ Hp) as Li.
    destruct (node_at g i Li) as [x Hx]. fold G in Hx.
    assert (Hxh : In x H) by (apply SUB; eapply nth_error_In, Hx).
    apply In_nth_error in Hxh. destruct Hxh as [o Ho].
    assert (R : rel_io (length G) i o) by (split; [rewrite LG; exact Li|eauto]).
    pose proof (proj2 (I1 i o) R) as D. rewrite D.
    assert (Lo : o < glen h) by (apply nth_error_Some; unfold H, key in *; congruence).
    destruct (edges_at _ OKh _ Lo) as [ovs Hovs]. unfold dgetE. rewrite Hovs. cbn [bind].
    (* the back translation *)
    assert (BK : exists back, mapM (fun x => match dget x o2i with Some i => Ok i | None => Raise EIndex end) ovs
                              = Ok back /\ Forall2 (fun o' i' => rel_io (length G) i' o') ovs back).
    { assert (T : forall o', In o' ovs -> o' < glen g).
      { intros o' Ho'. rewrite EL. destruct OKh as (_ & _ & _ & TG). eapply TG; eauto. }
      clear Hovs. induction ovs as [|o' t IH]; cbn.
      - exists []. split; [reflexivity|constructor].
      - assert (T' := TOT o' ltac:(apply in_seq; split; [lia|apply T; now left])).
        destruct (dget o' o2i) as [i'|] eqn:D'; [|discriminate]. cbn [bind].
        destruct IH as (back & -> & F); [intros; apply T; now right|]. cbn [bind].
        exists (i' :: back). split; [reflexivity|]. constructor; [now apply I2|exact F]. }
    destruct BK as (back & -> & F). cbn [bind]. eexists. split; [reflexivity|].
    rewrite andb_true_iff, !forallb_forall.
    assert (KEY : forall j, In j back <-> exists y, nth_error G j = Some y /\ cedge h x y).
    { intros j. split.
      - intros Hj. destruct (Forall2_In_r _ _ _ _ F Hj) as (o' & Ho' & (_ & y & Hy1 & Hy2)).
        exists y. split; [exact Hy1|]. exists o, o', ovs. auto.
      - intros (y & Hy & (o1 & o' & s' & H1 & H2 & H3 & H4)).
        assert (o1 = o) by exact (nth_NoDup _ _ _ _ NDh H1 Ho). subst o1.
        assert (s' = ovs) by congruence. subst s'.
        destruct (Forall2_In_l _ _ _ _ F H4) as (j' & Hj' & (_ & y' & Hy1 & Hy2)).
        assert (y' = y) by (unfold H, key in *; congruence). subst y'.
        assert (j' = j) by exact (nth_NoDup _ _ _ _ NDg Hy1 Hy). now subst. }
    split.
    + intros [A B] x' Hx' y. assert (x' = x) by (unfold key in *; congruence). subst x'. split.
      * intros (i1 & j & s1 & H1 & H2 & H3 & H4).
        assert (i1 = i) by exact (nth_NoDup _ _ _ _ NDg H1 Hx). subst i1.
        assert (s1 = s) by congruence. subst s1.
        apply A, mem_In, KEY in H4. destruct H4 as (y' & Hy' & C).
        assert (y' = y) by (unfold G, key in *; congruence). now subst.
      * intros C. pose proof (cedge_cnode h x y C) as [_ Cy]. apply SAME in Cy.
        apply In_nth_error in Cy. destruct Cy as [j Hj]. fold G in Hj.
        assert (Hb : In j back) by (apply KEY; eauto).
        apply B, mem_In in Hb. exists i, j, s. auto.
    + intros HE. specialize (HE x Hx). split.
      * intros j Hj. apply mem_In, KEY.
        destruct OKg as (_ & _ & _ & TG). pose proof (TG _ _ _ Hp Hj) as Lj.
        destruct (node_at g j Lj) as [y Hy]. exists y. split; [exact Hy|].
        apply HE. exists i, j, s. auto.
      * intros j Hj. apply mem_In. apply KEY in Hj. destruct Hj as (y & Hy & C).
        apply HE in C. destruct C as (i1 & j1 & s1 & H1 & H2 & H3 & H4).
        assert (i1 = i) by exact (nth_NoDup _ _ _ _ NDg H1 Hx). subst i1.
        assert (s1 = s) by congruence. subst s1.
        assert (j1 = j) by exact (nth_NoDup _ _ _ _ NDg H2 Hy). now subst.
  - exists r. split; [reflexivity|]. rewrite Hr. split.
    + intros HA. split; [exact SAME|]. intros x y. split.
      * intros C. pose proof C as (i & j & s & H1 & H2 & H3 & H4).
        apply (HA (i, s)); [apply dget_In, H3|exact H1|exact C].
      * intros C. pose proof (cedge_cnode h x y C) as [Cx _]. apply SAME in Cx.
        apply In_nth_error in Cx. destruct Cx as [i Hi].
        pose proof (nth_lt _ _ _ Hi) as Li. destruct (edges_at _ OKg _ Li) as [s Hs].
        apply (HA (i, s)); [apply dget_In, Hs|exact Hi|exact C].
    + intros [_ HE] p _ x _ y. apply HE.
Qed.
End Iso.

(* C16 — representation invariant, abstraction function and the relations the
   theorems are stated with.  Definitions only. *)
From Coq Require Import List Arith Bool PeanoNat Relations.
From VV Require Import Lib.Base C16.Model.
Import ListNotations.

(* RList: the reverse index agrees with the sequence, no node twice *)
Definition rl_ok (r : rlist) : Prop :=
  NoDup (seq r) /\ NoDup (map fst (index r)) /\
  forall k l, dget k (index r) = Some l <-> exists i, l = [i] /\ nth_error (seq r) i = Some k.

(* DepGraph: edge keys are exactly the positions 0..n-1, targets are positions *)
Definition g_ok (g : cgraph) : Prop :=
  rl_ok (nodes g) /\ NoDup (map fst (edges g)) /\
  (forall i, i < glen g <-> dget i (edges g) <> None) /\
  (forall i s j, dget i (edges g) = Some s -> In j s -> j < glen g).

(* the mathematical graph a concrete graph stands for *)
Definition cnode (g : cgraph) (k : key) : Prop := In k (seq (nodes g)).
Definition cedge (g : cgraph) (a b : key) : Prop :=
  exists i j s, nth_error (seq (nodes g)) i = Some a /\ nth_error (seq (nodes g)) j = Some b /\
                dget i (edges g) = Some s /\ In j s.

Definition acyclic (g : cgraph) : Prop := forall a, ~ clos_trans key (cedge g) a a.

(* [b] is listed strictly before [a] *)
Definition before (b a : key) (order : list key) : Prop :=
  exists l1 l2 l3, order = l1 ++ b :: l2 ++ a :: l3.

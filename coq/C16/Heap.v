(* C16 — heap-level model of DepGraph: the identity of the mutable objects.

   In C16/Model.v a graph is a value, so "a copy is independent of the
   original" holds by construction and says nothing about aliasing.  Here the
   mutable Python objects a DepGraph is made of get an identity ([ref]):
     - every [set] held in [self._edges] (contents: a list of ints),
     - the [RList] held in [self._nodes] (contents: an [rlist]),
     - the local [list] objects [invert] builds (contents: a list of ints).
   A [store] maps identities to contents and knows the next free identity.
   A heap graph [hgraph] is the identity of its RList and the dict
   key -> identity of the set (the dict object itself is owned by the graph and
   kept by value: every constructor builds its own dict, depgraph.py 336/341).
   Each operation is transcribed in store-passing style, saying for every
   Python statement whether it ALLOCATES a fresh object or MUTATES one in place.

   Proved (all Qed, closed under the global context):
     - simulation ([h_*_spec], [hstep_sim], [hrun_sim]): erasing the identities
       turns every heap operation into the operation of C16/Model.v, with EXACT
       equality of the erased [cgraph] (same association lists, same RList) and
       the same exceptions; the alphabet is the whole of Model.wop
       ([to_wop_onto]);
     - separation [sep]: all objects of all graphs of a world are allocated,
       pairwise distinct inside a graph and disjoint between graphs; it holds
       for the empty world and every operation preserves it ([sep_empty],
       [hstep_sep], [sep_invariant]);
     - frame ([hspec], [hspec_frame], [hstep_frame]): an operation writes only
       objects owned by its target or freshly allocated, so every other graph
       of the world is the same object erasing to the same value;
     - [copy_independent]: for all histories, and [copy_independent_model],
       the same statement read in the functional model.
   [copy_sharing_refuted]: with a copy that shares the set objects
   ([_complete] returning [dict(complete_dct)]) the statement is false, although
   that copy erases to the same value ([copy_sharing_same_value]).

   Conventions kept from C16/Model.v (they were checked against the
   implementation there, and are NOT re-examined here):
     - an operation that raises leaves the world as it is (the partial
       mutations Python would leave behind are not modelled);
     - merge / + / graft / flatten READ the other graph up front (Python reads
       it lazily while it mutates self).  For another register this is
       harmless by [hspec_frame] (the other graph erases to the same value in
       every intermediate store); no lazy-reading variant is defined or proved
       equivalent here.  For r += r and a graph grafted into itself it is
       Model.v's convention.
   Not modelled as objects: the dict held in [_edges] (by value, see above),
   the temporary RList of copy(), the to_remove / to_add sets of
   transitive_reduction / transitive_closure (locals, never stored). *)
From Coq Require Import List Arith Bool PeanoNat Lia.
From VV Require Import Lib.Base C16.Model C16.Inv C16.ProofsR C16.ProofsG.
Import ListNotations.

(* ================= the store ================= *)
Definition ref := nat.

Record store := mkS { cont : ref -> list nat; rcont : ref -> rlist; next : nat }.

Definition upd {A} (f : nat -> A) (r : nat) (v : A) : nat -> A :=
  fun r' => if r' =? r then v else f r'.

Definition st_empty : store := mkS (fun _ => []) (fun _ => rl_empty) 0.
Definition sget (st : store) (r : ref) : list nat := cont st r.
Definition rget (st : store) (r : ref) : rlist := rcont st r.
(* in-place mutation of an existing object *)
Definition sput (st : store) (r : ref) (v : list nat) : store :=
  mkS (upd (cont st) r v) (rcont st) (next st).
Definition rput (st : store) (r : ref) (v : rlist) : store :=
  mkS (cont st) (upd (rcont st) r v) (next st).
(* a fresh object *)
Definition alloc (st : store) (v : list nat) : store * ref :=
  (mkS (upd (cont st) (next st) v) (rcont st) (S (next st)), next st).
Definition allocR (st : store) (v : rlist) : store * ref :=
  (mkS (cont st) (upd (rcont st) (next st) v) (S (next st)), next st).

Lemma upd_eq {A} (f : nat -> A) r v : upd f r v r = v.
Proof. unfold upd. now rewrite Nat.eqb_refl. Qed.

Lemma upd_neq {A} (f : nat -> A) r v r' : r' <> r -> upd f r v r' = f r'.
Proof. unfold upd. intros H. destruct (Nat.eqb_spec r' r); [contradiction|reflexivity]. Qed.

(* the object [r] has the same contents in both stores *)
Definition same (st st' : store) (r : ref) : Prop :=
  sget st' r = sget st r /\ rget st' r = rget st r.

Lemma same_refl st r : same st st r.
Proof. split; reflexivity. Qed.

Lemma same_trans st1 st2 st3 r : same st1 st2 r -> same st2 st3 r -> same st1 st3 r.
Proof. unfold same. intros [A B] [C D]. split; congruence. Qed.

(* [st'] is [st] plus fresh objects *)
Definition ext (st st' : store) : Prop :=
  next st <= next st' /\ forall r, r < next st -> same st st' r.

Lemma ext_refl st : ext st st.
Proof. split; [lia|intros; apply same_refl]. Qed.

Lemma ext_trans st1 st2 st3 : ext st1 st2 -> ext st2 st3 -> ext st1 st3.
Proof.
  intros [L1 S1] [L2 S2]. split; [lia|]. intros r Hr.
  eapply same_trans; [apply S1, Hr | apply S2; lia].
Qed.

Lemma alloc_ext st v : ext st (fst (alloc st v)).
Proof.
  split; cbn; [lia|]. intros r Hr. split; cbn; [|reflexivity].
  apply upd_neq. lia.
Qed.

Lemma allocR_ext st v : ext st (fst (allocR st v)).
Proof.
  split; cbn; [lia|]. intros r Hr. split; cbn; [reflexivity|].
  apply upd_neq. lia.
Qed.

(* ================= dictionaries key -> identity ================= *)
Lemma dmap_dset {V W} (f : V -> W) k v d : dmap f (dset k v d) = dset k (f v) (dmap f d).
Proof.
  induction d as [|[k0 v0] r IH]; cbn; [reflexivity|].
  destruct (k0 =? k); cbn; [reflexivity|]. f_equal. exact IH.
Qed.

Lemma dmap_ddel {V W} (f : V -> W) k d : dmap f (ddel k d) = ddel k (dmap f d).
Proof.
  unfold ddel. induction d as [|[k0 v0] r IH]; cbn; [reflexivity|].
  destruct (k0 =? k); cbn; [exact IH|]. f_equal. exact IH.
Qed.

Lemma dmap_dmap {U V W} (f : U -> V) (g : V -> W) d : dmap g (dmap f d) = dmap (fun x => g (f x)) d.
Proof. unfold dmap. rewrite map_map. reflexivity. Qed.

Lemma dmap_length {V W} (f : V -> W) d : length (dmap f d) = length d.
Proof. apply map_length. Qed.

Lemma dmap_ext_in {V W} (f g : V -> W) d :
  (forall r, In r (map snd d) -> f r = g r) -> dmap f d = dmap g d.
Proof.
  intros H. unfold dmap. apply map_ext_in. intros p Hp. f_equal. apply H.
  now apply in_map.
Qed.

Lemma dgetE_dmap {V W} (f : V -> W) k d :
  dgetE k (dmap f d) = match dgetE k d with Ok v => Ok (f v) | Raise c => Raise c end.
Proof. unfold dgetE. rewrite dget_dmap. destruct (dget k d); reflexivity. Qed.

Lemma dget_refs {V} k (v : V) d : dget k d = Some v -> In v (map snd d).
Proof. intros H. apply dget_In in H. change v with (snd (k, v)). now apply in_map. Qed.

Lemma refs_dset {V} k (v r : V) d : In r (map snd (dset k v d)) -> r = v \/ In r (map snd d).
Proof.
  induction d as [|[k0 v0] t IH]; cbn; [intuition|].
  destruct (k0 =? k); cbn; intuition.
Qed.

Lemma refs_ddel {V} k (r : V) d : In r (map snd (ddel k d)) -> In r (map snd d).
Proof.
  unfold ddel. intros H. apply in_map_iff in H. destruct H as [p [E Hp]].
  apply filter_In in Hp. subst. apply in_map, Hp.
Qed.

Lemma NoDup_refs_dset {V} k (v : V) d :
  NoDup (map snd d) -> ~ In v (map snd d) -> NoDup (map snd (dset k v d)).
Proof.
  induction d as [|[k0 v0] t IH]; cbn; intros ND Hv.
  - constructor; [auto|constructor].
  - inversion ND as [|? ? Hn ND']; subst. destruct (k0 =? k); cbn.
    + constructor; [tauto|exact ND'].
    + constructor; [|apply IH; tauto].
      intros H. apply refs_dset in H. destruct H as [->|H]; tauto.
Qed.

(* mutating the set object [r] in place = rebinding the key that holds it,
   PROVIDED no other key holds the same object *)
Lemma dmap_sput st k r v d :
  NoDup (map snd d) -> dget k d = Some r ->
  dmap (sget (sput st r v)) d = dset k v (dmap (sget st) d).
Proof.
  induction d as [|[k0 r0] t IH]; cbn; [discriminate|]. intros ND H.
  inversion ND as [|? ? Hn ND']; subst.
  destruct (Nat.eqb_spec k0 k).
  - injection H as ->. subst. unfold sget at 1. cbn. rewrite upd_eq. f_equal.
    apply dmap_ext_in. intros r' Hr'. unfold sget; cbn. apply upd_neq. intros ->. contradiction.
  - f_equal.
    + f_equal. unfold sget; cbn. apply upd_neq. intros ->. apply Hn. eapply dget_refs, H.
    + apply IH; assumption.
Qed.

(* ================= heap graphs ================= *)
Record hgraph := mkH { hnodes : ref; hedges : list (nat * ref) }.

(* the objects a graph is made of *)
Definition owns (h : hgraph) : list ref := hnodes h :: map snd (hedges h).

(* forgetting the identities *)
Definition erase (st : store) (h : hgraph) : cgraph :=
  mkG (rget st (hnodes h)) (dmap (sget st) (hedges h)).

(* the objects of [h] are allocated and pairwise distinct *)
Definition hwf (st : store) (h : hgraph) : Prop :=
  NoDup (owns h) /\ forall r, In r (owns h) -> r < next st.

(* the partial erasure asked for: None when an identity dangles *)
Definition erase_opt (st : store) (h : hgraph) : option cgraph :=
  if forallb (fun r => r <? next st) (owns h) then Some (erase st h) else None.

Lemma erase_opt_wf st h : hwf st h -> erase_opt st h = Some (erase st h).
Proof.
  intros [_ A]. unfold erase_opt. replace (forallb _ _) with true; [reflexivity|].
  symmetry. apply forallb_forall. intros r Hr. apply Nat.ltb_lt, A, Hr.
Qed.

Lemma erase_same st st' h : (forall r, In r (owns h) -> same st st' r) -> erase st' h = erase st h.
Proof.
  intros H. unfold erase. f_equal.
  - apply H. now left.
  - apply dmap_ext_in. intros r Hr. apply H. now right.
Qed.

(* What an operation may do to the heap.  [W] = the objects it may write
   (those its target owns); the result [h'] is well formed in the new store, is
   made of objects of [W] and of fresh ones, and no allocated object outside
   [W] changed. *)
Definition hspec (st : store) (W : list ref) (st' : store) (h' : hgraph) : Prop :=
  hwf st' h' /\ next st <= next st' /\
  (forall r, In r (owns h') -> In r W \/ next st <= r) /\
  (forall r, r < next st -> ~ In r W -> same st st' r).

Lemma hspec_refl st h : hwf st h -> hspec st (owns h) st h.
Proof.
  intros WF. split; [exact WF|]. split; [lia|]. split; [auto|]. intros; apply same_refl.
Qed.

Lemma hspec_trans st W st1 h1 st2 h2 :
  hspec st W st1 h1 -> hspec st1 (owns h1) st2 h2 -> hspec st W st2 h2.
Proof.
  intros (WF1 & L1 & O1 & F1) (WF2 & L2 & O2 & F2).
  split; [exact WF2|]. split; [lia|]. split.
  - intros r Hr. destruct (O2 r Hr) as [H|H]; [apply O1, H | right; lia].
  - intros r Hr Hn. eapply same_trans; [apply F1; assumption|].
    apply F2; [lia|]. intros H. destruct (O1 r H); [contradiction|lia].
Qed.

Lemma hspec_ext st W st' st'' h' :
  hspec st W st' h' -> ext st' st'' -> hspec st W st'' h'.
Proof.
  intros ((ND & A) & L & O & F) [L' S]. split; [split; [exact ND|]|].
  - intros r Hr. specialize (A r Hr). lia.
  - split; [lia|]. split; [exact O|]. intros r Hr Hn.
    eapply same_trans; [apply F; assumption | apply S; lia].
Qed.

(* FRAME: a well-formed graph that shares no object with [W] erases to the same value *)
Lemma hspec_frame st W st' h' h2 :
  hspec st W st' h' -> hwf st h2 -> (forall r, In r (owns h2) -> ~ In r W) ->
  erase st' h2 = erase st h2 /\ hwf st' h2.
Proof.
  intros (_ & L & _ & F) [ND A] D. split.
  - apply erase_same. intros r Hr. apply F; [apply A, Hr|apply D, Hr].
  - split; [exact ND|]. intros r Hr. specialize (A r Hr). lia.
Qed.

(* an operation result against the result of the functional model *)
Definition eraseR (R : res (store * hgraph)) : res cgraph :=
  match R with Ok sh => Ok (erase (fst sh) (snd sh)) | Raise c => Raise c end.

Definition opspec (st : store) (W : list ref) (R : res (store * hgraph)) (m : res cgraph) : Prop :=
  eraseR R = m /\ forall sh, R = Ok sh -> hspec st W (fst sh) (snd sh).

Lemma opspec_Ok st W sh g :
  erase (fst sh) (snd sh) = g -> hspec st W (fst sh) (snd sh) -> opspec st W (Ok sh) (Ok g).
Proof. intros E S. split; [cbn; now rewrite E|]. intros sh' [= <-]. exact S. Qed.

(* ================= the operations ================= *)

(* add_node, depgraph.py 448-461 *)
Definition h_add_node (st : store) (h : hgraph) (n : key) : store * hgraph :=
  let ns := rget st (hnodes h) in
  if rl_contains ns n then (st, h)                              (* 454-456 *)
  else
    let new_index := length (seq ns) in                         (* 458 *)
    let st1 := rput st (hnodes h) (rl_append ns n) in           (* 459: self._nodes.append, IN PLACE *)
    let (st2, r) := alloc st1 [] in                             (* 460: set(), FRESH *)
    (st2, mkH (hnodes h) (dset new_index r (hedges h))).        (* 460: the key is bound to it *)

Lemma h_add_node_spec st h n : hwf st h ->
  erase (fst (h_add_node st h n)) (snd (h_add_node st h n)) = add_node (erase st h) n /\
  hspec st (owns h) (fst (h_add_node st h n)) (snd (h_add_node st h n)).
Proof.
  intros WF. pose proof WF as [ND A]. unfold h_add_node, add_node. cbn [erase nodes].
  destruct (rl_contains (rget st (hnodes h)) n) eqn:C; cbn [fst snd alloc].
  - split; [reflexivity|apply hspec_refl, WF].
  - assert (Hfresh : ~ In (next st) (owns h)) by (intros H; apply A in H; lia).
    split.
    + unfold erase. cbn [hnodes hedges]. f_equal.
      * unfold rget. cbn. apply upd_eq.
      * rewrite dmap_dset. unfold glen. cbn [nodes edges]. f_equal.
        -- unfold sget. cbn. apply upd_eq.
        -- apply dmap_ext_in. intros r Hr. unfold sget. cbn. apply upd_neq.
           intros ->. apply Hfresh. now right.
    + split; [split|split; [|split]]; cbn [next rput].
      * unfold owns. cbn [hnodes hedges]. inversion ND as [|? ? Hn ND']; subst. constructor.
        -- intros H. apply refs_dset in H. destruct H as [H|H]; [|contradiction].
           apply Hfresh. left. exact H.
        -- apply NoDup_refs_dset; [exact ND'|]. intros H. apply Hfresh. now right.
      * unfold owns. cbn [hnodes hedges]. intros r [<-|H].
        -- specialize (A (hnodes h) (or_introl eq_refl)). lia.
        -- apply refs_dset in H. destruct H as [->|H]; [lia|].
           specialize (A r (or_intror H)). lia.
      * lia.
      * unfold owns. cbn [hnodes hedges]. intros r [<-|H]; [left; now left|].
        apply refs_dset in H. destruct H as [->|H]; [right; lia|left; now right].
      * intros r Hr Hn. split.
        -- unfold sget. cbn. apply upd_neq. lia.
        -- unfold rget. cbn. apply upd_neq. intros ->. apply Hn. now left.
Qed.

Lemma sput_same st r v r' : r' <> r -> same st (sput st r v) r'.
Proof. intros H. split; [unfold sget; cbn; now apply upd_neq | reflexivity]. Qed.

Lemma rput_same st r v r' : r' <> r -> same st (rput st r v) r'.
Proof. intros H. split; [reflexivity | unfold rget; cbn; now apply upd_neq]. Qed.

(* self._edges[k].add / .remove : the set object bound to [k] is mutated in place *)
Lemma h_set_edge st h k r v : hwf st h -> dget k (hedges h) = Some r ->
  erase (sput st r v) h = mkG (nodes (erase st h)) (dset k v (edges (erase st h))) /\
  hspec st (owns h) (sput st r v) h.
Proof.
  intros [ND A] H. split.
  - unfold erase. cbn [nodes edges]. f_equal. apply dmap_sput; [|exact H].
    now inversion ND.
  - split; [split; [exact ND|exact A]|]. split; [cbn; lia|]. split; [auto|].
    intros r' Hr Hn. apply sput_same. intros ->. apply Hn. right. eapply dget_refs, H.
Qed.

(* add_dependency, depgraph.py 504-516 *)
Definition h_add_dependency (st : store) (h : hgraph) (a b : key) : res (store * hgraph) :=
  let sh1 := h_add_node st h a in                                 (* 511 *)
  let sh2 := h_add_node (fst sh1) (snd sh1) b in                  (* 512 *)
  let ns := rget (fst sh2) (hnodes (snd sh2)) in
  do ia <- rl_index ns a;                                         (* 513 *)
  do ib <- rl_index ns b;                                         (* 514 *)
  do r <- dgetE ia (hedges (snd sh2));                            (* 515: self._edges[i_node] *)
  Ok (sput (fst sh2) r (sadd ib (sget (fst sh2) r)), snd sh2).    (* 515: .add(i_on), IN PLACE *)

Lemma dgetE_Ok {V} k (d : list (nat * V)) v : dgetE k d = Ok v -> dget k d = Some v.
Proof. unfold dgetE. destruct (dget k d); [intros [= ->]; reflexivity|discriminate]. Qed.

Lemma h_add_dependency_spec st h a b : hwf st h ->
  opspec st (owns h) (h_add_dependency st h a b) (add_dependency (erase st h) a b).
Proof.
  intros WF. unfold h_add_dependency, add_dependency.
  destruct (h_add_node_spec st h a WF) as [E1 S1].
  set (sh1 := h_add_node st h a) in *.
  assert (WF1 : hwf (fst sh1) (snd sh1)) by apply S1.
  destruct (h_add_node_spec (fst sh1) (snd sh1) b WF1) as [E2 S2].
  set (sh2 := h_add_node (fst sh1) (snd sh1) b) in *.
  assert (S : hspec st (owns h) (fst sh2) (snd sh2)) by (eapply hspec_trans; eassumption).
  assert (WF2 : hwf (fst sh2) (snd sh2)) by apply S2.
  rewrite <- E1, <- E2. clearbody sh2. clear E1 E2 S1 S2 WF1. destruct sh2 as [st2 h2]. cbn [fst snd] in *.
  cbn [erase nodes edges]. 
  destruct (rl_index (rget st2 (hnodes h2)) a) as [ia|c]; cbn [bind]; [|split; [reflexivity|discriminate]].
  destruct (rl_index (rget st2 (hnodes h2)) b) as [ib|c]; cbn [bind]; [|split; [reflexivity|discriminate]].
  rewrite dgetE_dmap. destruct (dgetE ia (hedges h2)) as [r|c] eqn:D; cbn [bind]; [|split; [reflexivity|discriminate]].
  apply dgetE_Ok in D. destruct (h_set_edge st2 h2 ia r (sadd ib (sget st2 r)) WF2 D) as [E F].
  split.
  - cbn [eraseR fst snd]. rewrite E. reflexivity.
  - intros sh [= <-]. cbn [fst snd]. eapply hspec_trans; eassumption.
Qed.

(* remove_dependency, depgraph.py 518-532 *)
Definition h_remove_dependency (st : store) (h : hgraph) (a b : key) : res (store * hgraph) :=
  let ns := rget st (hnodes h) in
  do ia <- rl_index ns a;                                         (* 525 *)
  do ib <- rl_index ns b;                                         (* 526 *)
  do r <- dgetE ia (hedges h);                                    (* 528: self._edges[i_node] *)
  if mem ib (sget st r) then Ok (sput st r (srem ib (sget st r)), h)   (* 528: .remove(i_on), IN PLACE *)
  else Raise EKey.                                                (* 529 *)

Lemma h_remove_dependency_spec st h a b : hwf st h ->
  opspec st (owns h) (h_remove_dependency st h a b) (remove_dependency (erase st h) a b).
Proof.
  intros WF. unfold h_remove_dependency, remove_dependency. cbn [erase nodes edges].
  destruct (rl_index (rget st (hnodes h)) a) as [ia|c]; cbn [bind]; [|split; [reflexivity|discriminate]].
  destruct (rl_index (rget st (hnodes h)) b) as [ib|c]; cbn [bind]; [|split; [reflexivity|discriminate]].
  rewrite dgetE_dmap. destruct (dgetE ia (hedges h)) as [r|c] eqn:D; cbn [bind]; [|split; [reflexivity|discriminate]].
  apply dgetE_Ok in D. destruct (mem ib (sget st r)); [|split; [reflexivity|discriminate]].
  destruct (h_set_edge st h ia r (srem ib (sget st r)) WF D) as [E F].
  split.
  - cbn [eraseR fst snd]. rewrite E. reflexivity.
  - intros sh [= <-]. exact F.
Qed.

(* ---------- allocation of one fresh object per key ---------- *)
Fixpoint alloc_all (st : store) (vs : list (nat * list nat)) : store * list (nat * ref) :=
  match vs with
  | [] => (st, [])
  | (k, v) :: t =>
    let sd := alloc_all (fst (alloc st v)) t in
    (fst sd, (k, snd (alloc st v)) :: snd sd)
  end.

Lemma alloc_all_spec vs : forall st,
  dmap (sget (fst (alloc_all st vs))) (snd (alloc_all st vs)) = vs /\
  map snd (snd (alloc_all st vs)) = List.seq (next st) (length vs) /\
  next (fst (alloc_all st vs)) = next st + length vs /\
  ext st (fst (alloc_all st vs)).
Proof.
  induction vs as [|[k v] t IH]; intros st; cbn [alloc_all].
  - cbn. repeat split; lia.
  - destruct (IH (fst (alloc st v))) as (E & R & N & X). cbn [fst snd].
    set (sd := alloc_all (fst (alloc st v)) t) in *. split; [|split; [|split]].
    + cbn [dmap map fst snd]. f_equal; [|exact E]. f_equal.
      destruct X as [_ X]. destruct (X (next st)) as [X1 _]; [cbn; lia|].
      change (snd (alloc st v)) with (next st). rewrite X1. unfold sget. cbn. apply upd_eq.
    + cbn [map snd length List.seq]. f_equal. exact R.
    + rewrite N. cbn. lia.
    + eapply (ext_trans st (fst (alloc st v))); [apply alloc_ext|exact X].
Qed.

(* for k, vals in self._edges.items(): self._edges[k] = set(f(vals)) : every
   key is REBOUND to a FRESH set; the old set objects are only read *)
Definition rebind (f : list nat -> list nat) (st : store) (d : list (nat * ref)) :=
  alloc_all st (dmap f (dmap (sget st) d)).

Lemma rebind_spec f st d :
  dmap (sget (fst (rebind f st d))) (snd (rebind f st d)) = dmap f (dmap (sget st) d) /\
  map snd (snd (rebind f st d)) = List.seq (next st) (length d) /\
  next (fst (rebind f st d)) = next st + length d /\
  ext st (fst (rebind f st d)).
Proof.
  unfold rebind. destruct (alloc_all_spec (dmap f (dmap (sget st) d)) st) as (E & R & N & X).
  rewrite !dmap_length in R, N. auto.
Qed.

(* remove_node, depgraph.py 463-502 *)
Definition h_remove_node (st : store) (h : hgraph) (n : key) : res (store * hgraph) :=
  let nr := hnodes h in
  do oi <- rl_get_index (rget st nr) n;                           (* 471 *)
  match oi with
  | None => Ok (st, h)                                            (* 472-474 *)
  | Some i =>
    let last := length (seq (rget st nr)) - 1 in                  (* 477 *)
    do ns1 <- rl_swap (rget st nr) i last;                        (* 478 *)
    let st1 := rput st nr ns1 in                                  (* 478: self._nodes.swap, IN PLACE *)
    do ri <- dgetE i (hedges h);                                  (* 480: tmp = self._edges[i] *)
    do rl <- dgetE last (hedges h);                               (* 481 *)
    let e1 := dset last ri (dset i rl (hedges h)) in              (* 481-482: the two set OBJECTS change key *)
    let sw := fun k => if k =? i then last else if k =? last then i else k in
    let sd2 := rebind (map sw) st1 e1 in                          (* 490-491: every key rebound to a FRESH set *)
    let e3 := ddel last (snd sd2) in                              (* 494 *)
    let sd4 := rebind (filter (fun k => negb (k =? last))) (fst sd2) e3 in   (* 496-497: FRESH sets again *)
    do ns' <- rl_delitem (rget (fst sd4) nr) last;                (* 500 *)
    Ok (rput (fst sd4) nr ns', mkH nr (snd sd4))                  (* 500: del self._nodes[last], IN PLACE *)
  end.

Lemma h_remove_node_spec st h n : hwf st h ->
  opspec st (owns h) (h_remove_node st h n) (remove_node (erase st h) n).
Proof.
  intros WF. pose proof WF as [ND A]. unfold h_remove_node, remove_node, glen. cbn [erase nodes edges].
  destruct (rl_get_index (rget st (hnodes h)) n) as [[i|]|c]; cbn [bind];
    [| split; [reflexivity | intros sh [= <-]; apply hspec_refl, WF] | split; [reflexivity|discriminate]].
  set (last := length (seq (rget st (hnodes h))) - 1).
  destruct (rl_swap (rget st (hnodes h)) i last) as [ns1|c]; cbn [bind]; [|split; [reflexivity|discriminate]].
  rewrite !dgetE_dmap.
  destruct (dgetE i (hedges h)) as [ri|c]; cbn [bind]; [|split; [reflexivity|discriminate]].
  destruct (dgetE last (hedges h)) as [rl|c]; cbn [bind]; [|split; [reflexivity|discriminate]].
  set (nr := hnodes h). set (st1 := rput st nr ns1).
  set (e1 := dset last ri (dset i rl (hedges h))).
  set (sw := fun k => if k =? i then last else if k =? last then i else k).
  destruct (rebind_spec (map sw) st1 e1) as (E2 & R2 & N2 & X2).
  set (sd2 := rebind (map sw) st1 e1) in *.
  set (filt := filter (fun k => negb (k =? last))).
  destruct (rebind_spec filt (fst sd2) (ddel last (snd sd2))) as (E4 & R4 & N4 & X4).
  set (sd4 := rebind filt (fst sd2) (ddel last (snd sd2))) in *.
  assert (Hnr : nr < next st) by (apply A; now left).
  assert (X : ext st1 (fst sd4)) by (eapply ext_trans; eassumption).
  assert (Rn : rget (fst sd4) nr = ns1).
  { destruct X as [_ X]. destruct (X nr) as [_ ->]; [exact Hnr|]. unfold rget, st1. cbn. apply upd_eq. }
  rewrite Rn.
  destruct (rl_delitem ns1 last) as [ns'|c]; cbn [bind]; [|split; [reflexivity|discriminate]].
  split.
  - cbn [eraseR fst snd]. f_equal. unfold erase. cbn [hnodes hedges]. f_equal.
    + unfold rget. cbn. apply upd_eq.
    + change (dmap (sget (rput (fst sd4) nr ns')) (snd sd4)) with (dmap (sget (fst sd4)) (snd sd4)).
      rewrite E4, dmap_ddel, E2. unfold e1. rewrite !dmap_dset. reflexivity.
  - intros sh [= <-]. cbn [fst snd]. unfold hspec, hwf, owns. cbn [hnodes hedges next rput].
    rewrite R4. destruct X as [L X]. cbn [next st1 rput] in L, N2.
    split; [split|split; [|split]].
    + constructor; [|apply seq_NoDup]. rewrite in_seq. lia.
    + intros r [<-|H]; [lia|]. apply in_seq in H. lia.
    + lia.
    + intros r [<-|H]; [left; now left|]. apply in_seq in H. right. lia.
    + intros r Hr Hn. assert (r <> nr) by (intros ->; apply Hn; now left).
      eapply same_trans; [apply (rput_same st nr ns1); assumption|].
      eapply same_trans; [apply X; exact Hr|]. apply rput_same. assumption.
Qed.

(* ---------- DepGraph(nodes, edges): _complete, depgraph.py 333-342, and __init__, 344-370 ---------- *)
(* complete_dct[val] = set() when val is not a key *)
Definition h_setdefault (v : nat) (sc : store * list (nat * ref)) : store * list (nat * ref) :=
  match dget v (snd sc) with
  | Some _ => sc                                                  (* 339 *)
  | None => (fst (alloc (fst sc) []), dset v (snd (alloc (fst sc) [])) (snd sc))   (* 340: set(), FRESH *)
  end.

(* 336: copy.copy(dct) is a SHALLOW copy: a new dict holding the SAME set objects;
   337-340: the missing keys *)
Definition h_complete_keys (st : store) (d : list (nat * ref)) : store * list (nat * ref) :=
  fold_left (fun sc p => fold_left (fun sc v => h_setdefault v sc) (snd p) sc)
            (dmap (sget st) d) (st, d).

(* 341: {k: set(v) for k, v in complete_dct.items()} : a FRESH set for every key *)
Definition h_complete (st : store) (d : list (nat * ref)) : store * list (nat * ref) :=
  let sc := h_complete_keys st d in rebind dedup (fst sc) (snd sc).

(* the regression: [return dict(complete_dct)], the result holds the caller's set objects *)
Definition h_complete_sharing (st : store) (d : list (nat * ref)) : store * list (nat * ref) :=
  h_complete_keys st d.

Definition sc_ok (sc : store * list (nat * ref)) : Prop :=
  forall r, In r (map snd (snd sc)) -> r < next (fst sc).
Definition sc_erase (sc : store * list (nat * ref)) : list (nat * list nat) :=
  dmap (sget (fst sc)) (snd sc).

Lemma h_setdefault_sim v sc : sc_ok sc ->
  sc_erase (h_setdefault v sc) = setdefault v (sc_erase sc) /\
  sc_ok (h_setdefault v sc) /\ ext (fst sc) (fst (h_setdefault v sc)).
Proof.
  intros OK. unfold h_setdefault, setdefault, sc_erase. rewrite dget_dmap.
  destruct (dget v (snd sc)) eqn:D; cbn [option_map].
  - split; [reflexivity|]. split; [exact OK|apply ext_refl].
  - cbn [fst snd alloc]. split; [|split].
    + rewrite dmap_dset. f_equal.
      * unfold sget. cbn. apply upd_eq.
      * apply dmap_ext_in. intros r Hr. unfold sget. cbn. apply upd_neq.
        specialize (OK r Hr). lia.
    + intros r Hr. cbn in Hr |- *. apply refs_dset in Hr. destruct Hr as [->|Hr]; [lia|].
      specialize (OK r Hr). lia.
    + apply (alloc_ext (fst sc) []).
Qed.

Lemma sc_fold_sim {B} (F : store * list (nat * ref) -> B -> store * list (nat * ref))
      (f : list (nat * list nat) -> B -> list (nat * list nat)) (l : list B) :
  (forall sc b, sc_ok sc -> sc_erase (F sc b) = f (sc_erase sc) b /\ sc_ok (F sc b) /\ ext (fst sc) (fst (F sc b))) ->
  forall sc, sc_ok sc ->
  sc_erase (fold_left F l sc) = fold_left f l (sc_erase sc) /\
  sc_ok (fold_left F l sc) /\ ext (fst sc) (fst (fold_left F l sc)).
Proof.
  intros H. induction l as [|b t IH]; intros sc OK; cbn [fold_left].
  - split; [reflexivity|]. split; [exact OK|apply ext_refl].
  - destruct (H sc b OK) as (E & OK' & X). destruct (IH _ OK') as (E' & OK'' & X').
    split; [now rewrite E', E|]. split; [exact OK''|]. eapply ext_trans; eassumption.
Qed.

Lemma h_complete_keys_spec st d : (forall r, In r (map snd d) -> r < next st) ->
  sc_erase (h_complete_keys st d)
  = fold_left (fun c p => fold_left (fun c v => setdefault v c) (snd p) c) (dmap (sget st) d) (dmap (sget st) d) /\
  sc_ok (h_complete_keys st d) /\ ext st (fst (h_complete_keys st d)).
Proof.
  intros OK. unfold h_complete_keys.
  apply (sc_fold_sim
           (fun sc (p : nat * list nat) => fold_left (fun sc v => h_setdefault v sc) (snd p) sc)
           (fun c (p : nat * list nat) => fold_left (fun c v => setdefault v c) (snd p) c)
           (dmap (sget st) d)); [|exact OK].
  intros sc p OK'. apply (sc_fold_sim (fun sc v => h_setdefault v sc) (fun c v => setdefault v c)); [|exact OK'].
  intros sc' v OK''. apply h_setdefault_sim, OK''.
Qed.

(* the refs of [d] are the [length d] identities from [n] on *)
Lemma h_complete_spec st d : (forall r, In r (map snd d) -> r < next st) ->
  dmap (sget (fst (h_complete st d))) (snd (h_complete st d)) = complete (dmap (sget st) d) /\
  ext st (fst (h_complete st d)) /\
  exists n, next st <= n /\
    map snd (snd (h_complete st d)) = List.seq n (length (snd (h_complete st d))) /\
    next (fst (h_complete st d)) = n + length (snd (h_complete st d)).
Proof.
  intros OK. destruct (h_complete_keys_spec st d OK) as (E & OK' & X).
  unfold h_complete. set (sc := h_complete_keys st d) in *.
  destruct (rebind_spec dedup (fst sc) (snd sc)) as (E2 & R2 & N2 & X2).
  set (sd := rebind dedup (fst sc) (snd sc)) in *.
  assert (Len : length (snd sd) = length (snd sc)).
  { rewrite <- (map_length snd (snd sd)), R2. apply seq_length. }
  split; [|split].
  - rewrite E2. unfold complete. f_equal. exact E.
  - eapply ext_trans; eassumption.
  - exists (next (fst sc)). rewrite Len. split; [apply X|]. split; assumption.
Qed.

(* __init__ 361: RList(nodes) appends to a FRESH RList; 368: _complete *)
Definition h_mk_graph (st : store) (ns : list key) (d : list (nat * ref)) : store * hgraph :=
  let sr := allocR st (rl_of_list ns) in
  let sd := h_complete (fst sr) d in
  (fst sd, mkH (snd sr) (snd sd)).

Lemma h_mk_graph_spec st ns d : (forall r, In r (map snd d) -> r < next st) ->
  erase (fst (h_mk_graph st ns d)) (snd (h_mk_graph st ns d)) = mk_graph ns (dmap (sget st) d) /\
  hspec st [] (fst (h_mk_graph st ns d)) (snd (h_mk_graph st ns d)).
Proof.
  intros OK. unfold h_mk_graph. cbn [fst snd].
  pose proof (allocR_ext st (rl_of_list ns)) as X0.
  set (sr := allocR st (rl_of_list ns)) in *.
  assert (OK1 : forall r, In r (map snd d) -> r < next (fst sr)) by (intros r Hr; specialize (OK r Hr); cbn; lia).
  destruct (h_complete_spec (fst sr) d OK1) as (E & X & n & Ln & R & N).
  set (sd := h_complete (fst sr) d) in *.
  assert (Hnr : snd sr = next st) by reflexivity.
  assert (N1 : next (fst sr) = S (next st)) by reflexivity.
  split.
  - unfold erase, mk_graph. cbn [hnodes hedges]. f_equal.
    + destruct X as [_ X]. destruct (X (snd sr)) as [_ ->]; [rewrite Hnr, N1; lia|].
      unfold rget. cbn. apply upd_eq.
    + rewrite E. reflexivity.
  - unfold hspec, hwf, owns. cbn [hnodes hedges]. rewrite R, Hnr.
    split; [split|split; [|split]].
    + constructor; [|apply seq_NoDup]. rewrite in_seq. lia.
    + intros r [<-|H]; [|apply in_seq in H]; lia.
    + destruct X; lia.
    + intros r [<-|H]; [|apply in_seq in H]; right; lia.
    + intros r Hr _. apply (ext_trans st (fst sr) (fst sd) X0 X). exact Hr.
Qed.

(* copy, depgraph.py 582-584: DepGraph(self._nodes.copy(), self._edges.copy()).
   self._nodes.copy() is a fresh RList that only the constructor reads (garbage
   afterwards, not modelled as an object); self._edges.copy() is a SHALLOW dict
   copy: the constructor receives the original's set objects. *)
Definition h_copy (st : store) (h : hgraph) : store * hgraph :=
  h_mk_graph st (seq (rl_copy (rget st (hnodes h)))) (hedges h).

Lemma h_copy_spec st h : hwf st h ->
  erase (fst (h_copy st h)) (snd (h_copy st h)) = copy (erase st h) /\
  hspec st [] (fst (h_copy st h)) (snd (h_copy st h)).
Proof.
  intros [_ A]. unfold h_copy, copy. apply h_mk_graph_spec. intros r Hr. apply A. now right.
Qed.

(* invert, depgraph.py 534-548.  540-544: inv_edges is a fresh dict of FRESH
   local list objects; 546: DepGraph(self._nodes, inv_edges) *)
Definition inv_edges (es : list (nat * list nat)) : list (nat * list nat) :=
  fold_left (fun acc p =>
    fold_left (fun acc v =>
      let acc := setdefault v acc in
      match dget v acc with
      | Some l => dset v (l ++ [fst p]) acc
      | None => acc
      end) (snd p) (setdefault (fst p) acc))
    es [].

Lemma invert_inv_edges g : invert g = mk_graph (seq (nodes g)) (inv_edges (edges g)).
Proof. reflexivity. Qed.

Definition h_invert (st : store) (h : hgraph) : store * hgraph :=
  let sd := alloc_all st (inv_edges (dmap (sget st) (hedges h))) in   (* 540-544 *)
  h_mk_graph (fst sd) (seq (rget st (hnodes h))) (snd sd).            (* 546 *)

Lemma hspec_ext_l st st1 st' h' : ext st st1 -> hspec st1 [] st' h' -> hspec st [] st' h'.
Proof.
  intros [L X] (WF & L1 & O & F). split; [exact WF|]. split; [lia|]. split.
  - intros r Hr. destruct (O r Hr) as [[]|H]. right; lia.
  - intros r Hr _. eapply same_trans; [apply X, Hr|]. apply F; [lia|auto].
Qed.

Lemma h_invert_spec st h : hwf st h ->
  erase (fst (h_invert st h)) (snd (h_invert st h)) = invert (erase st h) /\
  hspec st [] (fst (h_invert st h)) (snd (h_invert st h)).
Proof.
  intros [_ A]. unfold h_invert. rewrite invert_inv_edges. cbn [erase nodes edges].
  destruct (alloc_all_spec (inv_edges (dmap (sget st) (hedges h))) st) as (E & R & N & X).
  set (sd := alloc_all st (inv_edges (dmap (sget st) (hedges h)))) in *.
  destruct (h_mk_graph_spec (fst sd) (seq (rget st (hnodes h))) (snd sd)) as [E' S'].
  { intros r Hr. assert (H : In r (List.seq (next st) (length (inv_edges (dmap (sget st) (hedges h))))))
      by (rewrite <- R; exact Hr).
    apply in_seq in H. lia. }
  split; [rewrite E', E; reflexivity|]. eapply hspec_ext_l; eassumption.
Qed.

(* ---------- merge and + ---------- *)
Lemma opspec_weaken st W st1 h1 R m :
  hspec st W st1 h1 -> opspec st1 (owns h1) R m -> opspec st W R m.
Proof.
  intros S [E S']. split; [exact E|]. intros sh H. eapply hspec_trans; [exact S|apply S', H].
Qed.

Lemma foldM_opspec {B} (F : store * hgraph -> B -> res (store * hgraph)) (f : cgraph -> B -> res cgraph) :
  (forall sh b, hwf (fst sh) (snd sh) ->
     opspec (fst sh) (owns (snd sh)) (F sh b) (f (erase (fst sh) (snd sh)) b)) ->
  forall st W l sh, hspec st W (fst sh) (snd sh) ->
    opspec st W (foldM F l sh) (foldM f l (erase (fst sh) (snd sh))).
Proof.
  intros H st W l. induction l as [|b t IH]; intros sh S; cbn [foldM].
  - split; [reflexivity|]. intros sh' [= <-]. exact S.
  - destruct (H sh b) as [E S']; [apply S|]. destruct (F sh b) as [sh'|c]; cbn in E; rewrite <- E; cbn [bind].
    + apply IH. eapply hspec_trans; [exact S|]. apply S'. reflexivity.
    + split; [reflexivity|discriminate].
Qed.

(* merge, depgraph.py 586-596.  [other] is only READ (592, through __iter__,
   381-384); the items are read up front as in Model.merge (which was checked
   against the implementation, r += r included): [h_merge_v] takes the value. *)
Definition h_merge_v (st : store) (self : hgraph) (other : cgraph) : res (store * hgraph) :=
  do items <- g_iter other;                                                (* 592 *)
  foldM (fun sh p =>
           foldM (fun sh v => h_add_dependency (fst sh) (snd sh) (fst p) v)   (* 595 *)
                 (snd p) (h_add_node (fst sh) (snd sh) (fst p)))              (* 593 *)
        items (st, self).

Definition h_merge (st : store) (self other : hgraph) : res (store * hgraph) :=
  h_merge_v st self (erase st other).

Lemma h_merge_v_spec st self other : hwf st self ->
  opspec st (owns self) (h_merge_v st self other) (merge (erase st self) other).
Proof.
  intros WF. unfold h_merge_v, merge.
  destruct (g_iter other) as [items|c]; cbn [bind]; [|split; [reflexivity|discriminate]].
  apply (foldM_opspec
    (fun sh (p : key * list key) =>
       foldM (fun sh v => h_add_dependency (fst sh) (snd sh) (fst p) v) (snd p)
             (h_add_node (fst sh) (snd sh) (fst p)))
    (fun g (p : key * list key) =>
       foldM (fun g v => add_dependency g (fst p) v) (snd p) (add_node g (fst p)))
    ) with (sh := (st, self)); [|apply hspec_refl, WF].
  intros sh p WF'. destruct (h_add_node_spec (fst sh) (snd sh) (fst p) WF') as [E S]. rewrite <- E.
  apply (foldM_opspec (fun sh v => h_add_dependency (fst sh) (snd sh) (fst p) v)
                      (fun g v => add_dependency g (fst p) v)); [|exact S].
  intros sh' v WF''. apply h_add_dependency_spec, WF''.
Qed.

Lemma h_merge_spec st self other : hwf st self ->
  opspec st (owns self) (h_merge st self other) (merge (erase st self) (erase st other)).
Proof. apply h_merge_v_spec. Qed.

(* __add__, depgraph.py 386-388: self.copy().merge(other) *)
Definition h_plus (st : store) (a b : hgraph) : res (store * hgraph) :=
  let sc := h_copy st a in h_merge (fst sc) (snd sc) b.

Lemma h_plus_spec st a b : hwf st a -> hwf st b ->
  opspec st [] (h_plus st a b) (merge (copy (erase st a)) (erase st b)).
Proof.
  intros WFa [_ Ab]. unfold h_plus. destruct (h_copy_spec st a WFa) as [E S].
  set (sc := h_copy st a) in *. rewrite <- E.
  replace (erase st b) with (erase (fst sc) b).
  - eapply opspec_weaken; [exact S|]. apply h_merge_spec, S.
  - apply erase_same. intros r Hr. destruct S as (_ & _ & _ & F). apply F; [apply Ab, Hr|auto].
Qed.

(* ---------- transitive_reduction / transitive_closure, depgraph.py 657-707 ---------- *)
(* one round of the outer loop (674-679): _visit only READS the graph, its
   to_remove sets are fresh locals; then self._edges[i_node].remove(j) for every
   j, IN PLACE on the set object bound to i_node *)
Definition h_reduce_at (sh : store * hgraph) (i : nat) : res (store * hgraph) :=
  let st := fst sh in
  let h := snd sh in
  let g := erase st h in
  do r <- dgetE i (hedges h);                                               (* 676: self._edges[i_node] *)
  let start := sget st r in
  do rm <- foldM (fun acc j => do s <- tr_visit (glen g + 1) g (fun d => mem d start) j;
                               Ok (sunion acc s)) start [];                 (* 675-677 *)
  do s' <- foldM (fun s j => if mem j s then Ok (srem j s) else Raise EKey) rm start;   (* 678-679 *)
  Ok (sput st r s', h).                                                     (* 679: IN PLACE *)

Definition h_transitive_reduction (st : store) (h : hgraph) : res (store * hgraph) :=
  foldM h_reduce_at (List.seq 0 (glen (erase st h))) (st, h).               (* 674 *)

(* 700-705: self._edges[i_node].add(j), IN PLACE *)
Definition h_close_at (sh : store * hgraph) (i : nat) : res (store * hgraph) :=
  let st := fst sh in
  let h := snd sh in
  let g := erase st h in
  do r <- dgetE i (hedges h);                                               (* 702 *)
  let start := sget st r in
  do ad <- foldM (fun acc j => do s <- tr_visit (glen g + 1) g (fun d => negb (mem d start)) j;
                               Ok (sunion acc s)) start [];                 (* 701-703 *)
  Ok (sput st r (sunion start ad), h).                                      (* 704-705: IN PLACE *)

Definition h_transitive_closure (st : store) (h : hgraph) : res (store * hgraph) :=
  foldM h_close_at (List.seq 0 (glen (erase st h))) (st, h).                (* 700 *)

Lemma h_transitive_reduction_spec st h : hwf st h ->
  opspec st (owns h) (h_transitive_reduction st h) (transitive_reduction (erase st h)).
Proof.
  intros WF. unfold h_transitive_reduction, transitive_reduction.
  apply (foldM_opspec h_reduce_at) with (sh := (st, h)); [|apply hspec_refl, WF].
  clear st h WF. intros [st h] i WF. cbn [fst snd] in *. unfold h_reduce_at. cbn [fst snd].
  change (edges (erase st h)) with (dmap (sget st) (hedges h)).
  change (nodes (erase st h)) with (rget st (hnodes h)).
  rewrite dgetE_dmap. destruct (dgetE i (hedges h)) as [r|c] eqn:D; cbn [bind]; [|split; [reflexivity|discriminate]].
  destruct (foldM _ (sget st r) []) as [rm|c]; cbn [bind]; [|split; [reflexivity|discriminate]].
  destruct (foldM _ rm (sget st r)) as [s'|c]; cbn [bind]; [|split; [reflexivity|discriminate]].
  apply dgetE_Ok in D. destruct (h_set_edge st h i r s' WF D) as [E F].
  split; [cbn [eraseR fst snd]; rewrite E; reflexivity|]. intros sh [= <-]. exact F.
Qed.

Lemma h_transitive_closure_spec st h : hwf st h ->
  opspec st (owns h) (h_transitive_closure st h) (transitive_closure (erase st h)).
Proof.
  intros WF. unfold h_transitive_closure, transitive_closure.
  apply (foldM_opspec h_close_at) with (sh := (st, h)); [|apply hspec_refl, WF].
  clear st h WF. intros [st h] i WF. cbn [fst snd] in *. unfold h_close_at. cbn [fst snd].
  change (edges (erase st h)) with (dmap (sget st) (hedges h)).
  change (nodes (erase st h)) with (rget st (hnodes h)).
  rewrite dgetE_dmap. destruct (dgetE i (hedges h)) as [r|c] eqn:D; cbn [bind]; [|split; [reflexivity|discriminate]].
  destruct (foldM _ (sget st r) []) as [ad|c]; cbn [bind]; [|split; [reflexivity|discriminate]].
  apply dgetE_Ok in D. destruct (h_set_edge st h i r (sunion (sget st r) ad) WF D) as [E F].
  split; [cbn [eraseR fst snd]; rewrite E; reflexivity|]. intros sh [= <-]. exact F.
Qed.

(* ---------- graft / flatten, depgraph.py 736-802 ---------- *)
Lemma opspec_bind st W R m (F : store * hgraph -> res (store * hgraph)) (f : cgraph -> res cgraph) :
  opspec st W R m ->
  (forall sh, hwf (fst sh) (snd sh) -> opspec (fst sh) (owns (snd sh)) (F sh) (f (erase (fst sh) (snd sh)))) ->
  opspec st W (do sh <- R; F sh) (do g <- m; f g).
Proof.
  intros [E S] H. destruct R as [sh|c]; cbn in E; rewrite <- E; cbn [bind]; [|split; [reflexivity|discriminate]].
  specialize (S sh eq_refl). eapply opspec_weaken; [exact S|]. apply H, S.
Qed.

Lemma opspec_ret sh : hwf (fst sh) (snd sh) ->
  opspec (fst sh) (owns (snd sh)) (Ok sh) (Ok (erase (fst sh) (snd sh))).
Proof. intros WF. apply opspec_Ok; [reflexivity|apply hspec_refl, WF]. Qed.

Lemma foldM2_opspec {B C} (F : store * hgraph -> B -> C -> res (store * hgraph))
      (f : cgraph -> B -> C -> res cgraph) (inner : list C) :
  (forall sh b c, hwf (fst sh) (snd sh) ->
     opspec (fst sh) (owns (snd sh)) (F sh b c) (f (erase (fst sh) (snd sh)) b c)) ->
  forall outer sh, hwf (fst sh) (snd sh) ->
    opspec (fst sh) (owns (snd sh))
           (foldM (fun sh b => foldM (fun sh c => F sh b c) inner sh) outer sh)
           (foldM (fun g b => foldM (fun g c => f g b c) inner g) outer (erase (fst sh) (snd sh))).
Proof.
  intros H outer sh WF.
  apply (foldM_opspec (fun sh b => foldM (fun sh c => F sh b c) inner sh)
                      (fun g b => foldM (fun g c => f g b c) inner g)); [|apply hspec_refl, WF].
  intros sh' b WF'.
  apply (foldM_opspec (fun sh c => F sh b c) (fun g c => f g b c)); [|apply hspec_refl, WF'].
  intros sh'' c WF''. apply H, WF''.
Qed.

(* graft(node): every write goes through remove_node / merge / add_dependency on
   self; the sub-graph [sub] is only READ (749, 750, 755, 767) and is given by
   value, read up front as in Model.graft *)
Definition h_graft (st : store) (h : hgraph) (s : key) (sub : cgraph) : res (store * hgraph) :=
  let g := erase st h in
  do deps <- dependencies g s false;                                       (* 743 *)
  do dees <- dependees g s;                                                (* 744 *)
  do sh1 <- h_remove_node st h s;                                          (* 746 *)
  do inits <- initial sub;                                                 (* 749 *)
  do terms <- terminal sub;                                                (* 750 *)
  do sh2 <- h_merge_v (fst sh1) (snd sh1) sub;                             (* 755 *)
  do sh3 <- foldM (fun sh dep => foldM (fun sh term => h_add_dependency (fst sh) (snd sh) term dep)
                                       terms sh) deps sh2;                 (* 757-761 *)
  do sh4 <- foldM (fun sh dee => foldM (fun sh init => h_add_dependency (fst sh) (snd sh) dee init)
                                       inits sh) dees sh3;                 (* 762-766 *)
  if glen sub =? 0 then                                                    (* 767-774 *)
    foldM (fun sh dee => foldM (fun sh dep => if (dee =? s) || (dep =? s) || (dee =? dep) then Ok sh
                                              else h_add_dependency (fst sh) (snd sh) dee dep)
                               deps sh) dees sh4
  else Ok sh4.

Lemma h_graft_spec st h s sub : hwf st h ->
  opspec st (owns h) (h_graft st h s sub) (graft (erase st h) s sub).
Proof.
  intros WF. unfold h_graft, graft.
  destruct (dependencies (erase st h) s false) as [deps|c]; cbn [bind]; [|split; [reflexivity|discriminate]].
  destruct (dependees (erase st h) s) as [dees|c]; cbn [bind]; [|split; [reflexivity|discriminate]].
  apply opspec_bind; [apply h_remove_node_spec, WF|]. intros sh1 WF1.
  destruct (initial sub) as [inits|c]; cbn [bind]; [|split; [reflexivity|discriminate]].
  destruct (terminal sub) as [terms|c]; cbn [bind]; [|split; [reflexivity|discriminate]].
  apply opspec_bind; [apply h_merge_v_spec, WF1|]. intros sh2 WF2.
  apply opspec_bind.
  { apply (foldM2_opspec (fun sh dep term => h_add_dependency (fst sh) (snd sh) term dep)
                         (fun g dep term => add_dependency g term dep)); [|exact WF2].
    intros sh dep term WF'. apply h_add_dependency_spec, WF'. }
  intros sh3 WF3. apply opspec_bind.
  { apply (foldM2_opspec (fun sh dee init => h_add_dependency (fst sh) (snd sh) dee init)
                         (fun g dee init => add_dependency g dee init)); [|exact WF3].
    intros sh dee init WF'. apply h_add_dependency_spec, WF'. }
  intros sh4 WF4. destruct (glen sub =? 0); [|apply opspec_ret, WF4].
  apply (foldM2_opspec
           (fun sh dee dep => if (dee =? s) || (dep =? s) || (dee =? dep) then Ok sh
                              else h_add_dependency (fst sh) (snd sh) dee dep)
           (fun g dee dep => if (dee =? s) || (dep =? s) || (dee =? dep) then Ok g
                             else add_dependency g dee dep)); [|exact WF4].
  intros sh dee dep WF'. destruct ((dee =? s) || (dep =? s) || (dee =? dep)).
  - apply opspec_ret, WF'.
  - apply h_add_dependency_spec, WF'.
Qed.

(* flatten: [subs k] is the VALUE of the graph the node k is (read up front, as
   in Model.flatten); same fuel *)
Fixpoint h_flatten (fuel : nat) (subs : key -> option cgraph) (recurse : bool) (sh : store * hgraph)
  : res (store * hgraph) :=
  match fuel with
  | 0 => Raise EFuel
  | S f =>
    let g := erase (fst sh) (snd sh) in
    match filter (fun n => match subs n with Some _ => true | None => false end) (seq (nodes g)) with   (* 785, 801 *)
    | [] => Ok sh
    | ns =>
      let non_empty := filter (fun n => match subs n with
                                        | Some sub => negb (glen sub =? 0) | None => false end) ns in
      let empty := filter (fun n => match subs n with
                                    | Some sub => glen sub =? 0 | None => false end) ns in
      let todo := match non_empty with
                  | _ :: _ => if recurse then non_empty else non_empty ++ empty
                  | [] => empty
                  end in
      do sh' <- foldM (fun sh n => match subs n with
                                   | Some sub => h_graft (fst sh) (snd sh) n sub     (* 797-798 *)
                                   | None => Raise EValue
                                   end) todo sh;
      if recurse then h_flatten f subs recurse sh' else Ok sh'
    end
  end.

Lemma h_flatten_spec fuel subs recurse : forall sh, hwf (fst sh) (snd sh) ->
  opspec (fst sh) (owns (snd sh)) (h_flatten fuel subs recurse sh)
         (flatten fuel subs recurse (erase (fst sh) (snd sh))).
Proof.
  induction fuel as [|f IH]; intros sh WF; cbn [h_flatten flatten]; [split; [reflexivity|discriminate]|].
  destruct (filter _ (seq (nodes (erase (fst sh) (snd sh))))) as [|n0 ns0]; [apply opspec_ret, WF|].
  apply opspec_bind.
  - apply (foldM_opspec
             (fun sh n => match subs n with Some sub => h_graft (fst sh) (snd sh) n sub | None => Raise EValue end)
             (fun g n => match subs n with Some sub => graft g n sub | None => Raise EValue end));
      [|apply hspec_refl, WF].
    intros sh' n WF'. destruct (subs n); [apply h_graft_spec, WF'|split; [reflexivity|discriminate]].
  - intros sh' WF'. destruct recurse; [apply IH, WF'|apply opspec_ret, WF'].
Qed.

(* ================= worlds of heap graphs ================= *)
Definition hworld := (store * list hgraph)%type.
Definition hw_empty : hworld := (st_empty, []).
Definition erase_w (w : hworld) : world := map (erase (fst w)) (snd w).

(* separation: every object of every graph is allocated, the objects of a graph
   are pairwise distinct, two different graphs share no object *)
Definition sep (w : hworld) : Prop :=
  (forall i h, nth_error (snd w) i = Some h -> hwf (fst w) h) /\
  (forall i j hi hj, i <> j -> nth_error (snd w) i = Some hi -> nth_error (snd w) j = Some hj ->
     forall r, In r (owns hi) -> ~ In r (owns hj)).

Theorem sep_empty : sep hw_empty.
Proof. split; intros [|i]; cbn; discriminate. Qed.

(* register [q] holds the same graph object and it erases to the same value *)
Definition unchanged (w w' : hworld) (q : nat) : Prop :=
  forall h, nth_error (snd w) q = Some h ->
    nth_error (snd w') q = Some h /\ erase (fst w') h = erase (fst w) h.

Inductive hop :=
| HNew
| HAddNode (r : nat) (n : key)
| HRemoveNode (r : nat) (n : key)
| HAddDep (r : nat) (a b : key)
| HRemoveDep (r : nat) (a b : key)
| HMerge (r r' : nat)
| HPlus (r r' : nat)
| HCopy (r : nat)
| HInvert (r : nat)
| HGraft (r : nat) (n : key)
| HFlatten (r : nat) (recurse : bool)
| HReduce (r : nat)
| HClose (r : nat).

Definition to_wop (o : hop) : wop :=
  match o with
  | HNew => WNew | HAddNode r n => WAddNode r n | HRemoveNode r n => WRemoveNode r n
  | HAddDep r a b => WAddDep r a b | HRemoveDep r a b => WRemoveDep r a b
  | HMerge r r' => WMerge r r' | HPlus r r' => WPlus r r' | HCopy r => WCopy r | HInvert r => WInvert r
  | HGraft r n => WGraft r n | HFlatten r rec => WFlatten r rec | HReduce r => WReduce r | HClose r => WClose r
  end.

Lemma to_wop_onto (o : wop) : exists o', to_wop o' = o.
Proof.
  destruct o;
    [exists HNew | exists (HAddNode r n) | exists (HRemoveNode r n) | exists (HAddDep r a b)
    | exists (HRemoveDep r a b) | exists (HMerge r r') | exists (HPlus r r') | exists (HCopy r)
    | exists (HInvert r) | exists (HGraft r n) | exists (HFlatten r recurse) | exists (HReduce r)
    | exists (HClose r)]; reflexivity.
Qed.

(* the register an operation mutates; the others put their result in a new register *)
Definition target (o : hop) : option nat :=
  match o with
  | HAddNode r _ | HRemoveNode r _ | HAddDep r _ _ | HRemoveDep r _ _ | HMerge r _
  | HGraft r _ | HFlatten r _ | HReduce r | HClose r => Some r
  | HNew | HPlus _ _ | HCopy _ | HInvert _ => None
  end.

Definition hget (hs : list hgraph) (r : nat) : res hgraph :=
  match nth_error hs r with Some h => Ok h | None => Raise EIndex end.
Definition in_place (hs : list hgraph) (r : nat) (R : res (store * hgraph)) : res hworld :=
  do sh <- R; Ok (fst sh, set_nth r (snd sh) hs).
Definition in_new (hs : list hgraph) (R : res (store * hgraph)) : res hworld :=
  do sh <- R; Ok (fst sh, hs ++ [snd sh]).

Definition hstep (w : hworld) (o : hop) : res hworld :=
  let st := fst w in
  let hs := snd w in
  match o with
  | HNew =>                                       (* depgraph.py 355-358: RList() FRESH, {} *)
    in_new hs (Ok (fst (allocR st rl_empty), mkH (snd (allocR st rl_empty)) []))
  | HAddNode r n => do h <- hget hs r; in_place hs r (Ok (h_add_node st h n))
  | HRemoveNode r n => do h <- hget hs r; in_place hs r (h_remove_node st h n)
  | HAddDep r a b => do h <- hget hs r; in_place hs r (h_add_dependency st h a b)
  | HRemoveDep r a b => do h <- hget hs r; in_place hs r (h_remove_dependency st h a b)
  | HMerge r r' => do g <- hget hs r; do h <- hget hs r'; in_place hs r (h_merge st g h)
  | HPlus r r' => do g <- hget hs r; do h <- hget hs r'; in_new hs (h_plus st g h)
  | HCopy r => do g <- hget hs r; in_new hs (Ok (h_copy st g))
  | HInvert r => do g <- hget hs r; in_new hs (Ok (h_invert st g))
  | HGraft r n =>                 (* the node n IS the graph of a register; its value is read here *)
    do h <- hget hs r;
    match sub_of (erase_w w) n with
    | Some sub => in_place hs r (h_graft st h n sub)
    | None => Raise EValue
    end
  | HFlatten r rec =>
    do h <- hget hs r;
    in_place hs r (h_flatten (length hs + length hs) (sub_of (erase_w w)) rec (st, h))
  | HReduce r => do h <- hget hs r; in_place hs r (h_transitive_reduction st h)
  | HClose r => do h <- hget hs r; in_place hs r (h_transitive_closure st h)
  end.

Definition eraseWR (R : res hworld) : res world :=
  match R with Ok w => Ok (erase_w w) | Raise c => Raise c end.

Lemma map_frame {A B} (f f' : A -> B) l :
  (forall q x, nth_error l q = Some x -> f' x = f x) -> map f' l = map f l.
Proof.
  induction l as [|a t IH]; intros H; cbn; [reflexivity|]. f_equal.
  - apply (H 0). reflexivity.
  - apply IH. intros q x Hq. apply (H (S q)). exact Hq.
Qed.

Lemma map_set_nth_frame {A B} (f f' : A -> B) r v l :
  (forall q x, q <> r -> nth_error l q = Some x -> f' x = f x) ->
  map f' (set_nth r v l) = set_nth r (f' v) (map f l).
Proof.
  revert r; induction l as [|a t IH]; intros r H; [destruct r; reflexivity|].
  destruct r; cbn [set_nth map].
  - f_equal. apply map_frame. intros q x Hq. apply (H (S q)); [discriminate|exact Hq].
  - f_equal.
    + apply (H 0); [discriminate|reflexivity].
    + apply IH. intros q x Hn Hq. apply (H (S q)); [congruence|exact Hq].
Qed.

Lemma set_nth_cases {A} r (v : A) l m x :
  nth_error (set_nth r v l) m = Some x -> (m = r /\ x = v) \/ (m <> r /\ nth_error l m = Some x).
Proof.
  rewrite nth_error_set_nth. destruct (Nat.eqb_spec m r); cbn [andb].
  - destruct (r <? length l) eqn:L.
    + intros [= <-]. now left.
    + intros H. apply Nat.ltb_ge in L. subst m.
      assert (nth_error l r = None) by (apply nth_error_None; exact L). congruence.
  - intros H. right. split; assumption.
Qed.

Lemma app1_cases {A} (l : list A) v m x :
  nth_error (l ++ [v]) m = Some x -> (m < length l /\ nth_error l m = Some x) \/ (m = length l /\ x = v).
Proof.
  intros H. destruct (Nat.lt_ge_cases m (length l)) as [L|L].
  - left. split; [exact L|]. rewrite nth_error_app1 in H; assumption.
  - right. rewrite nth_error_app2 in H by exact L.
    destruct (m - length l) as [|k] eqn:K; cbn in H.
    + injection H as <-. split; [lia|reflexivity].
    + destruct k; discriminate.
Qed.

(* an operation on the graph of register [r]: simulation, separation, frame *)
Lemma in_place_ok st hs r h R m :
  sep (st, hs) -> nth_error hs r = Some h -> opspec st (owns h) R m ->
  eraseWR (in_place hs r R) = (do g' <- m; Ok (set_nth r g' (erase_w (st, hs)))) /\
  forall w', in_place hs r R = Ok w' ->
    sep w' /\ forall q, q <> r -> unchanged (st, hs) w' q.
Proof.
  intros [WF DJ] Hr [E S]. cbn [fst snd] in WF, DJ.
  destruct R as [[st' h']|c]; cbn in E; rewrite <- E; cbn [in_place bind fst snd];
    [|split; [reflexivity|discriminate]].
  destruct (S _ eq_refl) as (WF' & L & O & F). cbn [fst snd] in *.
  assert (FR : forall q hq, q <> r -> nth_error hs q = Some hq -> erase st' hq = erase st hq).
  { intros q hq Hq Hn. apply erase_same. intros x Hx. apply F.
    - apply (WF q hq Hn), Hx.
    - apply (DJ q r hq h Hq Hn Hr x Hx). }
  split.
  - unfold eraseWR, erase_w. cbn [fst snd]. f_equal. apply map_set_nth_frame. exact FR.
  - intros w' [= <-]. split; [split|]; cbn [fst snd].
    + intros i hi Hi. apply set_nth_cases in Hi. destruct Hi as [[-> ->]|[Hn Hi]]; [exact WF'|].
      destruct (WF i hi Hi) as [ND A]. split; [exact ND|]. intros x Hx. specialize (A x Hx). lia.
    + intros i j hi hj Hij Hi Hj x Hx Hx'.
      apply set_nth_cases in Hi. apply set_nth_cases in Hj.
      destruct Hi as [[-> ->]|[Hni Hi]], Hj as [[-> ->]|[Hnj Hj]].
      * congruence.
      * destruct (O x Hx) as [H|H].
        -- apply (DJ r j h hj Hij Hr Hj x H Hx').
        -- destruct (WF j hj Hj) as [_ A]. specialize (A x Hx'). lia.
      * destruct (O x Hx') as [H|H].
        -- apply (DJ i r hi h Hij Hi Hr x Hx H).
        -- destruct (WF i hi Hi) as [_ A]. specialize (A x Hx). lia.
      * apply (DJ i j hi hj Hij Hi Hj x Hx Hx').
    + intros q Hq hq Hn. cbn [fst snd] in *. split; [|apply (FR q hq Hq Hn)].
      rewrite nth_error_set_nth. destruct (Nat.eqb_spec q r); [contradiction|exact Hn].
Qed.

(* an operation whose result goes to a new register *)
Lemma in_new_ok st hs R m :
  sep (st, hs) -> opspec st [] R m ->
  eraseWR (in_new hs R) = (do g' <- m; Ok (erase_w (st, hs) ++ [g'])) /\
  forall w', in_new hs R = Ok w' -> sep w' /\ forall q, unchanged (st, hs) w' q.
Proof.
  intros [WF DJ] [E S]. cbn [fst snd] in WF, DJ.
  destruct R as [[st' h']|c]; cbn in E; rewrite <- E; cbn [in_new bind fst snd];
    [|split; [reflexivity|discriminate]].
  destruct (S _ eq_refl) as (WF' & L & O & F). cbn [fst snd] in *.
  assert (FR : forall q hq, nth_error hs q = Some hq -> erase st' hq = erase st hq).
  { intros q hq Hn. apply erase_same. intros x Hx. apply F; [|auto].
    apply (WF q hq Hn), Hx. }
  split.
  - unfold eraseWR, erase_w. cbn [fst snd]. f_equal. rewrite map_app. cbn [map]. f_equal.
    apply map_frame. exact FR.
  - intros w' [= <-]. split; [split|]; cbn [fst snd].
    + intros i hi Hi. apply app1_cases in Hi. destruct Hi as [[_ Hi]|[_ ->]]; [|exact WF'].
      destruct (WF i hi Hi) as [ND A]. split; [exact ND|]. intros x Hx. specialize (A x Hx). lia.
    + intros i j hi hj Hij Hi Hj x Hx Hx'.
      apply app1_cases in Hi. apply app1_cases in Hj.
      destruct Hi as [[Li Hi]|[-> ->]], Hj as [[Lj Hj]|[-> ->]].
      * apply (DJ i j hi hj Hij Hi Hj x Hx Hx').
      * destruct (O x Hx') as [[]|H]. destruct (WF i hi Hi) as [_ A]. specialize (A x Hx). lia.
      * destruct (O x Hx) as [[]|H]. destruct (WF j hj Hj) as [_ A]. specialize (A x Hx'). lia.
      * congruence.
    + intros q hq Hn. cbn [fst snd] in *. split; [|apply (FR q hq Hn)].
      rewrite nth_error_app1; [exact Hn|]. apply nth_error_Some. congruence.
Qed.

Lemma wget_erase st hs r :
  wget (erase_w (st, hs)) r = match nth_error hs r with Some h => Ok (erase st h) | None => Raise EIndex end.
Proof. unfold wget, erase_w. cbn [fst snd]. rewrite nth_error_map. destruct (nth_error hs r); reflexivity. Qed.

Lemma h_new_spec st :
  opspec st [] (Ok (fst (allocR st rl_empty), mkH (snd (allocR st rl_empty)) [])) (Ok g_empty).
Proof.
  apply opspec_Ok; cbn [fst snd allocR].
  - unfold erase, g_empty. cbn [hnodes hedges dmap map]. f_equal. unfold rget. cbn. apply upd_eq.
  - unfold hspec, hwf, owns. cbn [hnodes hedges map next].
    split; [split|split; [|split]].
    + constructor; [intros []|constructor].
    + intros r [<-|[]]. lia.
    + lia.
    + intros r [<-|[]]. right; lia.
    + intros r Hr _. split; [reflexivity|]. unfold rget. cbn. apply upd_neq. lia.
Qed.

(* ONE STEP: the erased world moves as Model.wstep says (same exceptions), the
   world stays separated, and every register other than the target holds the
   same object erasing to the same value *)
Theorem hstep_ok w o : sep w ->
  eraseWR (hstep w o) = wstep (erase_w w) (to_wop o) /\
  forall w', hstep w o = Ok w' -> sep w' /\ forall q, target o <> Some q -> unchanged w w' q.
Proof.
  destruct w as [st hs]. intros SEP. pose proof SEP as [WF _]. cbn [fst snd] in WF.
  assert (IP : forall r h R m, nth_error hs r = Some h -> opspec st (owns h) R m ->
    eraseWR (in_place hs r R) = (do g' <- m; Ok (set_nth r g' (erase_w (st, hs)))) /\
    forall w', in_place hs r R = Ok w' -> sep w' /\ forall q, Some r <> Some q -> unchanged (st, hs) w' q).
  { intros r h R m Hr SP. destruct (in_place_ok st hs r h R m SEP Hr SP) as [E S]. split; [exact E|].
    intros w' H. destruct (S w' H) as [S1 S2]. split; [exact S1|]. intros q Hq. apply S2. congruence. }
  assert (IN : forall R m (o' : hop), opspec st [] R m ->
    eraseWR (in_new hs R) = (do g' <- m; Ok (erase_w (st, hs) ++ [g'])) /\
    forall w', in_new hs R = Ok w' -> sep w' /\ forall q, target o' <> Some q -> unchanged (st, hs) w' q).
  { intros R m o' SP. destruct (in_new_ok st hs R m SEP SP) as [E S]. split; [exact E|].
    intros w' H. destruct (S w' H) as [S1 S2]. split; [exact S1|]. intros q _. apply S2. }
  destruct o; unfold hstep; cbn [fst snd to_wop wstep target]; rewrite ?wget_erase; unfold hget.
  - (* new *) apply (IN _ (Ok g_empty) HNew), h_new_spec.
  - (* add_node *)
    destruct (nth_error hs r) as [h|] eqn:Hr; cbn [bind]; [|split; [reflexivity|discriminate]].
    apply (IP r h _ (Ok (add_node (erase st h) n)) Hr).
    destruct (h_add_node_spec st h n (WF r h Hr)). apply opspec_Ok; assumption.
  - (* remove_node *)
    destruct (nth_error hs r) as [h|] eqn:Hr; cbn [bind]; [|split; [reflexivity|discriminate]].
    apply (IP r h _ _ Hr), h_remove_node_spec, (WF r h Hr).
  - (* add_dependency *)
    destruct (nth_error hs r) as [h|] eqn:Hr; cbn [bind]; [|split; [reflexivity|discriminate]].
    apply (IP r h _ _ Hr), h_add_dependency_spec, (WF r h Hr).
  - (* remove_dependency *)
    destruct (nth_error hs r) as [h|] eqn:Hr; cbn [bind]; [|split; [reflexivity|discriminate]].
    apply (IP r h _ _ Hr), h_remove_dependency_spec, (WF r h Hr).
  - (* merge *)
    destruct (nth_error hs r) as [g|] eqn:Hr; cbn [bind]; [|split; [reflexivity|discriminate]].
    destruct (nth_error hs r') as [h|] eqn:Hr'; cbn [bind]; [|split; [reflexivity|discriminate]].
    apply (IP r g _ _ Hr), h_merge_spec, (WF r g Hr).
  - (* plus *)
    destruct (nth_error hs r) as [g|] eqn:Hr; cbn [bind]; [|split; [reflexivity|discriminate]].
    destruct (nth_error hs r') as [h|] eqn:Hr'; cbn [bind]; [|split; [reflexivity|discriminate]].
    apply (IN _ _ (HPlus r r')), h_plus_spec; [apply (WF r g Hr)|apply (WF r' h Hr')].
  - (* copy *)
    destruct (nth_error hs r) as [g|] eqn:Hr; cbn [bind]; [|split; [reflexivity|discriminate]].
    apply (IN _ (Ok (copy (erase st g))) (HCopy r)).
    destruct (h_copy_spec st g (WF r g Hr)). apply opspec_Ok; assumption.
  - (* invert *)
    destruct (nth_error hs r) as [g|] eqn:Hr; cbn [bind]; [|split; [reflexivity|discriminate]].
    apply (IN _ (Ok (invert (erase st g))) (HInvert r)).
    destruct (h_invert_spec st g (WF r g Hr)). apply opspec_Ok; assumption.
  - (* graft *)
    destruct (nth_error hs r) as [h|] eqn:Hr; cbn [bind]; [|split; [reflexivity|discriminate]].
    destruct (sub_of (erase_w (st, hs)) n) as [sub|]; [|split; [reflexivity|discriminate]].
    apply (IP r h _ _ Hr), h_graft_spec, (WF r h Hr).
  - (* flatten *)
    destruct (nth_error hs r) as [h|] eqn:Hr; cbn [bind]; [|split; [reflexivity|discriminate]].
    replace (length (erase_w (st, hs))) with (length hs) by (unfold erase_w; now rewrite map_length).
    apply (IP r h _ _ Hr). apply (h_flatten_spec _ _ _ (st, h)), (WF r h Hr).
  - (* transitive_reduction *)
    destruct (nth_error hs r) as [h|] eqn:Hr; cbn [bind]; [|split; [reflexivity|discriminate]].
    apply (IP r h _ _ Hr), h_transitive_reduction_spec, (WF r h Hr).
  - (* transitive_closure *)
    destruct (nth_error hs r) as [h|] eqn:Hr; cbn [bind]; [|split; [reflexivity|discriminate]].
    apply (IP r h _ _ Hr), h_transitive_closure_spec, (WF r h Hr).
Qed.

Theorem hstep_sim w o : sep w -> eraseWR (hstep w o) = wstep (erase_w w) (to_wop o).
Proof. intros S. apply hstep_ok, S. Qed.

Theorem hstep_sep w o w' : sep w -> hstep w o = Ok w' -> sep w'.
Proof. intros S H. apply (hstep_ok w o S), H. Qed.

Theorem hstep_frame w o w' q : sep w -> hstep w o = Ok w' -> target o <> Some q -> unchanged w w' q.
Proof. intros S H. apply (hstep_ok w o S), H. Qed.

(* ================= histories ================= *)
(* an operation that raises leaves the world as it is and the caller goes on
   (as in C16/History.v) *)
Fixpoint hrun (w : hworld) (l : list hop) : hworld :=
  match l with
  | [] => w
  | o :: t => match hstep w o with Ok w' => hrun w' t | Raise _ => hrun w t end
  end.

Fixpoint wrun_ops (w : world) (l : list wop) : world :=
  match l with
  | [] => w
  | o :: t => match wstep w o with Ok w' => wrun_ops w' t | Raise _ => wrun_ops w t end
  end.

Theorem hrun_ok l : forall w, sep w ->
  sep (hrun w l) /\ erase_w (hrun w l) = wrun_ops (erase_w w) (map to_wop l).
Proof.
  induction l as [|o t IH]; intros w S; cbn [hrun wrun_ops map]; [split; [exact S|reflexivity]|].
  destruct (hstep_ok w o S) as [E N]. destruct (hstep w o) as [w'|c]; cbn in E; rewrite <- E.
  - apply IH. apply (N w' eq_refl).
  - apply IH, S.
Qed.

(* separation is an invariant of every history *)
Theorem sep_invariant l : sep (hrun hw_empty l).
Proof. apply hrun_ok, sep_empty. Qed.

(* every history erases to the history of the functional model: whatever is
   proved about Model.wstep worlds holds for the worlds of heap graphs *)
Theorem hrun_sim l : erase_w (hrun hw_empty l) = wrun_ops [] (map to_wop l).
Proof. apply (hrun_ok l hw_empty sep_empty). Qed.

(* INDEPENDENCE.  After any history, an operation leaves the value of every
   register it does not target as it was; in particular nothing done to the
   original changes a copy, an inverted graph or a sum, and vice versa. *)
Theorem copy_independent (l : list hop) (o : hop) (q : nat) (w' : hworld) :
  let w := hrun hw_empty l in
  hstep w o = Ok w' -> target o <> Some q -> q < length (snd w) ->
  nth_error (erase_w w') q = nth_error (erase_w w) q.
Proof.
  intros w H Hq L. pose proof (hstep_frame w o w' q (sep_invariant l) H Hq) as U.
  destruct (nth_error (snd w) q) as [h|] eqn:Hn; [|apply nth_error_None in Hn; lia].
  destruct (U h Hn) as [Hn' E]. unfold erase_w. rewrite !nth_error_map, Hn, Hn'. cbn. now rewrite E.
Qed.

(* the same, read in the functional model: the register of the model world is unchanged *)
Corollary copy_independent_model (l : list hop) (o : hop) (q : nat) (mw' : world) :
  let mw := wrun_ops [] (map to_wop l) in
  wstep mw (to_wop o) = Ok mw' -> target o <> Some q -> q < length mw ->
  nth_error mw' q = nth_error mw q.
Proof.
  intros mw. unfold mw. rewrite <- hrun_sim. intros H Hq L.
  rewrite <- (hstep_sim _ o (sep_invariant l)) in H.
  destruct (hstep (hrun hw_empty l) o) as [w'|c] eqn:Hs; [|discriminate].
  injection H as <-. apply (copy_independent l o q w' Hs Hq).
  unfold erase_w in L. now rewrite map_length in L.
Qed.

(* ================= the regression: a copy that shares the set objects ================= *)
(* [_complete] ending in [return dict(complete_dct)] instead of line 341 *)
Definition h_copy_sharing (st : store) (h : hgraph) : store * hgraph :=
  let sr := allocR st (rl_of_list (seq (rl_copy (rget st (hnodes h))))) in
  let sc := h_complete_sharing (fst sr) (hedges h) in
  (fst sc, mkH (snd sr) (snd sc)).

(* g = DepGraph(); g.add_dependency(2, on=4); c = g.copy(); g.add_dependency(4, on=2):
   with the sharing copy, c sees the new edge 4 -> 2 (position 1 -> position 0);
   with the real copy it does not *)
Definition ex_world : hworld := hrun hw_empty [HNew; HAddDep 0 2 4].

Definition ex_after (cp : store -> hgraph -> store * hgraph) : option (option (list nat) * option (list nat)) :=
  match nth_error (snd ex_world) 0 with
  | Some g =>
    let sc := cp (fst ex_world) g in
    match h_add_dependency (fst sc) g 4 2 with
    | Ok sh => Some (dget 1 (edges (erase (fst sc) (snd sc))), dget 1 (edges (erase (fst sh) (snd sc))))
    | Raise _ => None
    end
  | None => None
  end.

Example copy_sharing_refuted : ex_after h_copy_sharing = Some (Some [], Some [0]).
Proof. vm_compute. reflexivity. Qed.

Example copy_fresh_unaffected : ex_after h_copy = Some (Some [], Some []).
Proof. vm_compute. reflexivity. Qed.

(* and the sharing copy erases to the same value as the real one: the
   difference is invisible in the functional model *)
Example copy_sharing_same_value :
  match nth_error (snd ex_world) 0 with
  | Some g => erase (fst (h_copy_sharing (fst ex_world) g)) (snd (h_copy_sharing (fst ex_world) g))
              = erase (fst (h_copy (fst ex_world) g)) (snd (h_copy (fst ex_world) g))
  | None => False
  end.
Proof. vm_compute. reflexivity. Qed.

(* the original and its sharing copy own the same set objects: the world
   [original; sharing copy] violates [sep], which is what the theorems exclude *)
Example copy_sharing_shares :
  match nth_error (snd ex_world) 0 with
  | Some g => exists r, In r (map snd (hedges g))
                        /\ In r (map snd (hedges (snd (h_copy_sharing (fst ex_world) g))))
  | None => False
  end.
Proof. vm_compute. exists 1. split; left; reflexivity. Qed.

Example copy_fresh_disjoint :
  match nth_error (snd ex_world) 0 with
  | Some g => forallb (fun r => negb (mem r (owns g))) (owns (snd (h_copy (fst ex_world) g))) = true
  | None => False
  end.
Proof. vm_compute. reflexivity. Qed.

(* under [sep] the erasure is defined in the sense of [erase_opt] *)
Lemma sep_erase_opt w i h : sep w -> nth_error (snd w) i = Some h ->
  erase_opt (fst w) h = Some (erase (fst w) h).
Proof. intros [WF _] H. apply erase_opt_wf, (WF i h H). Qed.

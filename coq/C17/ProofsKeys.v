(* C17 round 4: keys() / available_values() are the metadata keys / values
   present in some item, without repetition; their behaviour after filter_by
   and merge. *)
From Coq Require Import List ZArith Bool Arith Lia.
From VV Require Import Lib.Base C17.LibDict C17.Model C17.Proofs.
Import ListNotations.

Section SetFacts.
Context {A B : Type}.
Variable eqb : A -> A -> bool.
Hypothesis eqb_spec : forall a b, eqb a b = true <-> a = b.

Lemma get_some_in_keys k (v : B) d : get eqb k d = Some v -> In k (map fst d).
Proof.
  intros H. destruct (get_In eqb k v d H) as (k' & E & Hin). apply eqb_spec in E. subst k'.
  change k with (fst (k, v)). now apply in_map.
Qed.

Lemma In_keys_set k0 (v : B) d k :
  In k (map fst (set eqb k0 v d)) <-> k = k0 \/ In k (map fst d).
Proof.
  destruct (get eqb k0 d) as [v0|] eqn:E.
  - fold (keys (set eqb k0 v d)). rewrite (keys_set_in eqb k0 v d) by congruence. unfold keys.
    split; [tauto|]. intros [->|H]; [eapply get_some_in_keys; exact E|exact H].
  - fold (keys (set eqb k0 v d)). rewrite (keys_set_notin eqb k0 v d E). unfold keys.
    rewrite in_app_iff. cbn. split; [intros [H|[H|[]]]; auto|intros [H|H]; auto].
Qed.

Lemma In_set_inv k0 (v0 : B) d k v :
  In (k, v) (set eqb k0 v0 d) -> (k = k0 /\ v = v0) \/ In (k, v) d.
Proof.
  induction d as [|[k' v'] r IH]; cbn.
  - intros [[= <- <-]|[]]. now left.
  - destruct (eqb k0 k') eqn:E; cbn.
    + apply eqb_spec in E. subst k'. intros [[= <- <-]|H]; [now left|right; now right].
    + intros [H|H]; [right; now left|]. destruct (IH H) as [H1|H1]; [now left|right; now right].
Qed.

Lemma In_set_other k0 (v0 : B) d k v :
  In (k, v) d -> eqb k0 k = false -> In (k, v) (set eqb k0 v0 d).
Proof.
  intros Hin N. induction d as [|[k' v'] r IH]; cbn in *; [contradiction|].
  destruct (eqb k0 k') eqn:E; cbn.
  - destruct Hin as [[= -> ->]|H]; [congruence|now right].
  - destruct Hin as [H|H]; [now left|right; now apply IH].
Qed.

Lemma In_set_same k0 (v0 : B) d : exists k', eqb k0 k' = true /\ In (k', v0) (set eqb k0 v0 d).
Proof.
  induction d as [|[k' v'] r IH]; cbn.
  - exists k0. split; [now apply eqb_spec|now left].
  - destruct (eqb k0 k') eqn:E; cbn.
    + exists k'. split; [exact E|now left].
    + destruct IH as (k1 & E1 & H1). exists k1. split; [exact E1|now right].
Qed.

Lemma has_in k d : has eqb k d = true -> exists v : B, In (k, v) d.
Proof.
  unfold has. destruct (get eqb k d) as [v|] eqn:E; [|discriminate]. intros _.
  destruct (get_In eqb k v d E) as (k' & E1 & Hin). apply eqb_spec in E1. subst k'. now exists v.
Qed.
End SetFacts.

Section Keys.
Context {K V : Type}.
Variable keqb : K -> K -> bool.
Variable veqb : V -> V -> bool.
Variable hashable : V -> bool.
Variable kindex : K.
Variable vpos : nat -> V.
Hypothesis keqb_spec : forall a b, keqb a b = true <-> a = b.
Hypothesis veqb_spec : forall a b, veqb a b = true <-> a = b.
Hypothesis vpos_hashable : forall n, hashable (vpos n) = true.

Notation item := (list (K * V)).
Notation index := (list (K * list (V * list nat))).
Notation idx_add := (idx_add keqb veqb).
Notation add_item := (add_item keqb veqb).
Notation build_from := (build_from keqb veqb).
Notation stamp_from := (stamp_from keqb kindex vpos).
Notation make := (make keqb veqb hashable kindex vpos).
Notation filter_by := (filter_by keqb veqb hashable kindex vpos).
Notation merge := (merge keqb veqb hashable kindex vpos).
Notation wfb := (wfb keqb veqb hashable kindex vpos).

Definition avail (idx : index) (k : K) : list V :=
  match get keqb k idx with Some vals => map fst vals | None => [] end.

Lemma keys_idx_add k0 v0 i idx k :
  In k (map fst (idx_add k0 v0 i idx)) <-> k = k0 \/ In k (map fst idx).
Proof. unfold C17.Model.idx_add. apply (In_keys_set keqb keqb_spec). Qed.

Lemma avail_idx_add k0 v0 i idx k v :
  In v (avail (idx_add k0 v0 i idx) k) <-> (k = k0 /\ v = v0) \/ In v (avail idx k).
Proof.
  unfold avail, C17.Model.idx_add. rewrite (get_set keqb keqb_spec).
  destruct (keqb k k0) eqn:E.
  - apply keqb_spec in E. subst k0. rewrite (In_keys_set veqb veqb_spec).
    destruct (get keqb k idx); cbn; tauto.
  - assert (N : k <> k0) by (intros ->; rewrite (keqb_refl keqb keqb_spec) in E; discriminate).
    tauto.
Qed.

Lemma keys_add_item dk i (it : item) : forall idx k,
  In k (map fst (add_item dk i it idx))
  <-> In k (map fst idx) \/ (keqb k dk = false /\ exists v, In (k, v) it).
Proof.
  unfold C17.Model.add_item. induction it as [|[k0 v0] r IH]; intros idx k; cbn [fold_left].
  - split; [auto|]. intros [H|(_ & v & [])]. exact H.
  - rewrite IH. cbn [fst snd]. destruct (keqb k0 dk) eqn:E0.
    + apply keqb_spec in E0. subst k0. split.
      * intros [H|(N & v & H)]; [now left|right; split; [exact N|exists v; now right]].
      * intros [H|(N & v & [[= <- <-]|H])]; [now left| |right; split; [exact N|now exists v]].
        rewrite (keqb_refl keqb keqb_spec) in N. discriminate.
    + rewrite keys_idx_add. split.
      * intros [[->|H]|(N & v & H)]; [right; split; [exact E0|exists v0; now left]|now left|].
        right. split; [exact N|exists v; now right].
      * intros [H|(N & v & [[= <- <-]|H])]; [left; now right|left; now left|].
        right. split; [exact N|now exists v].
Qed.

Lemma avail_add_item dk i (it : item) : forall idx k v,
  In v (avail (add_item dk i it idx) k)
  <-> In v (avail idx k) \/ (keqb k dk = false /\ In (k, v) it).
Proof.
  unfold C17.Model.add_item. induction it as [|[k0 v0] r IH]; intros idx k v; cbn [fold_left].
  - split; [auto|]. intros [H|(_ & [])]. exact H.
  - rewrite IH. cbn [fst snd]. destruct (keqb k0 dk) eqn:E0.
    + apply keqb_spec in E0. subst k0. split.
      * intros [H|(N & H)]; [now left|right; split; [exact N|now right]].
      * intros [H|(N & [[= <- <-]|H])]; [now left| |right; split; [exact N|exact H]].
        rewrite (keqb_refl keqb keqb_spec) in N. discriminate.
    + rewrite avail_idx_add. split.
      * intros [[[-> ->]|H]|(N & H)]; [right; split; [exact E0|now left]|now left|].
        right. split; [exact N|now right].
      * intros [H|(N & [[= <- <-]|H])]; [left; now right|left; left; now split|].
        right. split; [exact N|exact H].
Qed.

Lemma keys_build dk (items : list item) : forall n idx k,
  In k (map fst (build_from dk n items idx))
  <-> In k (map fst idx) \/ (keqb k dk = false /\ exists it v, In it items /\ In (k, v) it).
Proof.
  induction items as [|it r IH]; intros n idx k; cbn [C17.Model.build_from].
  - split; [auto|]. intros [H|(_ & it & v & [] & _)]. exact H.
  - rewrite IH, keys_add_item. split.
    + intros [[H|(N & v & H)]|(N & it' & v & H1 & H2)]; [now left| |].
      * right. split; [exact N|]. exists it, v. split; [now left|exact H].
      * right. split; [exact N|]. exists it', v. split; [now right|exact H2].
    + intros [H|(N & it' & v & [<-|H1] & H2)]; [left; now left| |].
      * left. right. split; [exact N|now exists v].
      * right. split; [exact N|]. now exists it', v.
Qed.

Lemma avail_build dk (items : list item) : forall n idx k v,
  In v (avail (build_from dk n items idx) k)
  <-> In v (avail idx k) \/ (keqb k dk = false /\ exists it, In it items /\ In (k, v) it).
Proof.
  induction items as [|it r IH]; intros n idx k v; cbn [C17.Model.build_from].
  - split; [auto|]. intros [H|(_ & it & [] & _)]. exact H.
  - rewrite IH, avail_add_item. split.
    + intros [[H|(N & H)]|(N & it' & H1 & H2)]; [now left| |].
      * right. split; [exact N|]. exists it. split; [now left|exact H].
      * right. split; [exact N|]. exists it'. split; [now right|exact H2].
    + intros [H|(N & it' & [<-|H1] & H2)]; [left; now left| |].
      * left. right. now split.
      * right. split; [exact N|]. now exists it'.
Qed.

(* THEOREM keys_spec / available_values_spec *)
Theorem keys_spec items dk g b k :
  make items dk g = Ok b ->
  (In k (bkeys b) <-> keqb k (data_key b) = false /\ exists it v, In it (content b) /\ In (k, v) it).
Proof.
  intros HM. destruct (make_ok keqb veqb hashable kindex vpos _ _ _ _ HM) as (Hc & Hk & _ & Hi & _).
  unfold bkeys. rewrite Hi, keys_build, Hk, <- Hc. cbn. tauto.
Qed.

Theorem available_values_spec items dk g b k v :
  make items dk g = Ok b ->
  (In v (available_values keqb b k)
   <-> keqb k (data_key b) = false /\ exists it, In it (content b) /\ In (k, v) it).
Proof.
  intros HM. destruct (make_ok keqb veqb hashable kindex vpos _ _ _ _ HM) as (Hc & Hk & _ & Hi & _).
  change (available_values keqb b k) with (avail (bindex b) k).
  rewrite Hi, avail_build, Hk, <- Hc. unfold avail. cbn. tauto.
Qed.

(* no key / value is listed twice *)
Definition idx_nd (idx : index) : Prop :=
  NoDup (map fst idx) /\ forall k vals, In (k, vals) idx -> NoDup (map fst vals).

Lemma idx_nd_add k v i idx : idx_nd idx -> idx_nd (idx_add k v i idx).
Proof.
  intros [N1 N2]. unfold C17.Model.idx_add. split; [apply (set_NoDup keqb keqb_spec); exact N1|].
  intros k' vals' Hin. apply (In_set_inv keqb keqb_spec) in Hin. destruct Hin as [[_ ->]|Hin]; [|eauto].
  apply (set_NoDup veqb veqb_spec). destruct (get keqb k idx) as [vals|] eqn:E; [|constructor].
  destruct (get_In keqb k vals idx E) as (k1 & _ & H1). eauto.
Qed.

Lemma idx_nd_build dk (items : list item) : forall n idx, idx_nd idx -> idx_nd (build_from dk n items idx).
Proof.
  induction items as [|it r IH]; intros n idx W; cbn [C17.Model.build_from]; [exact W|].
  apply IH. unfold C17.Model.add_item. clear IH. revert idx W.
  induction it as [|[k v] r' IH']; intros idx W; cbn [fold_left]; [exact W|].
  apply IH'. cbn [fst snd]. destruct (keqb k dk); [exact W|now apply idx_nd_add].
Qed.

Theorem keys_values_nodup items dk g b :
  make items dk g = Ok b ->
  NoDup (bkeys b) /\ forall k, NoDup (available_values keqb b k).
Proof.
  intros HM. destruct (make_ok keqb veqb hashable kindex vpos _ _ _ _ HM) as (_ & _ & _ & Hi & _).
  assert (W : idx_nd (bindex b)).
  { rewrite Hi. apply idx_nd_build. split; [constructor|intros ? ? []]. }
  destruct W as [N1 N2]. split; [exact N1|]. intros k. unfold available_values.
  destruct (get keqb k (bindex b)) as [vals|] eqn:E; [|constructor].
  destruct (get_In keqb k vals _ E) as (k1 & _ & H1). eauto.
Qed.

(* ---------- after filter_by / merge ---------- *)
Lemma In_stamp it' n (l : list item) :
  In it' (stamp_from n l) -> exists it j, In it l /\ it' = set keqb kindex (vpos j) it.
Proof.
  revert n. induction l as [|it r IH]; intros n; cbn; [intros []|].
  intros [<-|H]; [exists it, n; split; [now left|reflexivity]|].
  destruct (IH _ H) as (it0 & j & H1 & H2). exists it0, j. split; [now right|exact H2].
Qed.

Lemma stamp_In it n (l : list item) :
  In it l -> exists j, In (set keqb kindex (vpos j) it) (stamp_from n l).
Proof.
  revert n. induction l as [|it0 r IH]; intros n; cbn; [intros []|].
  intros [->|H]; [exists n; now left|]. destruct (IH (S n) H) as (j & Hj). exists j. now right.
Qed.

(* an entry of a re-stamped item comes from an entry of the item (the index
   entry from its index entry) *)
Lemma entry_of_stamped (it : item) j k v :
  has keqb kindex it = true ->
  In (k, v) (set keqb kindex (vpos j) it) -> exists v', In (k, v') it.
Proof.
  intros HI Hin. apply (In_set_inv keqb keqb_spec) in Hin. destruct Hin as [[-> _]|Hin]; [|now exists v].
  now apply (has_in keqb keqb_spec).
Qed.

Lemma wfb_make b : wfb b -> exists items g, make items (data_key b) g = Ok b.
Proof. intros (items & g & _ & HM). now exists items, g. Qed.

(* THEOREM keys_after_filter: a selection never invents a key or a value *)
Theorem keys_after_filter b incl excl q b' :
  wfb b -> filter_by b incl excl q = Ok b' ->
  (forall k, In k (bkeys b') -> In k (bkeys b)) /\
  (forall k v, keqb k kindex = false -> In v (available_values keqb b' k) -> In v (available_values keqb b k)).
Proof.
  intros W HF.
  destruct (filter_by_spec keqb veqb hashable kindex vpos keqb_spec veqb_spec vpos_hashable b incl excl q W)
    as (b0 & E & Hc & _ & Hk & _ & W').
  rewrite HF in E. injection E as <-.
  destruct (wfb_facts keqb veqb hashable kindex vpos keqb_spec b W) as (_ & HI & _ & _).
  destruct (wfb_make b W) as (i1 & g1 & M1). destruct (wfb_make b' W') as (i2 & g2 & M2).
  split.
  - intros k Hin. apply (keys_spec _ _ _ _ k M2) in Hin. destruct Hin as (N & it' & v & H1 & H2).
    rewrite Hc in H1. destruct (In_stamp _ _ _ H1) as (it & j & H3 & ->).
    apply filter_In in H3. destruct H3 as [H3 _].
    rewrite Forall_forall in HI. destruct (entry_of_stamped it j k v (HI it H3) H2) as (v' & H4).
    apply (keys_spec _ _ _ _ k M1). rewrite <- Hk. split; [exact N|]. now exists it, v'.
  - intros k v NK Hin. apply (available_values_spec _ _ _ _ k v M2) in Hin.
    destruct Hin as (N & it' & H1 & H2).
    rewrite Hc in H1. destruct (In_stamp _ _ _ H1) as (it & j & H3 & ->).
    apply filter_In in H3. destruct H3 as [H3 _].
    apply (In_set_inv keqb keqb_spec) in H2. destruct H2 as [[-> _]|H2].
    + rewrite (keqb_refl keqb keqb_spec) in NK. discriminate.
    + apply (available_values_spec _ _ _ _ k v M1). rewrite <- Hk. split; [exact N|]. now exists it.
Qed.

(* THEOREM keys_after_merge: the keys of a merge are those of its two parts *)
Theorem keys_after_merge b1 b2 b :
  wfb b1 -> wfb b2 -> merge b1 b2 = Ok b ->
  forall k, In k (bkeys b) <-> In k (bkeys b1) \/ In k (bkeys b2).
Proof.
  intros W1 W2 HM k.
  destruct (merge_is_concat keqb veqb hashable kindex vpos keqb_spec vpos_hashable b1 b2 W1 W2) as [Hyes Hno].
  assert (Ek : data_key b1 = data_key b2).
  { destruct (keqb (data_key b1) (data_key b2)) eqn:E; [now apply keqb_spec|].
    rewrite Hno in HM; [discriminate|]. intros H. rewrite H, (keqb_refl keqb keqb_spec) in E. discriminate. }
  destruct (Hyes Ek) as (b0 & E & Hc & _ & Hk & _ & W). rewrite HM in E. injection E as <-.
  destruct (wfb_facts keqb veqb hashable kindex vpos keqb_spec b2 W2) as (_ & HI2 & _ & _).
  destruct (wfb_make b1 W1) as (i1 & g1 & M1). destruct (wfb_make b2 W2) as (i2 & g2 & M2).
  destruct (wfb_make b W) as (i0 & g0 & M0).
  rewrite (keys_spec _ _ _ _ k M0), (keys_spec _ _ _ _ k M1), (keys_spec _ _ _ _ k M2), Hk, <- Ek, Hc.
  rewrite Forall_forall in HI2. split.
  - intros (N & it & v & H1 & H2). apply in_app_iff in H1. destruct H1 as [H1|H1].
    + left. split; [exact N|]. now exists it, v.
    + right. split; [exact N|]. destruct (In_stamp _ _ _ H1) as (it0 & j & H3 & ->).
      destruct (entry_of_stamped it0 j k v (HI2 it0 H3) H2) as (v' & H4). now exists it0, v'.
  - intros [(N & it & v & H1 & H2)|(N & it & v & H1 & H2)].
    + split; [exact N|]. exists it, v. split; [apply in_app_iff; now left|exact H2].
    + split; [exact N|]. destruct (stamp_In it (length (content b1)) _ H1) as (j & Hj).
      destruct (keqb kindex k) eqn:E1.
      * apply keqb_spec in E1. subst k.
        destruct (In_set_same keqb keqb_spec kindex (vpos j) it) as (k' & E2 & H3).
        apply keqb_spec in E2. subst k'.
        exists (set keqb kindex (vpos j) it), (vpos j). split; [apply in_app_iff; now right|exact H3].
      * exists (set keqb kindex (vpos j) it), v. split; [apply in_app_iff; now right|].
        now apply (In_set_other keqb).
Qed.
End Keys.

(* C17: valjean/eponine/browser.py -- Index (key -> value -> positions) and
   Browser (__init__/_build_index, _filter_items_id_by, filter_by, select_by,
   merge, keys, available_values), as the code is after
   "fix: Browser.filter_by passes its data key on to the sub-browser".

   Python dicts are insertion-ordered association lists (LibDict); an item is
   a dict key -> object; objects carry a [hashable] flag because indexing an
   unhashable metadata value raises TypeError in the constructor.  Sets of
   positions are ascending lists.  Exception classes:
     0 TypeError  1 NoItemBrowserError  2 TooManyItemsBrowserError  3 ValueError *)
From Coq Require Import List ZArith Bool Arith Lia.
From VV Require Import Lib.Base C17.LibDict.
Import ListNotations.

Section Browser.
Context {K V : Type}.
Variable keqb : K -> K -> bool.      (* == on keys *)
Variable veqb : V -> V -> bool.      (* == on (hashable) values *)
Variable hashable : V -> bool.
Variable kindex : K.                 (* the reserved key 'index' *)
Variable vpos : nat -> V.            (* the int object n *)

Local Notation item := (list (K * V)).
Local Notation index := (list (K * list (V * list nat))).

(* index[k][v].add(i) on a defaultdict(defaultdict(set)) *)
Definition idx_add (k : K) (v : V) (i : nat) (idx : index) : index :=
  let vals := match get keqb k idx with Some vs => vs | None => [] end in
  let ps := match get veqb v vals with Some ps => ps | None => [] end in
  set keqb k (set veqb v (ps ++ [i]) vals) idx.

Definition lookup (idx : index) (k : K) (v : V) : list nat :=
  match get keqb k idx with
  | Some vals => match get veqb v vals with Some ps => ps | None => [] end
  | None => []
  end.

(* for key in elt: if key != data_key: index[key][elt[key]].add(ielt) *)
Definition add_item (dk : K) (i : nat) (it : item) (idx : index) : index :=
  fold_left (fun idx kv => if keqb (fst kv) dk then idx else idx_add (fst kv) (snd kv) i idx) it idx.

Fixpoint build_from (dk : K) (n : nat) (items : list item) (idx : index) : index :=
  match items with
  | [] => idx
  | it :: r => build_from dk (S n) r (add_item dk n it idx)
  end.

(* elt['index'] = ielt on the browser's own copies *)
Fixpoint stamp_from (n : nat) (items : list item) : list item :=
  match items with
  | [] => []
  | it :: r => set keqb kindex (vpos n) it :: stamp_from (S n) r
  end.

Definition item_hashable (dk : K) (it : item) : bool :=
  forallb (fun kv => keqb (fst kv) dk || hashable (snd kv)) it.

Record browser := mk_browser {
  content : list item;
  data_key : K;
  globals : list (K * V);
  bindex : index
}.

(* Browser(content, data_key, global_vars) *)
Definition make (items : list item) (dk : K) (g : list (K * V)) : res browser :=
  let c := stamp_from 0 items in
  if forallb (item_hashable dk) c
  then Ok {| content := c; data_key := dk; globals := g; bindex := build_from dk 0 c [] |}
  else Raise 0.

Definition mem (i : nat) (l : list nat) : bool := existsb (Nat.eqb i) l.
Definition inter (a b : list nat) : list nat := filter (fun i => mem i b) a.

(* _filter_items_id_by: the result, sorted *)
Fixpoint filter_ids_aux (idx : index) (q : list (K * V)) (ids : list nat) : list nat :=
  match q with
  | [] => ids
  | (k, v) :: q' =>
      match get keqb k idx with
      | None => []
      | Some vals =>
          match get veqb v vals with
          | None => []
          | Some ps => filter_ids_aux idx q' (inter ids ps)
          end
      end
  end.

Definition filter_ids (b : browser) (q : list (K * V)) : list nat :=
  filter_ids_aux (bindex b) q (seq 0 (length (content b))).

(* sincl.issubset(item) and not sexcl.intersection(item) *)
Definition sel_ok (incl excl : list K) (it : item) : bool :=
  forallb (fun k => has keqb k it) incl && negb (existsb (fun k => has keqb k it) excl).

Definition filter_list (b : browser) (incl excl : list K) (q : list (K * V)) : list item :=
  filter (sel_ok incl excl) (map (fun i => nth i (content b) []) (filter_ids b q)).

Definition filter_by (b : browser) (incl excl : list K) (q : list (K * V)) : res browser :=
  make (filter_list b incl excl q) (data_key b) (globals b).

Definition select_by (b : browser) (incl excl : list K) (q : list (K * V)) : res item :=
  match filter_list b incl excl q with
  | [] => Raise 1
  | [it] => Ok it
  | _ => Raise 2
  end.

Definition merge (b1 b2 : browser) : res browser :=
  if keqb (data_key b1) (data_key b2)
  then make (content b1 ++ content b2) (data_key b1) (update keqb (globals b1) (globals b2))
  else Raise 3.

Definition bkeys (b : browser) : list K := map fst (bindex b).

Definition available_values (b : browser) (k : K) : list V :=
  match get keqb k (bindex b) with Some vals => map fst vals | None => [] end.

(* ---- the naive scan the property compares with ---- *)
Definition has_kv (dk k : K) (v : V) (it : item) : bool :=
  negb (keqb k dk) &&
  match get keqb k it with Some v' => veqb v v' | None => false end.

Definition matches (dk : K) (q : list (K * V)) (it : item) : bool :=
  forallb (fun kv => has_kv dk (fst kv) (snd kv) it) q.

Definition selected (dk : K) (incl excl : list K) (q : list (K * V)) (it : item) : bool :=
  matches dk q it && sel_ok incl excl it.

(* chains of operations *)
Inductive op :=
| OFilter (incl excl : list K) (q : list (K * V))
| OMerge (other : browser).

Definition step (b : browser) (o : op) : res browser :=
  match o with
  | OFilter incl excl q => filter_by b incl excl q
  | OMerge other => merge b other
  end.

Fixpoint run (b : browser) (ops : list op) : res browser :=
  match ops with
  | [] => Ok b
  | o :: r => match step b o with Ok b' => run b' r | Raise c => Raise c end
  end.

End Browser.

Arguments browser : clear implicits.
Arguments op : clear implicits.

(* ------------------------------------------------------------------ *)
(* what a cases file evaluates: keys are ==-classes (Z), objects are
   hashable ==-classes or unhashable identities *)
Inductive pv := H (c : Z) | U (c : Z).
Definition pv_eqb (a b : pv) : bool :=
  match a, b with H x, H y => Z.eqb x y | U x, U y => Z.eqb x y | _, _ => false end.
Definition pv_hashable (a : pv) : bool := match a with H _ => true | U _ => false end.
Definition zpos (n : nat) : pv := H (Z.of_nat n).
Definition zitem := list (Z * pv).
Definition zbrowser := browser Z pv.

Definition zmake := make Z.eqb pv_eqb pv_hashable 0%Z zpos.

Definition entry_eqb (a b : Z * pv) : bool := Z.eqb (fst a) (fst b) && pv_eqb (snd a) (snd b).
(* dict equality (unordered; dicts have unique keys) *)
Definition incl_b {A} (eqb : A -> A -> bool) (l1 l2 : list A) : bool :=
  forallb (fun a => existsb (eqb a) l2) l1.
Definition set_eqb {A} (eqb : A -> A -> bool) (l1 l2 : list A) : bool :=
  incl_b eqb l1 l2 && incl_b eqb l2 l1.
Definition zitem_eqb (a b : zitem) : bool :=
  Nat.eqb (length a) (length b) && set_eqb entry_eqb a b.

Inductive zop :=
| ZMake
| ZFilter (incl excl : list Z) (q : list (Z * pv))
| ZSelect (incl excl : list Z) (q : list (Z * pv))
| ZMerge (c : list zitem) (dk : Z) (g : zitem)
| ZKeys
| ZVals (k : Z)
| ZIds (q : list (Z * pv)).

Inductive obs :=
| OBrowser (c : list zitem) (dk : Z) (g : zitem)
| OItem (it : zitem)
| OKeys (l : list Z)
| OVals (l : list pv)
| OIds (l : list nat).

Definition obs_of (r : res zbrowser) : res obs :=
  match r with
  | Ok b => Ok (OBrowser (content b) (data_key b) (globals b))
  | Raise c => Raise c
  end.

(* the state is given by (content, data key, globals) of the real browser *)
Definition run_zop (c : list zitem) (dk : Z) (g : zitem) (o : zop) : res obs :=
  match o with
  | ZMake => obs_of (zmake c dk g)
  | _ =>
    match zmake c dk g with
    | Raise e => Raise e
    | Ok b =>
      match o with
      | ZMake => Raise 9
      | ZFilter incl excl q => obs_of (filter_by Z.eqb pv_eqb pv_hashable 0%Z zpos b incl excl q)
      | ZSelect incl excl q =>
          match select_by Z.eqb pv_eqb b incl excl q with Ok it => Ok (OItem it) | Raise e => Raise e end
      | ZMerge c2 dk2 g2 =>
          match zmake c2 dk2 g2 with
          | Ok b2 => obs_of (merge Z.eqb pv_eqb pv_hashable 0%Z zpos b b2)
          | Raise e => Raise e
          end
      | ZKeys => Ok (OKeys (bkeys b))
      | ZVals k => Ok (OVals (available_values Z.eqb b k))
      | ZIds q => Ok (OIds (filter_ids Z.eqb pv_eqb b q))
      end
    end
  end.

Definition obs_eqb (a b : obs) : bool :=
  match a, b with
  | OBrowser c1 d1 g1, OBrowser c2 d2 g2 =>
      list_eqb zitem_eqb c1 c2 && Z.eqb d1 d2 && zitem_eqb g1 g2
  | OItem a, OItem b => zitem_eqb a b
  | OKeys a, OKeys b => set_eqb Z.eqb a b
  | OVals a, OVals b => set_eqb pv_eqb a b
  | OIds a, OIds b => list_eqb Nat.eqb a b
  | _, _ => false
  end.

Definition check_case (c : list zitem * Z * zitem * zop * res obs) : bool :=
  let '(cnt, dk, g, o, impl) := c in
  match run_zop cnt dk g o, impl with
  | Ok a, Ok b => obs_eqb a b
  | Raise a, Raise b => Nat.eqb a b
  | _, _ => false
  end.

(* ------------------------------------------------------------------ *)
(* small-scope exhaustive stream: for one item list and data key, ALL queries
   over two keys (1, 2): each key absent from the query / value H 1 / value
   H 1000000 / a value no item carries; include and exclude any subset of
   the keys.  The implementation's answers come packed 5 bits per query:
   the set of selected original positions (items are identified by their data
   object U i), 16 = something else wrong (order, stamps, data key, globals),
   17 = exception. *)
Definition exh_vals : list (option pv) := [None; Some (H 1); Some (H 1000000); Some (H 1000001)].
Definition exh_q (ka kb : option pv) : list (Z * pv) :=
  (match ka with Some v => [(1%Z, v)] | None => [] end)
  ++ (match kb with Some v => [(2%Z, v)] | None => [] end).
Definition exh_subsets : list (list Z) := [[]; [1%Z]; [2%Z]; [1%Z; 2%Z]].
Definition exh_queries : list (list Z * list Z * list (Z * pv)) :=
  flat_map (fun ka => flat_map (fun kb => flat_map (fun incl =>
    map (fun excl => (incl, excl, exh_q ka kb)) exh_subsets) exh_subsets) exh_vals) exh_vals.

Fixpoint increasing (prev : Z) (l : list Z) : bool :=
  match l with [] => true | x :: r => Z.ltb prev x && increasing x r end.

Definition exh_globals : zitem := [(5%Z, H 42)].

Definition exh_mask (dk : Z) (b : zbrowser) : Z :=
  let ids := map (fun it => match get Z.eqb dk it with Some (U i) => i | _ => (-1)%Z end) (content b) in
  let stamps_ok :=
    forallb (fun p => match get Z.eqb 0%Z (snd p) with
                      | Some (H j) => Z.eqb j (Z.of_nat (fst p))
                      | _ => false
                      end) (combine (seq 0 (length (content b))) (content b)) in
  if stamps_ok && increasing (-1)%Z ids && Z.eqb (data_key b) dk && zitem_eqb (globals b) exh_globals
  then fold_right (fun i a => (Z.shiftl 1 i + a)%Z) 0%Z ids
  else 16%Z.

Definition check_exh (c : list zitem * Z * Z) : bool :=
  let '(items, dk, packed) := c in
  match zmake items dk exh_globals with
  | Raise _ => false
  | Ok b =>
      forallb (fun p =>
                 let '(k, (incl, excl, q)) := p in
                 let m := match filter_by Z.eqb pv_eqb pv_hashable 0%Z zpos b incl excl q with
                          | Ok b' => exh_mask dk b'
                          | Raise _ => 17%Z
                          end in
                 Z.eqb m (Z.land (Z.shiftr packed (5 * Z.of_nat k)) 31))
              (combine (seq 0 (length exh_queries)) exh_queries)
  end.

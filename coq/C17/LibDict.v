(* Insertion-ordered dictionaries (Python dict / defaultdict) as association
   lists over a key type with a boolean equality.  Shared by C17, C18, C13. *)
From Coq Require Import List Bool Arith Lia.
Import ListNotations.

Section Dict.
Context {K V : Type}.
Variable keqb : K -> K -> bool.

Definition dict := list (K * V).

Fixpoint get (k : K) (d : dict) : option V :=
  match d with
  | [] => None
  | (k', v) :: r => if keqb k k' then Some v else get k r
  end.

Definition has (k : K) (d : dict) : bool :=
  match get k d with Some _ => true | None => false end.

(* d[k] = v : replaces in place (the first key object stays), or appends *)
Fixpoint set (k : K) (v : V) (d : dict) : dict :=
  match d with
  | [] => [(k, v)]
  | (k', v') :: r => if keqb k k' then (k', v) :: r else (k', v') :: set k v r
  end.

Definition update (d1 d2 : dict) : dict :=
  fold_left (fun d kv => set (fst kv) (snd kv) d) d2 d1.

Definition keys (d : dict) : list K := map fst d.

(* defaultdict.__getitem__ : a miss INSERTS the default; the new dictionary is
   part of the result *)
Definition dd_get (dflt : V) (k : K) (d : dict) : V * dict :=
  match get k d with
  | Some v => (v, d)
  | None => (dflt, d ++ [(k, dflt)])
  end.

Hypothesis keqb_spec : forall a b, keqb a b = true <-> a = b.

Lemma keqb_refl k : keqb k k = true.
Proof. apply keqb_spec; reflexivity. Qed.

Lemma keqb_neq a b : a <> b -> keqb a b = false.
Proof. intros H. destruct (keqb a b) eqn:E; [apply keqb_spec in E; contradiction|reflexivity]. Qed.

Lemma keqb_false a b : keqb a b = false -> a <> b.
Proof. intros E ->. rewrite keqb_refl in E. discriminate. Qed.

Lemma keqb_sym a b : keqb a b = keqb b a.
Proof.
  destruct (keqb a b) eqn:E.
  - apply keqb_spec in E. subst. symmetry. apply keqb_refl.
  - symmetry. apply keqb_neq. intros ->. rewrite keqb_refl in E. discriminate.
Qed.

Lemma get_set_same k v d : get k (set k v d) = Some v.
Proof.
  induction d as [|[k' v'] r IH]; cbn.
  - now rewrite keqb_refl.
  - destruct (keqb k k') eqn:E; cbn; rewrite E; [reflexivity|exact IH].
Qed.

Lemma get_set_other k k' v d : keqb k' k = false -> get k' (set k v d) = get k' d.
Proof.
  intros N. induction d as [|[k0 v0] r IH]; cbn.
  - now rewrite N.
  - destruct (keqb k k0) eqn:E; cbn.
    + apply keqb_spec in E. subst k0. now rewrite N.
    + destruct (keqb k' k0); [reflexivity|exact IH].
Qed.

Lemma get_set k k' v d :
  get k' (set k v d) = if keqb k' k then Some v else get k' d.
Proof.
  destruct (keqb k' k) eqn:E.
  - apply keqb_spec in E. subst. apply get_set_same.
  - now apply get_set_other.
Qed.

Lemma has_set k k' v d : has k' (set k v d) = keqb k' k || has k' d.
Proof. unfold has. rewrite get_set. destruct (keqb k' k); reflexivity. Qed.

Lemma get_none_notin k d : get k d = None <-> ~ In k (keys d).
Proof.
  induction d as [|[k' v'] r IH]; cbn; [tauto|].
  destruct (keqb k k') eqn:E.
  - apply keqb_spec in E. subst. split; [discriminate|]. intros H. exfalso. apply H. now left.
  - rewrite IH. apply keqb_false in E. split; [intros H [H1|H1]; [congruence|contradiction]|tauto].
Qed.

Lemma keys_set_in k v d : get k d <> None -> keys (set k v d) = keys d.
Proof.
  unfold keys. induction d as [|[k' v'] r IH]; cbn; [congruence|].
  destruct (keqb k k') eqn:E; cbn; [reflexivity|]. intros H. now rewrite IH.
Qed.

Lemma keys_set_notin k v d : get k d = None -> keys (set k v d) = keys d ++ [k].
Proof.
  unfold keys. induction d as [|[k' v'] r IH]; cbn; [reflexivity|].
  destruct (keqb k k') eqn:E; cbn; [discriminate|]. intros H. now rewrite IH.
Qed.

Lemma set_NoDup k v d : NoDup (keys d) -> NoDup (keys (set k v d)).
Proof.
  intros H. destruct (get k d) eqn:E.
  - rewrite keys_set_in; [exact H|congruence].
  - rewrite keys_set_notin by exact E. apply get_none_notin in E.
    clear -H E. induction (keys d) as [|a l IH]; cbn.
    + constructor; [intros []|constructor].
    + inversion H; subst. constructor.
      * rewrite in_app_iff. intros [H0|[H0|[]]]; [contradiction|]. subst. apply E. now left.
      * apply IH; [assumption|]. intros H0. apply E. now right.
Qed.

Lemma set_set k v v' d : set k v (set k v' d) = set k v d.
Proof.
  induction d as [|[k' v0] r IH]; cbn.
  - now rewrite keqb_refl.
  - destruct (keqb k k') eqn:E; cbn; rewrite E; [reflexivity|now rewrite IH].
Qed.

Lemma length_set_in k v d : get k d <> None -> length (set k v d) = length d.
Proof. intros H. rewrite <- (map_length fst), <- (map_length fst d). fold (keys (set k v d)). fold (keys d). now rewrite keys_set_in. Qed.

Lemma get_In k v d : get k d = Some v -> exists k', keqb k k' = true /\ In (k', v) d.
Proof.
  induction d as [|[k' v'] r IH]; cbn; [discriminate|].
  destruct (keqb k k') eqn:E.
  - intros [= ->]. exists k'. split; [exact E|now left].
  - intros H. destruct (IH H) as (k0 & H1 & H2). exists k0. split; [exact H1|now right].
Qed.

Lemma In_get k v d : NoDup (keys d) -> In (k, v) d -> get k d = Some v.
Proof.
  induction d as [|[k' v'] r IH]; cbn; [intros _ []|].
  intros ND [H|H].
  - inversion H; subst. now rewrite keqb_refl.
  - inversion ND; subst. destruct (keqb k k') eqn:E.
    + apply keqb_spec in E. subst. exfalso. apply H2. change k' with (fst (k', v)). now apply in_map.
    + now apply IH.
Qed.

End Dict.

(* C17 proofs: the inverted index refines the naive scan; filter_by / select_by /
   merge specifications; chains by induction. *)
From Coq Require Import List ZArith Bool Arith Lia.
From VV Require Import Lib.Base C17.LibDict C17.Model.
Import ListNotations.

Section Proofs.
Context {K V : Type}.
Variable keqb : K -> K -> bool.
Variable veqb : V -> V -> bool.
Variable hashable : V -> bool.
Variable kindex : K.
Variable vpos : nat -> V.
Hypothesis keqb_spec : forall a b, keqb a b = true <-> a = b.
Hypothesis veqb_spec : forall a b, veqb a b = true <-> a = b.

Notation item := (list (K * V)).
Notation index := (list (K * list (V * list nat))).
Notation idx_add := (idx_add keqb veqb).
Notation lookup := (lookup keqb veqb).
Notation add_item := (add_item keqb veqb).
Notation build_from := (build_from keqb veqb).
Notation stamp_from := (stamp_from keqb kindex vpos).
Notation make := (make keqb veqb hashable kindex vpos).
Notation has_kv := (has_kv keqb veqb).
Notation matches := (matches keqb veqb).
Notation selected := (selected keqb veqb).
Notation sel_ok := (sel_ok keqb).
Notation filter_ids := (filter_ids keqb veqb).
Notation filter_list := (filter_list keqb veqb).
Notation filter_by := (filter_by keqb veqb hashable kindex vpos).
Notation select_by := (select_by keqb veqb).
Notation merge := (merge keqb veqb hashable kindex vpos).
Notation item_hashable := (item_hashable keqb hashable).

Definition isdict (it : item) : Prop := NoDup (map fst it).

Lemma forallb_ext_aux {A} (f g : A -> bool) l : (forall x, f x = g x) -> forallb f l = forallb g l.
Proof. intros H. induction l as [|a l IH]; cbn; [reflexivity|now rewrite H, IH]. Qed.

Lemma forallb_ext_in_aux {A} (f g : A -> bool) l :
  (forall x, In x l -> f x = g x) -> forallb f l = forallb g l.
Proof.
  induction l as [|a l IH]; cbn; intros H; [reflexivity|].
  rewrite (H a) by now left. rewrite IH; [reflexivity|]. intros x Hx. apply H. now right.
Qed.

Lemma existsb_ext_aux {A} (f g : A -> bool) l : (forall x, f x = g x) -> existsb f l = existsb g l.
Proof. intros H. induction l as [|a l IH]; cbn; [reflexivity|now rewrite H, IH]. Qed.

(* ---------- the index ---------- *)
Lemma lookup_idx_add k v i idx k' v' :
  lookup (idx_add k v i idx) k' v'
  = if keqb k' k && veqb v' v then lookup idx k' v' ++ [i] else lookup idx k' v'.
Proof.
  unfold lookup, idx_add. rewrite (get_set keqb keqb_spec).
  destruct (keqb k' k) eqn:Ek; cbn [andb].
  - apply keqb_spec in Ek. subst k'. rewrite (get_set veqb veqb_spec).
    destruct (veqb v' v) eqn:Ev.
    + apply veqb_spec in Ev. subst v'. destruct (get keqb k idx); reflexivity.
    + destruct (get keqb k idx); reflexivity.
  - reflexivity.
Qed.

Lemma has_kv_cons dk k v k0 v0 r :
  has_kv dk k v ((k0, v0) :: r)
  = negb (keqb k dk) && (if keqb k k0 then veqb v v0 else
                           match get keqb k r with Some v' => veqb v v' | None => false end).
Proof. unfold has_kv. cbn. destruct (keqb k k0); reflexivity. Qed.

Lemma lookup_add_item dk i it idx k v :
  isdict it ->
  lookup (add_item dk i it idx) k v
  = lookup idx k v ++ (if has_kv dk k v it then [i] else []).
Proof.
  unfold add_item, isdict. revert idx.
  induction it as [|[k0 v0] r IH]; intros idx ND; cbn [fold_left].
  - unfold has_kv. cbn. rewrite andb_false_r. now rewrite app_nil_r.
  - cbn in ND. inversion ND as [|? ? Hnotin ND']; subst.
    rewrite IH by exact ND'. cbn [fst snd]. rewrite has_kv_cons.
    destruct (keqb k0 dk) eqn:E0.
    + (* the data key is skipped *)
      apply keqb_spec in E0. subst k0.
      destruct (keqb k dk) eqn:Ek; cbn [negb andb].
      * unfold has_kv. rewrite Ek. reflexivity.
      * unfold has_kv. rewrite Ek. reflexivity.
    + rewrite lookup_idx_add.
      destruct (keqb k k0) eqn:Ek.
      * apply keqb_spec in Ek. subst k0. rewrite E0. cbn [negb andb].
        assert (Hr : has_kv dk k v r = false).
        { unfold has_kv. replace (get keqb k r) with (@None V); [apply andb_false_r|].
          symmetry. apply (get_none_notin keqb keqb_spec). exact Hnotin. }
        rewrite Hr, app_nil_r. destruct (veqb v v0); [reflexivity|now rewrite app_nil_r].
      * cbn [andb]. unfold has_kv. reflexivity.
Qed.

Lemma lookup_build dk n items idx k v :
  Forall isdict items ->
  lookup (build_from dk n items idx) k v
  = lookup idx k v
    ++ filter (fun i => has_kv dk k v (nth (i - n) items [])) (seq n (length items)).
Proof.
  revert n idx. induction items as [|it r IH]; intros n idx HD; cbn [build_from length seq filter].
  - now rewrite app_nil_r.
  - inversion HD; subst. rewrite IH by assumption. rewrite lookup_add_item by assumption.
    rewrite <- app_assoc. f_equal.
    assert (E : filter (fun i => has_kv dk k v (nth (i - n) (it :: r) [])) (seq (S n) (length r))
                = filter (fun i => has_kv dk k v (nth (i - S n) r [])) (seq (S n) (length r))).
    { apply filter_ext_in. intros i Hi. apply in_seq in Hi.
      replace (i - n) with (S (i - S n)) by lia. reflexivity. }
    rewrite E. rewrite Nat.sub_diag. cbn [nth]. destruct (has_kv dk k v it); reflexivity.
Qed.

Lemma mem_spec i l : mem i l = true <-> In i l.
Proof.
  unfold mem. rewrite existsb_exists. split.
  - intros (x & Hx & E). apply Nat.eqb_eq in E. now subst.
  - intros H. exists i. split; [exact H|apply Nat.eqb_refl].
Qed.

Lemma mem_filter_seq P i n :
  mem i (filter P (seq 0 n)) = (i <? n) && P i.
Proof.
  apply eq_true_iff_eq. rewrite mem_spec, filter_In, in_seq, andb_true_iff, Nat.ltb_lt.
  split; [intros [[_ H] H2]; auto | intros [H H2]; split; [lia|auto]].
Qed.

Lemma filter_filter {A} (P Q : A -> bool) l :
  filter Q (filter P l) = filter (fun x => P x && Q x) l.
Proof.
  induction l as [|a l IH]; cbn; [reflexivity|].
  destruct (P a); cbn; [destruct (Q a); now rewrite IH|exact IH].
Qed.

Lemma filter_false {A} (P : A -> bool) l : (forall x, In x l -> P x = false) -> filter P l = [].
Proof.
  induction l as [|a l IH]; cbn; intros H; [reflexivity|].
  rewrite (H a) by now left. apply IH. intros x Hx. apply H. now right.
Qed.

Lemma filter_ids_aux_spec idx q ids :
  filter_ids_aux keqb veqb idx q ids
  = filter (fun i => forallb (fun kv => mem i (lookup idx (fst kv) (snd kv))) q) ids.
Proof.
  revert ids. induction q as [|[k v] q IH]; intros ids; cbn [filter_ids_aux forallb fst snd].
  - induction ids as [|a l IHl]; cbn; [reflexivity|now rewrite <- IHl].
  - unfold lookup at 1. destruct (get keqb k idx) as [vals|] eqn:Ek.
    + destruct (get veqb v vals) as [ps|] eqn:Ev.
      * rewrite IH. unfold inter. rewrite filter_filter. reflexivity.
      * symmetry. apply filter_false. reflexivity.
    + symmetry. apply filter_false. reflexivity.
Qed.

(* content / index of a constructed browser *)
Lemma make_ok items dk g b :
  make items dk g = Ok b ->
  content b = stamp_from 0 items /\ data_key b = dk /\ globals b = g /\
  bindex b = build_from dk 0 (stamp_from 0 items) [] /\
  forallb (item_hashable dk) (stamp_from 0 items) = true.
Proof.
  unfold make. destruct (forallb _ _) eqn:E; [|discriminate].
  intros [= <-]. cbn. auto.
Qed.

Lemma stamp_isdict n items : Forall isdict items -> Forall isdict (stamp_from n items).
Proof.
  revert n. induction items as [|it r IH]; intros n HD; cbn; [constructor|].
  inversion HD; subst. constructor; [|now apply IH].
  apply (set_NoDup keqb keqb_spec). assumption.
Qed.

Lemma stamp_length n items : length (stamp_from n items) = length items.
Proof. revert n. induction items as [|it r IH]; intros n; cbn; [reflexivity|now rewrite IH]. Qed.

(* THEOREM filter_ids_is_scan *)
Theorem filter_ids_is_scan items dk g b q :
  Forall isdict items -> make items dk g = Ok b ->
  filter_ids b q
  = filter (fun i => matches (data_key b) q (nth i (content b) [])) (seq 0 (length (content b))).
Proof.
  intros HD HM. destruct (make_ok _ _ _ _ HM) as (Hc & Hk & _ & Hi & _).
  unfold filter_ids. rewrite filter_ids_aux_spec. apply filter_ext_in.
  intros i Hi'. apply in_seq in Hi'. unfold matches.
  apply forallb_ext_aux. intros [k v]. cbn [fst snd].
  rewrite Hi, lookup_build by (apply stamp_isdict; exact HD).
  cbn [app]. replace (lookup [] k v) with (@nil nat) by reflexivity. cbn [app].
  rewrite <- Hc, Hk. rewrite mem_filter_seq.
  rewrite Nat.sub_0_r.
  destruct (Nat.ltb_spec i (length (content b))); [reflexivity|lia].
Qed.

(* ---------- from positions back to items ---------- *)
Lemma map_nth_filter_seq_from {A} (P : A -> bool) (c : list A) d s :
  map (fun i => nth (i - s) c d) (filter (fun i => P (nth (i - s) c d)) (seq s (length c)))
  = filter P c.
Proof.
  revert s. induction c as [|a r IH]; intros s; cbn [length seq filter map]; [reflexivity|].
  assert (E1 : filter (fun i => P (nth (i - s) (a :: r) d)) (seq (S s) (length r))
               = filter (fun i => P (nth (i - S s) r d)) (seq (S s) (length r))).
  { apply filter_ext_in. intros i Hi. apply in_seq in Hi.
    replace (i - s) with (S (i - S s)) by lia. reflexivity. }
  assert (E2 : forall l, Forall (fun i => S s <= i) l ->
               map (fun i => nth (i - s) (a :: r) d) l = map (fun i => nth (i - S s) r d) l).
  { intros l Hl. apply map_ext_in. intros i Hi. rewrite Forall_forall in Hl. specialize (Hl i Hi).
    replace (i - s) with (S (i - S s)) by lia. reflexivity. }
  assert (E3 : Forall (fun i => S s <= i) (filter (fun i => P (nth (i - S s) r d)) (seq (S s) (length r)))).
  { apply Forall_forall. intros i Hi. apply filter_In in Hi. destruct Hi as [Hi _]. apply in_seq in Hi. lia. }
  rewrite E1, Nat.sub_diag. change (nth 0 (a :: r) d) with a.
  destruct (P a); cbn [map].
  - rewrite Nat.sub_diag. change (nth 0 (a :: r) d) with a. f_equal. rewrite E2 by exact E3. apply IH.
  - rewrite E2 by exact E3. apply IH.
Qed.

Lemma map_nth_filter_seq {A} (P : A -> bool) (c : list A) d :
  map (fun i => nth i c d) (filter (fun i => P (nth i c d)) (seq 0 (length c))) = filter P c.
Proof.
  rewrite <- (map_nth_filter_seq_from P c d 0).
  rewrite (filter_ext (fun i => P (nth (i - 0) c d)) (fun i => P (nth i c d)))
    by (intros; now rewrite Nat.sub_0_r).
  apply map_ext. intros; now rewrite Nat.sub_0_r.
Qed.

Theorem filter_list_spec items dk g b incl excl q :
  Forall isdict items -> make items dk g = Ok b ->
  filter_list b incl excl q = filter (selected (data_key b) incl excl q) (content b).
Proof.
  intros HD HM. unfold filter_list. rewrite (filter_ids_is_scan items dk g b q HD HM).
  rewrite (map_nth_filter_seq (matches (data_key b) q)). rewrite filter_filter. reflexivity.
Qed.

(* ---------- stamping ---------- *)
Definition same_but_index (it' it : item) : Prop :=
  forall k, keqb k kindex = false -> get keqb k it' = get keqb k it.

Lemma stamp_same n l : Forall2 same_but_index (stamp_from n l) l.
Proof.
  revert n. induction l as [|it r IH]; intros n; cbn; constructor; [|apply IH].
  intros k Hk. now apply (get_set_other keqb keqb_spec).
Qed.

Lemma stamp_nth n l i :
  i < length l -> nth i (stamp_from n l) [] = set keqb kindex (vpos (n + i)) (nth i l []).
Proof.
  revert n i. induction l as [|it r IH]; intros n i Hi; cbn in Hi; [lia|].
  destruct i; cbn [stamp_from nth]; [now rewrite Nat.add_0_r|].
  rewrite IH by lia. do 2 f_equal. lia.
Qed.

Lemma stamp_app n l1 l2 :
  stamp_from n (l1 ++ l2) = stamp_from n l1 ++ stamp_from (n + length l1) l2.
Proof.
  revert n. induction l1 as [|it r IH]; intros n; cbn; [now rewrite Nat.add_0_r|].
  rewrite IH. replace (S n + length r) with (n + S (length r)) by lia. reflexivity.
Qed.

Lemma stamp_stamp n m l : stamp_from n (stamp_from m l) = stamp_from n l.
Proof.
  revert n m. induction l as [|it r IH]; intros n m; cbn; [reflexivity|].
  now rewrite (set_set keqb keqb_spec), IH.
Qed.

Definition has_index (it : item) : Prop := has keqb kindex it = true.

Lemma stamp_has_index n l : Forall has_index (stamp_from n l).
Proof.
  revert n. induction l as [|it r IH]; intros n; cbn; constructor; [|apply IH].
  unfold has_index. rewrite (has_set keqb keqb_spec), (keqb_refl keqb keqb_spec). reflexivity.
Qed.

Lemma forallb_set (f : K * V -> bool) k v (d : item) :
  forallb f d = true -> f (k, v) = true -> forallb f (set keqb k v d) = true.
Proof.
  intros Hd Hf. induction d as [|[k' v'] r IH]; cbn in *; [now rewrite Hf|].
  apply andb_true_iff in Hd. destruct Hd as [H1 H2].
  destruct (keqb k k') eqn:E; cbn.
  - apply keqb_spec in E. subst k'. now rewrite Hf, H2.
  - now rewrite H1, IH.
Qed.

Hypothesis vpos_hashable : forall n, hashable (vpos n) = true.

Lemma stamp_hashable dk n l :
  forallb (item_hashable dk) l = true -> forallb (item_hashable dk) (stamp_from n l) = true.
Proof.
  revert n. induction l as [|it r IH]; intros n; cbn; [reflexivity|].
  rewrite !andb_true_iff. intros [H1 H2]. split; [|now apply IH].
  unfold item_hashable. apply forallb_set; [exact H1|]. cbn. rewrite vpos_hashable. apply orb_true_r.
Qed.

Lemma filter_hashable dk P (l : list item) :
  forallb (item_hashable dk) l = true -> forallb (item_hashable dk) (filter P l) = true.
Proof.
  induction l as [|it r IH]; cbn; [reflexivity|].
  rewrite andb_true_iff. intros [H1 H2]. destruct (P it); cbn; [rewrite H1|]; now apply IH.
Qed.

Lemma filter_isdict P (l : list item) : Forall isdict l -> Forall isdict (filter P l).
Proof.
  intros H. apply Forall_forall. intros x Hx. apply filter_In in Hx.
  rewrite Forall_forall in H. apply H. tauto.
Qed.

(* a browser that came out of the constructor on a list of dicts *)
Definition wfb (b : browser K V) : Prop :=
  exists items g, Forall isdict items /\ make items (data_key b) g = Ok b.

Lemma wfb_facts b :
  wfb b ->
  Forall isdict (content b) /\ Forall has_index (content b) /\
  forallb (item_hashable (data_key b)) (content b) = true /\
  stamp_from 0 (content b) = content b.
Proof.
  intros (items & g & HD & HM). destruct (make_ok _ _ _ _ HM) as (Hc & _ & _ & _ & Hh).
  rewrite Hc. repeat split.
  - now apply stamp_isdict.
  - apply stamp_has_index.
  - exact Hh.
  - apply stamp_stamp.
Qed.

Lemma make_of_hashable items dk g :
  forallb (item_hashable dk) items = true ->
  exists b, make items dk g = Ok b /\ content b = stamp_from 0 items /\
            data_key b = dk /\ globals b = g.
Proof.
  intros H. unfold make. rewrite (stamp_hashable dk 0 items H).
  eexists. split; [reflexivity|]. cbn. auto.
Qed.

(* THEOREM filter_by_spec *)
Theorem filter_by_spec b incl excl q :
  wfb b ->
  exists b',
    filter_by b incl excl q = Ok b' /\
    content b' = stamp_from 0 (filter (selected (data_key b) incl excl q) (content b)) /\
    Forall2 same_but_index (content b') (filter (selected (data_key b) incl excl q) (content b)) /\
    data_key b' = data_key b /\ globals b' = globals b /\ wfb b'.
Proof.
  intros W. destruct (wfb_facts b W) as (HD & HI & HH & _).
  destruct W as (items & g & HD0 & HM).
  unfold filter_by. rewrite (filter_list_spec items _ g b incl excl q HD0 HM).
  set (l := filter (selected (data_key b) incl excl q) (content b)).
  destruct (make_of_hashable l (data_key b) (globals b)) as (b' & E & Hc & Hk & Hg).
  { apply filter_hashable. exact HH. }
  exists b'. split; [exact E|]. split; [exact Hc|]. split; [rewrite Hc; apply stamp_same|].
  split; [exact Hk|]. split; [exact Hg|].
  exists l, (globals b). split; [apply filter_isdict; exact HD|]. rewrite Hk. exact E.
Qed.

(* THEOREM select_by_spec *)
Theorem select_by_spec b incl excl q :
  wfb b ->
  select_by b incl excl q
  = match filter (selected (data_key b) incl excl q) (content b) with
    | [] => Raise 1
    | [it] => Ok it
    | _ => Raise 2
    end.
Proof.
  intros (items & g & HD0 & HM). unfold select_by.
  now rewrite (filter_list_spec items _ g b incl excl q HD0 HM).
Qed.

(* THEOREM merge_is_concat *)
Theorem merge_is_concat b1 b2 :
  wfb b1 -> wfb b2 ->
  (data_key b1 = data_key b2 ->
   exists b, merge b1 b2 = Ok b /\
     content b = content b1 ++ stamp_from (length (content b1)) (content b2) /\
     Forall2 same_but_index (content b) (content b1 ++ content b2) /\
     data_key b = data_key b1 /\
     globals b = update keqb (globals b1) (globals b2) /\ wfb b) /\
  (data_key b1 <> data_key b2 -> merge b1 b2 = Raise 3).
Proof.
  intros W1 W2. destruct (wfb_facts b1 W1) as (HD1 & _ & HH1 & HS1).
  destruct (wfb_facts b2 W2) as (HD2 & _ & HH2 & _). unfold merge. split.
  - intros E. rewrite E, (keqb_refl keqb keqb_spec).
    destruct (make_of_hashable (content b1 ++ content b2) (data_key b2)
                (update keqb (globals b1) (globals b2))) as (b & Eb & Hc & Hk & Hg).
    { rewrite forallb_app, <- E, HH1, E, HH2. reflexivity. }
    exists b. split; [exact Eb|]. split.
    { rewrite Hc, stamp_app, HS1. reflexivity. }
    split; [rewrite Hc; apply stamp_same|]. split; [congruence|]. split; [exact Hg|].
    eexists _, _. split; [|rewrite Hk; exact Eb]. apply Forall_app. split; assumption.
  - intros N. now rewrite (keqb_neq keqb keqb_spec _ _ N).
Qed.

(* ---------- chains ---------- *)
Notation step := (step keqb veqb hashable kindex vpos).
Notation run := (run keqb veqb hashable kindex vpos).

Definition op_wf (o : op K V) : Prop :=
  match o with OFilter _ _ _ => True | OMerge other => wfb other end.

(* THEOREM chains_well_formed: whatever the chain, every intermediate result is a
   well-formed browser with the data key of the first one; the only error is the
   documented ValueError of merge (never the TypeError of the unfixed code) *)
Theorem chains_well_formed ops : forall b,
  wfb b -> Forall op_wf ops ->
  (exists b', run b ops = Ok b' /\ wfb b' /\ data_key b' = data_key b)
  \/ run b ops = Raise 3.
Proof.
  induction ops as [|o r IH]; intros b W HO; cbn [Model.run].
  - left. exists b. auto.
  - inversion HO as [|? ? Ho Hr]; subst. destruct o as [incl excl q|other]; cbn [Model.step].
    + destruct (filter_by_spec b incl excl q W) as (b' & E & _ & _ & Hk & _ & W').
      rewrite E. destruct (IH b' W' Hr) as [(b'' & E2 & W2 & K2)|E2]; [left|right; exact E2].
      exists b''. split; [exact E2|]. split; [exact W2|congruence].
    + cbn in Ho. destruct (merge_is_concat b other W Ho) as [Hyes Hno].
      destruct (keqb (data_key b) (data_key other)) eqn:E.
      * apply keqb_spec in E. destruct (Hyes E) as (b' & E1 & _ & _ & Hk & _ & W').
        rewrite E1. destruct (IH b' W' Hr) as [(b'' & E2 & W2 & K2)|E2]; [left|right; exact E2].
        exists b''. split; [exact E2|]. split; [exact W2|congruence].
      * right. rewrite Hno; [reflexivity|]. now apply (keqb_false keqb keqb_spec).
Qed.

(* successive filters = one filter by the conjunction, as long as the queries
   do not select on the renumbered 'index' key *)
Definition fspec := (list K * list K * list (K * V))%type.
Definition f_op (f : fspec) : op K V := OFilter (fst (fst f)) (snd (fst f)) (snd f).
Definition f_sel dk (f : fspec) : item -> bool := selected dk (fst (fst f)) (snd (fst f)) (snd f).
Definition f_noindex (f : fspec) : Prop := forall k v, In (k, v) (snd f) -> keqb k kindex = false.

Definition pinv (P : item -> bool) : Prop :=
  forall v it, has_index it -> P (set keqb kindex v it) = P it.

Lemma selected_pinv dk f : f_noindex f -> pinv (f_sel dk f).
Proof.
  intros NI v it HI. unfold f_sel, selected, Model.selected. f_equal.
  - unfold Model.matches. apply forallb_ext_in_aux. intros [k v'] Hin. cbn [fst snd].
    unfold Model.has_kv. rewrite (get_set_other keqb keqb_spec); [reflexivity|]. exact (NI k v' Hin).
  - unfold Model.sel_ok.
    assert (E : forall k, has keqb k (set keqb kindex v it) = has keqb k it).
    { intros k. rewrite (has_set keqb keqb_spec). destruct (keqb k kindex) eqn:Ek; [|reflexivity].
      apply keqb_spec in Ek. subst k. symmetry. exact HI. }
    f_equal; [|f_equal]; [apply forallb_ext_aux|apply existsb_ext_aux]; exact E.
Qed.

Lemma restamp P n m l :
  Forall has_index l -> pinv P ->
  stamp_from n (filter P (stamp_from m l)) = stamp_from n (filter P l).
Proof.
  intros HI HP. revert n m. induction HI as [|it r Hit Hr IH]; intros n m; cbn [Model.stamp_from filter];
    [reflexivity|].
  rewrite (HP _ _ Hit). destruct (P it); cbn [Model.stamp_from].
  - now rewrite (set_set keqb keqb_spec), IH.
  - apply IH.
Qed.

Lemma filter_has_index P l : Forall has_index l -> Forall has_index (filter P l).
Proof.
  intros H. apply Forall_forall. intros x Hx. apply filter_In in Hx.
  rewrite Forall_forall in H. apply H. tauto.
Qed.

(* THEOREM filter_chain_spec *)
Theorem filter_chain_spec fs : forall b,
  wfb b -> Forall f_noindex fs ->
  exists b', run b (map f_op fs) = Ok b' /\
    content b' = stamp_from 0 (filter (fun it => forallb (fun f => f_sel (data_key b) f it) fs) (content b)) /\
    data_key b' = data_key b /\ globals b' = globals b.
Proof.
  induction fs as [|f r IH]; intros b W NI; cbn [map Model.run forallb].
  - exists b. destruct (wfb_facts b W) as (_ & _ & _ & HS). split; [reflexivity|].
    split; [|auto]. symmetry. rewrite <- HS at 2. f_equal.
    clear. induction (content b) as [|a l IHl]; cbn; [reflexivity|now rewrite IHl].
  - inversion NI as [|? ? Hf Hr]; subst. unfold f_op at 1. cbn [Model.step].
    destruct (filter_by_spec b (fst (fst f)) (snd (fst f)) (snd f) W) as (b1 & E & Hc & _ & Hk & Hg & W1).
    rewrite E. destruct (IH b1 W1 Hr) as (b' & E' & Hc' & Hk' & Hg').
    exists b'. split; [exact E'|]. split; [|split; congruence].
    rewrite Hc', Hc, Hk. destruct (wfb_facts b W) as (_ & HI & _ & _).
    rewrite restamp.
    + rewrite filter_filter. reflexivity.
    + apply filter_has_index. exact HI.
    + intros v it Hit. apply forallb_ext_in_aux. intros f0 Hin.
      rewrite Forall_forall in Hr. apply (selected_pinv (data_key b) f0 (Hr f0 Hin)). exact Hit.
Qed.
End Proofs.

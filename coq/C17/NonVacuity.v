(* the hypotheses of the C17 theorems are met by concrete data, and the
   unfixed filter_by (data key dropped) violated filter_by_spec *)
From Coq Require Import List ZArith Bool Arith Lia.
From VV Require Import Lib.Base C17.LibDict C17.Model C17.Proofs.
Import ListNotations.
Open Scope Z_scope.

Lemma Zeqb_spec a b : Z.eqb a b = true <-> a = b.
Proof. apply Z.eqb_eq. Qed.
Lemma pv_eqb_spec a b : pv_eqb a b = true <-> a = b.
Proof.
  destruct a, b; cbn; rewrite ?Z.eqb_eq; split; try discriminate; try congruence.
Qed.
Lemma zpos_hashable n : pv_hashable (zpos n) = true.
Proof. reflexivity. Qed.

(* keys: 0 'index', 1 'menu', 2 'drink', 7 'data' (data key), 8 'results';
   values: H 1 covers 1 / 1.0 / True; U n are unhashable data objects *)
Definition orders : list zitem :=
  [ [(1, H 1); (2, H 1000); (7, U 0)];
    [(1, H 2); (7, U 1)];
    [(1, H 1); (2, H 1001); (0, H 99); (7, U 2)] ].

Example orders_dicts : Forall isdict orders.
Proof. repeat constructor; cbn; intuition discriminate. Qed.

Definition br : zbrowser :=
  match zmake orders 7 [(5, H 42)] with Ok b => b | Raise _ => mk_browser [] 0 [] [] end.

Example br_made : zmake orders 7 [(5, H 42)] = Ok br.
Proof. reflexivity. Qed.

Example br_wfb : wfb Z.eqb pv_eqb pv_hashable 0 zpos br.
Proof. exists orders, [(5, H 42)]. split; [exact orders_dicts|exact br_made]. Qed.

Example br_filter :
  match filter_by Z.eqb pv_eqb pv_hashable 0 zpos br [2] [] [(1, H 1)] with
  | Ok b => (map (get Z.eqb 7) (content b), map (get Z.eqb 0) (content b), data_key b, globals b)
  | Raise _ => ([], [], 0, [])
  end = ([Some (U 0); Some (U 2)], [Some (H 0); Some (H 1)], 7, [(5, H 42)]).
Proof. vm_compute. reflexivity. Qed.

Example br_select_too_many : select_by Z.eqb pv_eqb br [] [] [(1, H 1)] = Raise 2%nat.
Proof. vm_compute. reflexivity. Qed.
Example br_select_none : select_by Z.eqb pv_eqb br [] [] [(1, H 3)] = Raise 1%nat.
Proof. vm_compute. reflexivity. Qed.
Example br_select_data_key : select_by Z.eqb pv_eqb br [] [] [(7, U 0)] = Raise 1%nat.
Proof. vm_compute. reflexivity. Qed.

(* filter_by as it was before the fix: Browser(lresp, global_vars=self.globals),
   i.e. the default data key 'results' (8) *)
Definition filter_by_unfixed (b : zbrowser) incl excl q :=
  zmake (filter_list Z.eqb pv_eqb b incl excl q) 8 (globals b).

Example filter_by_spec_refuted : filter_by_unfixed br [] [] [(1, H 1)] = Raise 0%nat.
Proof. vm_compute. reflexivity. Qed.
